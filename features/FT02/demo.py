"""Demo for property C02 (all backends compute the same function for the same model).

Model: three QIF populations, each driven by its own column of a multi-column extrinsic input (N x 3 array), compiled
for an adaptive-step solver (solver='scipy'), so that the input enters the vector field via `interp_rows(t, time, inp)`.

Checks, for every Python backend that accepts this model (backends that raise while building/evaluating are skipped):
 (1) the vector field, evaluated at random states and at times inside AND outside the time grid of the input, equals an
     independently computed right-hand side (QIF mean-field equations + np.interp per input column; np.interp holds
     the first/last input sample outside of the grid);
 (2) all accepting backends agree with each other;
 (3) a trajectory integrated with scipy.solve_ivp past the end of the input grid equals the trajectory of the
     independent right-hand side.

Exit code 0 + "PASS" if all checks hold, exit code 1 + "FAIL" otherwise.
"""
import sys, os, warnings
ROOT = os.path.dirname(os.path.dirname(os.path.abspath(__file__)))
sys.path.insert(0, ROOT)
os.makedirs(os.path.join(ROOT, '.scratch', 'demo_build'), exist_ok=True)
os.chdir(os.path.join(ROOT, '.scratch', 'demo_build'))
warnings.filterwarnings('ignore')

import numpy as np
import pyrates
assert os.path.abspath(pyrates.__file__).startswith(ROOT + os.sep), pyrates.__file__
from pyrates import CircuitTemplate, NodeTemplate, clear
from scipy.integrate import solve_ivp

# model + input definition
dt = 1e-2
T_in = 4.0
N = int(round(T_in / dt))
tt = np.arange(N) * dt
inp = np.stack([np.sin(2 * np.pi * 0.5 * tt), 2.0 * np.cos(2 * np.pi * 0.3 * tt), 0.5 * tt], axis=1)
n_pop = inp.shape[1]
grid = np.linspace(0.0, T_in, N)   # time grid that the frontend attaches to the input samples


def build(backend: str):
    node = NodeTemplate.from_yaml("model_templates.neural_mass_models.qif.qif_pop")
    c = CircuitTemplate(name='net', nodes={f'p{i}': node for i in range(n_pop)})
    f, args, names, idx = c.get_run_func('vf', step_size=dt, inputs={'all/qif_op/I_ext': inp}, backend=backend,
                                         solver='scipy', verbose=False, clear=False, vectorize=True,
                                         float_precision='float64', file_name=f'demo_{backend}')
    return c, f, args, names, idx


def by_name(names, args, key):
    hits = [a for n, a in zip(names, args) if n.split('/')[-1] == key]
    assert len(hits) == 1, (key, names)
    return np.asarray(hits[0], dtype=np.float64)


def expected_rhs(t, y, p):
    """QIF mean-field equations (Montbrio et al. 2015) with column-wise, np.interp-based input."""
    r, v = y[:n_pop], y[n_pop:]
    I_ext = np.array([np.interp(t, grid, inp[:, k]) for k in range(n_pop)])
    I_ext = p['weight'] @ I_ext if p['weight'].ndim == 2 else p['weight'] * I_ext
    dr = (p['Delta'] / (np.pi * p['tau']) + 2.0 * r * v) / p['tau']
    dv = (v ** 2 + p['eta'] + I_ext + p['r_in'] * p['tau'] - (np.pi * r * p['tau']) ** 2) / p['tau']
    return np.concatenate([dr, dv])


rng = np.random.default_rng(7)
times = [0.0, 0.013, 0.5, 1.2345, 3.2, 3.99, T_in, T_in + 0.25, T_in + 2.0, -0.3]
states = [np.concatenate([rng.uniform(0.05, 1.0, n_pop), rng.normal(0.0, 1.0, n_pop)]) for _ in times]

failures = []
results = {}
accepted = []
for backend in ['default', 'torch', 'jax']:

    # build the vector field function; a backend that cannot handle this model is outside of the property's quantifier
    c = None
    try:
        c, f, args, names, idx = build(backend)
        if backend == 'torch':
            import torch
            conv = lambda x: torch.as_tensor(np.asarray(x, dtype=np.float64))
        elif backend == 'jax':
            import jax.numpy as jnp
            conv = lambda x: jnp.asarray(np.asarray(x, dtype=np.float64))
        else:
            conv = lambda x: np.asarray(x, dtype=np.float64)
        np.asarray(f(conv(0.5), conv(states[0]), *args[2:]))
    except Exception as e:
        print(f"[{backend}] skipped, backend does not accept the model: {type(e).__name__}: {str(e)[:80]}")
        try:
            clear(c)
        except Exception:
            pass
        continue
    accepted.append(backend)

    # frontend-name matching of state variables and parameters
    names_front = list(names)
    assert idx['p0/qif_op/r'] == (0, n_pop) and idx['p0/qif_op/v'] == (n_pop, 2 * n_pop), idx
    p = {key: by_name(names_front, args, key) for key in ['tau', 'Delta', 'eta', 'r_in', 'weight']}
    if not np.allclose(by_name(names_front, args, 'I_ext_input'), inp):
        failures.append(f"[{backend}] returned input array differs from the one passed in")
    if not np.allclose(by_name(names_front, args, 'time'), grid):
        failures.append(f"[{backend}] returned time grid differs from linspace(0, T_in, N)")

    # (1) vector field vs. independent right-hand side
    out = []
    for t, y in zip(times, states):
        got = np.array(np.asarray(f(conv(t), conv(y), *args[2:])), dtype=np.float64)   # copy: in-place buffer
        exp = expected_rhs(t, y, p)
        out.append(got)
        if not np.allclose(got, exp, rtol=1e-8, atol=1e-10):
            failures.append(f"[{backend}] vector field at t={t:.4f}: got {np.round(got[n_pop:], 6)}, "
                            f"expected {np.round(exp[n_pop:], 6)} (dv/dt entries)")
    results[backend] = np.asarray(out)

    # (3) trajectory past the end of the input grid (default backend only, keeps the demo fast)
    if backend == 'default':
        y0 = np.concatenate([np.full(n_pop, 0.2), np.full(n_pop, -0.5)])
        t_eval = np.linspace(0.0, T_in + 2.0, 61)
        kw = dict(t_span=(0.0, T_in + 2.0), y0=y0, t_eval=t_eval, rtol=1e-9, atol=1e-11, method='RK45')
        sol = solve_ivp(lambda t, y: np.array(f(t, y, *args[2:])), **kw)
        ref = solve_ivp(lambda t, y: expected_rhs(t, y, p), **kw)
        err = np.max(np.abs(sol.y - ref.y))
        if not err < 1e-6:
            k = int(np.argmax(np.max(np.abs(sol.y - ref.y), axis=0)))
            failures.append(f"[{backend}] trajectory deviates from the independent solution by {err:.3e} "
                            f"(largest at t={t_eval[k]:.2f})")
    clear(c)

# (2) cross-backend agreement
for b in accepted[1:]:
    dev = np.max(np.abs(results[b] - results[accepted[0]]))
    if not dev < 1e-8:
        failures.append(f"[{accepted[0]} vs {b}] vector fields differ by up to {dev:.3e}")

if 'default' not in accepted:
    failures.append("default backend did not accept the model")

print(f"backends checked: {accepted}")
if failures:
    for msg in failures:
        print("  -", msg)
    print("FAIL")
    sys.exit(1)
print("PASS")
sys.exit(0)
