"""Property C17: a parameter sweep (grid_search) equals running each parameter set on its own.

The sweep is compared against a hand-written forward-Euler integration of the model equations (independent of
PyRates), for every row of the returned parameter table and every requested output column.

Model: two structurally different node types that share the operator `rate_op`
    e (exc): rate_op                 r' = (-r + tanh(k*(r_in + u))) / tau
    i (inh): rate_op + slow_op       x' = (r - x) / tx
    edges:   e/r -> i/r_in (weight w_ei),  i/r -> e/r_in (weight w_ie)
Sweep: node parameter k (on all nodes, one grid key -> several targets), edge weight w_ie, extrinsic input on e/u,
outputs requested for all nodes that carry rate_op/r (`all/rate_op/r`) and for i/slow_op/x.
"""
import os
import sys

ROOT = os.path.dirname(os.path.dirname(os.path.abspath(__file__)))
sys.path.insert(0, ROOT)

import warnings
warnings.filterwarnings('ignore')

import numpy as np
import pyrates
assert os.path.abspath(pyrates.__file__).startswith(ROOT + os.sep), pyrates.__file__

from pyrates.frontend import CircuitTemplate, NodeTemplate, OperatorTemplate
from pyrates import grid_search

T, dt = 2.0, 1e-2
steps = int(round(T / dt))
tau, tx, w_ei = 1.0, 2.0, 0.8
r0_e = r0_i = 0.1
inp = 0.5 * np.sin(2 * np.pi * np.arange(steps) * dt)


def build():
    rate = OperatorTemplate(name='rate_op', path=None, equations=["r' = (-r + tanh(k*(r_in + u))) / tau"],
                            variables={'r': f'output({r0_e})', 'r_in': 'input(0.0)', 'u': 'input(0.0)', 'k': 1.0,
                                       'tau': tau})
    slow = OperatorTemplate(name='slow_op', path=None, equations=["x' = (r - x)/tx"],
                            variables={'x': 'output(0.0)', 'r': 'input(0.0)', 'tx': tx})
    exc = NodeTemplate(name='exc', path=None, operators=[rate])
    inh = NodeTemplate(name='inh', path=None, operators=[rate, slow])
    return CircuitTemplate(name='net', path=None, nodes={'e': exc, 'i': inh},
                           edges=[('e/rate_op/r', 'i/rate_op/r_in', None, {'weight': w_ei}),
                                  ('i/rate_op/r', 'e/rate_op/r_in', None, {'weight': -1.2})])


def reference(k, w_ie):
    """Forward Euler, samples stored before each step (as PyRates' euler solver does)."""
    re, ri, x = r0_e, r0_i, 0.0
    out = np.zeros((steps, 3))
    for n in range(steps):
        out[n] = (re, ri, x)
        dre = (-re + np.tanh(k * (w_ie * ri + inp[n]))) / tau
        dri = (-ri + np.tanh(k * (w_ei * re))) / tau
        dx = (ri - x) / tx
        re, ri, x = re + dt * dre, ri + dt * dri, x + dt * dx
    return out


def main():
    grid = {'k': [0.5, 2.0], 'w': [-1.5, -0.3, 0.7]}
    param_map = {'k': {'nodes': ['all'], 'vars': ['rate_op/k']},
                 'w': {'edges': [('i/rate_op/r', 'e/rate_op/r_in')], 'vars': ['weight']}}
    results, table = grid_search(build(), grid, param_map, step_size=dt, simulation_time=T,
                                 outputs={'r': 'all/rate_op/r', 'x': 'i/slow_op/x'},
                                 inputs={'e/rate_op/u': inp.copy()}, permute_grid=True, solver='euler',
                                 verbose=False)

    ok = True
    combos = sorted((float(a), float(b)) for a, b in zip(table['k'], table['w']))
    expected = sorted((a, b) for a in grid['k'] for b in grid['w'])
    if combos != expected:
        print('parameter table is not the permuted grid:', combos)
        ok = False

    worst = {}
    for label in table.index:
        ref = reference(float(table.loc[label, 'k']), float(table.loc[label, 'w']))
        for col, j in ((('r', label, 'e', 'rate_op/r'), 0), (('r', label, 'i', 'rate_op/r'), 1),
                       (('x', label, 'i', 'slow_op/x'), 2)):
            if col not in results.columns:
                print('missing result column', col)
                ok = False
                continue
            got = np.asarray(results[col], dtype=float)
            if got.shape != (steps,):
                print('unexpected shape', col, got.shape)
                ok = False
                continue
            err = float(np.max(np.abs(got - ref[:, j])))
            worst[col[2:]] = max(worst.get(col[2:], 0.0), err)
            if err > 1e-4:
                print(f'MISMATCH {col}: max abs deviation from separate run = {err:.3e}')
                ok = False
    print('largest deviation per output:', {'/'.join(k): f'{v:.2e}' for k, v in worst.items()})

    if ok:
        print('PASS')
        return 0
    print('FAIL')
    return 1


if __name__ == '__main__':
    sys.exit(main())
