"""Demo for property C19: DDEHistory is the piecewise-linear interpolant of
the (t_i, y_i) records it was given.

Feeds strictly increasing time stamps whose spacing is small *relative to the
absolute time* (a long fixed-step run: dt = 1e-3 at t ~ 500, and a full
Euler-style loop of 150 000 steps from t = 0) and compares every query against
an independently computed expectation (np.interp per state component on the
caller's own record of what was passed to update()).
"""
import os
import sys

ROOT = os.path.dirname(os.path.dirname(os.path.abspath(__file__)))
sys.path.insert(0, ROOT)

import numpy as np
import pyrates

assert os.path.abspath(pyrates.__file__).startswith(ROOT + os.sep), pyrates.__file__

from pyrates.backend.base.base_backend import DDEHistory

problems = []


def expected(ts, ys, t):
    """Reference: clamp outside, linear interpolation inside, per component."""
    ts = np.asarray(ts, dtype=float)
    ys = np.asarray(ys, dtype=float)
    return np.array([np.interp(t, ts, ys[:, k]) for k in range(ys.shape[1])])


def check(label, hist, ts, ys, queries, exact_at=()):
    for q in queries:
        got = np.asarray(hist(q), dtype=float)
        exp = expected(ts, ys, q)
        if got.shape != exp.shape or not np.allclose(got, exp, rtol=1e-9, atol=1e-9):
            problems.append(f"{label}: hist({q!r}) = {got}, expected {exp}")
    for i in exact_at:
        got = np.asarray(hist(ts[i]))
        if not np.array_equal(got, ys[i]):
            problems.append(f"{label}: hist(t_{i}={ts[i]!r}) = {got}, expected exactly {ys[i]}")


# ---- scenario 1: a handful of records late in a long run ------------------
t0, y0 = 0.0, np.array([1.0, -1.0])
hist = DDEHistory(y0, t0=t0)
ts, ys = [t0], [y0.copy()]
buf = np.empty(2)
for i in range(1, 41):
    t = 500.0 + i * 1e-3                 # strictly increasing
    buf[:] = (float(i), -2.0 * i)        # caller reuses its buffer
    hist.update(t, buf)
    ts.append(t)
    ys.append(buf.copy())
    if i % 10 == 0:                      # queries interleaved with updates
        check("late-records/interleaved", hist, ts, ys,
              [ts[-1], ts[-2], 0.5 * (ts[-1] + ts[-2]), ts[-1] + 1.0],
              exact_at=[len(ts) - 1, len(ts) - 2])
mids = [0.5 * (a + b) for a, b in zip(ts[1:], ts[2:])]
check("late-records/final", hist, ts, ys,
      [-1.0, t0, 250.0] + ts[1:] + mids + [ts[-1] + 5.0],
      exact_at=range(len(ts)))

# ---- scenario 2: Euler-style loop, 150k equidistant steps from t = 0 ------
dt, steps = 1e-3, 150_000
y = np.array([0.0])
hist2 = DDEHistory(y, t0=0.0)
ts2 = np.arange(steps + 1) * dt
ys2 = np.empty((steps + 1, 1))
ys2[0] = y
for i in range(steps):
    y += dt * np.cos((i + 1) * dt)       # in-place, like _solve_euler
    hist2.update((i + 1) * dt, y)
    ys2[i + 1] = y
tau = 0.25
qs = [steps * dt - tau, steps * dt - tau - 0.4 * dt, 120.0 - tau, 101.3337, 50.00025, 0.0105]
check("euler-150k", hist2, ts2, ys2, qs, exact_at=[steps, steps - 250, 110_000, 60_000, 7])

if problems:
    print("FAIL")
    for p in problems[:12]:
        print("  " + p)
    print(f"  ({len(problems)} mismatching checks in total)")
    sys.exit(1)
print("PASS")
sys.exit(0)
