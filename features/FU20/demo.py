"""Property C20 demo: a node-level value for an operator that does not exist must raise.

Checks `CircuitTemplate.apply(node_values=...)` for every way of addressing the nodes (explicit node name, wildcard
`all`, hierarchical wildcards) with the operator name misspelt. The property demands an exception before a circuit IR
(and thus a run function / result) is produced; the expected outcome is therefore known without reference to any
recorded output. As a control, a correctly spelt explicit entry has to be applied (value visible in the backend).

Run: cd /tmp/seed/C20h && /venv/bin/python .scratch/demo.py
"""
import os
import sys
import warnings

ROOT = os.path.dirname(os.path.dirname(os.path.abspath(__file__)))
sys.path.insert(0, ROOT)

import numpy as np
import pyrates
assert os.path.abspath(pyrates.__file__).startswith(ROOT + os.sep), pyrates.__file__

from pyrates.frontend.template.operator import OperatorTemplate
from pyrates.frontend.template.node import NodeTemplate
from pyrates.frontend.template.circuit import CircuitTemplate
from pyrates.ir.node import clear_ir_caches


def build(kind: str) -> CircuitTemplate:
    op_e = OperatorTemplate('op_e', path=None, equations=["d/dt * r = (-r + k*r_in + eta)/tau"],
                            variables={'r': 'output(0.1)', 'r_in': 'input', 'k': 1.0, 'eta': 0.5, 'tau': 2.0})
    op_i = OperatorTemplate('op_i', path=None, equations=["d/dt * v = (-v + g*v_in + mu)/tau_i"],
                            variables={'v': 'output(0.2)', 'v_in': 'input', 'g': 1.0, 'mu': 0.3, 'tau_i': 4.0})
    pe = NodeTemplate('pe', path=None, operators=[op_e])
    pi = NodeTemplate('pi', path=None, operators=[op_i])
    if kind == 'homogeneous':
        return CircuitTemplate('net', nodes={'e1': pe, 'e2': pe},
                               edges=[('e1/op_e/r', 'e2/op_e/r_in', None, {'weight': 0.5}),
                                      ('e2/op_e/r', 'e1/op_e/r_in', None, {'weight': -0.5})])
    flat = CircuitTemplate('net', nodes={'e1': pe, 'e2': pe, 'i1': pi},
                           edges=[('e1/op_e/r', 'i1/op_i/v_in', None, {'weight': 1.0}),
                                  ('i1/op_i/v', 'e1/op_e/r_in', None, {'weight': -1.0}),
                                  ('e1/op_e/r', 'e2/op_e/r_in', None, {'weight': 0.5})])
    if kind == 'heterogeneous':
        return flat
    return CircuitTemplate('top', circuits={'c1': flat, 'c2': flat},
                           edges=[('c1/e1/op_e/r', 'c2/e1/op_e/r_in', None, {'weight': 0.3})])


def reset():
    clear_ir_caches()
    OperatorTemplate.cache.clear()


def outcome(kind: str, node_values: dict, vectorize: bool):
    """Returns ('raised', exc) | ('warned', msgs) | ('silent', net)."""
    reset()
    net = build(kind)
    with warnings.catch_warnings(record=True) as rec:
        warnings.simplefilter('always')
        try:
            net.apply(node_values=node_values, vectorize=vectorize, verbose=False, backend='default', step_size=1e-3)
        except Exception as e:  # any exception counts as "fails loudly"
            return 'raised', e
    msgs = [str(w.message) for w in rec if 'PyRates' in type(w.message).__name__]
    return ('warned', msgs) if msgs else ('silent', net)


failures = []

# (1) misspelt operator names: every one of these must raise
cases = [
    ('homogeneous', 'e1/op_x/eta'),
    ('homogeneous', 'all/op_x/eta'),
    ('homogeneous', 'all/op_ee/eta'),
    ('heterogeneous', 'e1/op_x/eta'),
    ('heterogeneous', 'i1/op_e/eta'),       # operator exists in the circuit, but not on this node
    ('heterogeneous', 'all/op_x/eta'),
    ('heterogeneous', 'all/op/eta'),
    ('hierarchical', 'c1/e1/op_x/eta'),
    ('hierarchical', 'c1/all/op_x/eta'),
    ('hierarchical', 'all/e1/op_x/eta'),
    ('hierarchical', 'all/all/op_x/eta'),
]
for vectorize in (True, False):
    for kind, key in cases:
        res, info = outcome(kind, {key: 2.0}, vectorize)
        ok = res == 'raised'
        print(f"{'ok  ' if ok else 'BAD '} {kind:13s} vectorize={vectorize!s:5s} node_values={{'{key}': 2.0}} -> {res}"
              + (f" ({type(info).__name__})" if res == 'raised' else ''))
        if not ok:
            failures.append((kind, key, vectorize, res))
            if res == 'silent':
                # show that the request was dropped: the circuit was built and every eta still has its default
                etas = [np.asarray(info.get_var(f"{n}/op_e/eta")[0].value).ravel().tolist()
                        for n in info.get_nodes(['all'] * (2 if kind == 'hierarchical' else 1),
                                                var_identifier=('op_e', 'eta'))[:1]]
                print(f"       circuit was built without any report; eta on the backend: {etas}")

# (2) control: a correctly spelt, explicitly addressed value is applied
res, info = outcome('heterogeneous', {'e1/op_e/eta': 2.0}, False)
if res != 'silent':
    failures.append(('control', 'e1/op_e/eta', False, res))
else:
    v = float(np.asarray(info.get_var('e1/op_e/eta')[0].value).ravel()[0])
    v2 = float(np.asarray(info.get_var('e2/op_e/eta')[0].value).ravel()[0])
    print(f"ok   control: e1 eta={v}, e2 eta={v2}")
    if not (v == 2.0 and v2 == 0.5):
        failures.append(('control-values', v, v2))

if failures:
    print(f"FAIL: {len(failures)} request(s) for a non-existent operator were accepted without an exception")
    sys.exit(1)
print("PASS")
sys.exit(0)
