"""Property C10 demo: delayed terms read the true past of the trajectory.

Model (two state variables, the delayed variable v is NOT the first one, two
delay parameters tau1 / tau2 that have the same default value):

    u' = -u + a*v(t - tau1)
    v' = -v + b*u(t - tau2) + c*v(t - tau2)

The compiled vector field is evaluated with a user supplied history function
and with tau2 overridden in the argument tuple returned by `get_run_func`
(the documented way of re-using a compiled function for other parameter
values).  Every delayed term must be component x of hist(t - tau) for *its own*
tau.  Finally the DDE is integrated with the overridden tau2 and compared to an
independent fixed-step reference solution with constant pre-history.
"""
import os
import sys
import warnings

ROOT = os.path.dirname(os.path.dirname(os.path.abspath(__file__)))
sys.path.insert(0, ROOT)
os.chdir(ROOT)
warnings.filterwarnings('ignore')

import numpy as np
import pyrates
assert os.path.abspath(pyrates.__file__).startswith(ROOT + os.sep), pyrates.__file__

from pyrates import OperatorTemplate, NodeTemplate, CircuitTemplate
from pyrates.backend.base.base_backend import BaseBackend, DDEHistory

A, B, C = 0.3, 0.7, -0.2
U0, V0 = 0.5, 2.0
BUILD = os.path.join('.scratch', 'build')
os.makedirs(BUILD, exist_ok=True)
failures = []


def check(name, got, want, tol):
    got, want = np.asarray(got, dtype=float), np.asarray(want, dtype=float)
    err = float(np.max(np.abs(got - want)))
    ok = err <= tol
    print(f"  [{'ok' if ok else 'WRONG'}] {name}: max abs error {err:.3e} (tol {tol:.0e})")
    if not ok:
        failures.append(name)


def compile_model(tau1, tau2, solver, dt, tag):
    op = OperatorTemplate(name=f'op_{tag}',
                          equations=["u' = -u + a*past(v, tau1)",
                                     "v' = -v + b*past(u, tau2) + c*past(v, tau2)"],
                          variables={'u': f'output({U0})', 'v': f'variable({V0})', 'a': A, 'b': B, 'c': C,
                                     'tau1': tau1, 'tau2': tau2})
    net = CircuitTemplate(name=f'net_{tag}', nodes={'p': NodeTemplate(name=f'n_{tag}', operators=[op])})
    func, args, keys, _ = net.get_run_func(f'rhs_{tag}', step_size=dt, file_name=os.path.join(BUILD, f'rhs_{tag}'),
                                           backend='default', solver=solver, vectorize=False, clear=False,
                                           in_place=False, verbose=False, float_precision='float64')
    return func, list(args), list(keys)


def with_params(args, keys, **params):
    args = list(args)
    for key, val in params.items():
        args[[k.split('/')[-1] for k in keys].index(key)] = np.asarray(val, dtype=float)
    return args


def my_hist(t):
    # arbitrary smooth history, different for the two components
    return np.asarray([np.sin(0.7 * t) + 0.1 * t, np.cos(1.3 * t) - 0.05 * t * t])


def expected_rhs(t, y, tau1, tau2):
    h1, h2 = my_hist(t - tau1), my_hist(t - tau2)
    return np.asarray([-y[0] + A * h1[1], -y[1] + B * h2[0] + C * h2[1]])


def reference_solution(tau1, tau2, T, dt):
    """Heun scheme on a fine grid; delayed values are read from the stored grid (constant pre-history)."""
    n = int(round(T / dt))
    k1, k2 = int(round(tau1 / dt)), int(round(tau2 / dt))
    ys = np.empty((n + 1, 2))
    ys[0] = (U0, V0)

    def past(i, k):
        return ys[max(i - k, 0)]

    def f(y, i):
        p1, p2 = past(i, k1), past(i, k2)
        return np.asarray([-y[0] + A * p1[1], -y[1] + B * p2[0] + C * p2[1]])

    for i in range(n):
        f0 = f(ys[i], i)
        ys[i + 1] = ys[i] + dt * f0          # predictor (needed when a lag of one step reads index i+1)
        ys[i + 1] = ys[i] + 0.5 * dt * (f0 + f(ys[i + 1], i + 1))
    return ys


# 1) adaptive-step function: t is given in time units
print("adaptive-step vector field, tau1 = tau2 = 1.0 at compile time, tau2 := 2.5 at call time")
func, args, keys = compile_model(1.0, 1.0, 'scipy', 1e-3, 'ad')
y = np.asarray([0.4, -1.1])
for t_eval in (0.3, 4.2):
    call = with_params(args, keys, tau2=2.5)
    call[keys.index('hist')] = my_hist
    dy = np.array(func(t_eval, y, *call[2:]), dtype=float)
    check(f"rhs(t={t_eval})", dy, expected_rhs(t_eval, y, 1.0, 2.5), 1e-9)

print("adaptive-step vector field, unchanged arguments")
call = list(args)
call[keys.index('hist')] = my_hist
dy = np.array(func(1.7, y, *call[2:]), dtype=float)
check("rhs(t=1.7)", dy, expected_rhs(1.7, y, 1.0, 1.0), 1e-9)

# 2) fixed-step function: t is given in integration steps, history is queried in time units
print("fixed-step vector field (dt = 0.01), tau1 = tau2 = 0.5 at compile time, tau1 := 0.2 at call time")
dt_fix = 1e-2
func_f, args_f, keys_f = compile_model(0.5, 0.5, 'euler', dt_fix, 'fx')
call = with_params(args_f, keys_f, tau1=0.2)
call[keys_f.index('hist')] = my_hist
dy = np.array(func_f(330, y, *call[2:]), dtype=float)
check("rhs(step=330)", dy, expected_rhs(330 * dt_fix, y, 0.2, 0.5), 1e-9)

# 3) trajectory: DDE with constant pre-history, tau2 overridden, vs. independent reference
print("trajectory, adaptive solver, tau1 = 1.0, tau2 := 2.0 (compiled with tau2 = 1.0)")
T, dts = 6.0, 0.05
times = np.linspace(0.0, T, int(round(T / dts)), endpoint=False)
y0 = np.asarray([U0, V0], dtype=float)
call = with_params(args, keys, tau2=2.0)
call[keys.index('hist')] = DDEHistory(y0.copy())
call[keys.index('dy')] = np.zeros(2)
res = BaseBackend._solve_scipy_dde(func, tuple(call[2:]), T, 1e-3, y0.copy(), 0.0, times)
dt_ref = 1e-3
ref = reference_solution(1.0, 2.0, T, dt_ref)[np.round(times / dt_ref).astype(int)]
# the solver records the state *after* integrating to times[i]
check("y(t) on [0, 6)", res, ref, 1e-3)

if failures:
    print("FAIL", failures)
    sys.exit(1)
print("PASS")
sys.exit(0)
