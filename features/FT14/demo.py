"""Property C14: copy-making operations leave the template they are called on unchanged.

`CircuitTemplate.update_template(...)` without `in_place` must return a NEW template and leave the template it was
called on (and every template that shares node/operator objects with it) exactly as it was: same per-node overrides,
same vector field, same simulation results from `run(in_place=False)`.

The model is a pair of uncoupled/coupled linear units  dx/dt = -k*x + drive + x_in  that are integrated with the
forward Euler method, so the expected time series can be computed independently with a few lines of numpy.
"""
import os
import sys

ROOT = os.path.dirname(os.path.dirname(os.path.abspath(__file__)))
sys.path.insert(0, ROOT)

import warnings
warnings.filterwarnings("ignore")

import numpy as np
import pyrates
assert os.path.abspath(pyrates.__file__).startswith(ROOT + os.sep), pyrates.__file__

from pyrates.frontend import CircuitTemplate, NodeTemplate, OperatorTemplate

DT = 1e-3
T = 0.2
W = 0.7  # weight of the edge p1 -> p2


def build():
    op = OperatorTemplate(name='lin_op', path=None,
                          equations=["d/dt * x = -k*x + drive + x_in"],
                          variables={'x': 'output(1.0)', 'k': 1.0, 'drive': 0.0, 'x_in': 'input(0.0)'})
    # p1 carries a per-node override (k = 2), p2 uses the operator defaults; both share the operator object
    n1 = NodeTemplate(name='n1', path=None, operators={op: {'k': 2.0}})
    n2 = NodeTemplate(name='n2', path=None, operators=[op])
    edges = [('p1/lin_op/x', 'p2/lin_op/x_in', None, {'weight': W})]
    circuit = CircuitTemplate(name='net', nodes={'p1': n1, 'p2': n2}, edges=edges)
    # a second circuit that re-uses the very same node template objects
    sibling = CircuitTemplate(name='sibling', nodes={'a': n1, 'b': n2},
                              edges=[('a/lin_op/x', 'b/lin_op/x_in', None, {'weight': W})])
    return circuit, sibling


def expected(times, k1=2.0, drive1=0.0, k2=1.0, drive2=0.0):
    """Forward Euler solution of the two-unit system, computed independently of PyRates."""
    n_steps = int(round(times[-1] / DT)) + 1
    x1 = np.zeros(n_steps + 1)
    x2 = np.zeros(n_steps + 1)
    x1[0] = x2[0] = 1.0
    for n in range(n_steps):
        x1[n + 1] = x1[n] + DT * (-k1 * x1[n] + drive1)
        x2[n + 1] = x2[n] + DT * (-k2 * x2[n] + drive2 + W * x1[n])
    idx = np.rint(np.asarray(times) / DT).astype(int)
    return x1[idx], x2[idx]


def simulate(circuit, n1, n2):
    res = circuit.run(simulation_time=T, step_size=DT, solver='euler', in_place=False, verbose=False,
                      float_precision='float64',
                      outputs={'x1': f'{n1}/lin_op/x', 'x2': f'{n2}/lin_op/x'})
    return res.index.values, res['x1'].values, res['x2'].values


def overrides_of(circuit):
    return {key: {op.name: dict(v or {}) for op, v in node.operators.items()} for key, node in circuit.nodes.items()}


def check(label, circuit, n1, n2, problems):
    t, x1, x2 = simulate(circuit, n1, n2)
    e1, e2 = expected(t)
    err = max(np.max(np.abs(x1 - e1)), np.max(np.abs(x2 - e2)))
    print(f"  {label}: max |simulated - expected| = {err:.3e}")
    if not err < 1e-9:
        problems.append(f"{label}: run(in_place=False) deviates from the expected Euler solution by {err:.3e}")


def main():
    problems = []
    circuit, sibling = build()
    declared = {'p1': {'lin_op': {'k': 2.0}}, 'p2': {'lin_op': {}}}
    declared_sib = {'a': {'lin_op': {'k': 2.0}}, 'b': {'lin_op': {}}}

    print("before any copy-making operation")
    check("circuit", circuit, 'p1', 'p2', problems)
    check("sibling", sibling, 'a', 'b', problems)

    # copy-making operations (no in_place): each must leave `circuit` as it was
    try:
        derived = circuit.update_template(name='derived', nodes={'p1': {'lin_op/drive': 0.5}})
        print("called update_template(nodes={'p1': {'lin_op/drive': 0.5}})")
    except Exception as e:  # the dict form is not required for the property; the original must be intact either way
        print(f"update_template(nodes={{'p1': {{...}}}}) raised {type(e).__name__}: {e}")
    circuit.update_template(name='renamed')
    circuit.get_nodes(['all'])
    circuit.get_edges('all', 'all')

    print("after the copy-making operations")
    if overrides_of(circuit) != declared:
        problems.append(f"per-node overrides of `circuit` changed: {overrides_of(circuit)} != {declared}")
    if overrides_of(sibling) != declared_sib:
        problems.append(f"per-node overrides of `sibling` changed: {overrides_of(sibling)} != {declared_sib}")
    check("circuit", circuit, 'p1', 'p2', problems)
    check("sibling", sibling, 'a', 'b', problems)
    check("circuit (2nd run)", circuit, 'p1', 'p2', problems)

    if problems:
        for p in problems:
            print("  -", p)
        print("FAIL")
        return 1
    print("PASS")
    return 0


if __name__ == '__main__':
    sys.exit(main())
