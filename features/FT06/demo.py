"""Demonstration for property C06 (a variable path addresses the same variable everywhere).

A path given to `CircuitTemplate.update_var` must change exactly the variable on exactly the node(s) it names, and
the columns returned by `run` must carry the trajectory of the node named in their label.

Model: dr/dt = (eta - r) / tau on every node, r(0) = 0, no edges. With forward Euler and step dt the solution is
known in closed form:  r_k = eta * (1 - (1 - dt/tau)**k).  Every node gets its own (eta, tau) through `update_var`,
so a value that lands on the wrong node shows up as a wrong column.

Run as:  cd /tmp/seed/C06g && /venv/bin/python .scratch/demo.py
"""
import os
import sys

ROOT = os.path.dirname(os.path.dirname(os.path.abspath(__file__)))
sys.path.insert(0, ROOT)

import warnings
warnings.filterwarnings("ignore")

import numpy as np
import pyrates
assert os.path.abspath(pyrates.__file__).startswith(ROOT + os.sep), pyrates.__file__

from pyrates import CircuitTemplate, NodeTemplate, OperatorTemplate, clear

DT = 1e-2
T = 2.0


def make_node():
    op = OperatorTemplate(name='op', path=None, equations=["r' = (eta - r) / tau"],
                          variables={'r': 'output(0.0)', 'eta': 1.0, 'tau': 1.0})
    return NodeTemplate(name='pop', path=None, operators=[op])


def expected(eta, tau, times):
    k = np.round(np.asarray(times) / DT)
    return eta * (1.0 - (1.0 - DT / tau) ** k)


def column(res, key, node):
    """Trajectory of the column labelled with output key `key` and node path `node`."""
    hits = [c for c in res.columns if isinstance(c, tuple) and c[0] == key and "/".join(c[1:-1]) == node]
    assert len(hits) == 1, (key, node, list(res.columns))
    return res[hits[0]].values


def check(name, net, node_params, out_path, **run_kwargs):
    """node_params: {node path: (eta, tau)} -- what update_var was asked to produce."""
    res = net.run(simulation_time=T, step_size=DT, solver='euler', outputs={'r': out_path}, verbose=False,
                  clear=True, in_place=False, **run_kwargs)
    clear(net)
    ok = True
    for node, (eta, tau) in node_params.items():
        got = column(res, 'r', node)
        want = expected(eta, tau, res.index.values)
        err = np.max(np.abs(got - want))
        if not err < 1e-6:
            ok = False
            print(f"  [{name}] column for node {node}: max |got - expected(eta={eta}, tau={tau})| = {err:.3e}")
    print(f"{name}: {'ok' if ok else 'MISMATCH'}")
    return ok


def flat_net():
    node = make_node()   # one NodeTemplate instance shared by all nodes (the usual way to build such a network)
    return CircuitTemplate(name='net', nodes={'p1': node, 'p2': node, 'p3': node})


results = []

# (1) one key per call: wildcard scalar, then single node (several calls)
net = flat_net()
net.update_var(node_vars={'all/op/tau': 2.0})
net.update_var(node_vars={'p2/op/eta': 3.0})
results.append(check("separate calls", net, {'p1': (1.0, 2.0), 'p2': (3.0, 2.0), 'p3': (1.0, 2.0)}, 'all/op/r'))

# (2) single node first, wildcard second, in one call
net = flat_net()
net.update_var(node_vars={'p2/op/eta': 3.0, 'all/op/tau': 2.0})
results.append(check("node key, then wildcard key", net, {'p1': (1.0, 2.0), 'p2': (3.0, 2.0), 'p3': (1.0, 2.0)},
                     'all/op/r'))

# (3) wildcard first, single node second, in one call
net = flat_net()
net.update_var(node_vars={'all/op/tau': 2.0, 'p2/op/eta': 3.0})
results.append(check("wildcard key, then node key", net, {'p1': (1.0, 2.0), 'p2': (3.0, 2.0), 'p3': (1.0, 2.0)},
                     'all/op/r'))
results.append(check("wildcard key, then node key (vectorize=False)", net,
                     {'p1': (1.0, 2.0), 'p2': (3.0, 2.0), 'p3': (1.0, 2.0)}, 'all/op/r', vectorize=False))

# (4) wildcard scalar first, wildcard with one value per node second, in one call
net = flat_net()
net.update_var(node_vars={'all/op/tau': 0.5, 'all/op/eta': np.asarray([1.0, 2.0, 3.0])})
results.append(check("wildcard scalar, then per-node array", net,
                     {'p1': (1.0, 0.5), 'p2': (2.0, 0.5), 'p3': (3.0, 0.5)}, 'all/op/r'))

# (5) two hierarchy levels, sub-circuits built from the same node template
node = make_node()
sub = CircuitTemplate(name='sub', nodes={'a': node, 'b': node})
net = CircuitTemplate(name='top', circuits={'c1': sub, 'c2': sub})
net.update_var(node_vars={'all/all/op/tau': 4.0, 'c2/a/op/eta': -2.0})
results.append(check("hierarchy: wildcard, then one leaf", net,
                     {'c1/a': (1.0, 4.0), 'c1/b': (1.0, 4.0), 'c2/a': (-2.0, 4.0), 'c2/b': (1.0, 4.0)},
                     'all/all/op/r'))

if all(results):
    print("PASS")
    sys.exit(0)
print("FAIL")
sys.exit(1)
