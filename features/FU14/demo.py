"""Property C14 demo: read-only look-ups leave a (hierarchical) template unchanged.

A two-level circuit is built (one sub-circuit template used twice, per-node overrides, parallel edges, inter-circuit
edges added with `add_edges_from_matrix`). Its vector field and an Euler simulation are compared with an independent
numpy implementation of the same equations, before and after a sequence of read-only calls
(get_nodes, get_edges, collect_edges, get_node_template, __getitem__, get_edge, deepcopy, update_template()).
"""
import os
import sys
import warnings

ROOT = os.path.dirname(os.path.dirname(os.path.abspath(__file__)))
sys.path.insert(0, ROOT)
warnings.filterwarnings('ignore')

import numpy as np
from copy import deepcopy

import pyrates
assert os.path.abspath(pyrates.__file__).startswith(ROOT + os.sep), pyrates.__file__
from pyrates import CircuitTemplate, NodeTemplate, OperatorTemplate

# generated files go to a scratch directory
workdir = os.path.join(ROOT, '.scratch', 'demo_tmp')
os.makedirs(workdir, exist_ok=True)
os.chdir(workdir)

# model definition
##################

k, ext = 1.5, 0.3
op = OperatorTemplate('op', path=None, equations=["r' = (-r + k*tanh(r_in) + ext)/tau"],
                      variables={'r': 'output(0.1)', 'k': k, 'tau': 2.0, 'ext': ext, 'r_in': 'input(0.0)'})
n1 = NodeTemplate('n1', path=None, operators=[op])
n2 = NodeTemplate('n2', path=None, operators={op: {'tau': 3.0, 'r': 0.4}})   # per-node overrides on a shared operator
sub = CircuitTemplate('sub', nodes={'a': n1, 'b': n2},
                      edges=[('a/op/r', 'b/op/r_in', None, {'weight': 0.5}),
                             ('a/op/r', 'b/op/r_in', None, {'weight': 0.25}),       # parallel edge
                             ('b/op/r', 'a/op/r_in', None, {'weight': -1.0})])
net = CircuitTemplate('net', circuits={'c1': sub, 'c2': sub},                       # the same sub-circuit twice
                      edges=[('c1/a/op/r', 'c2/a/op/r_in', None, {'weight': 0.3})])
# model construction continues: couple the 'b' nodes of the two sub-circuits
net.add_edges_from_matrix('op/r', 'op/r_in', source_nodes=['c1/b', 'c2/b'], weight=np.array([[0.0, 0.2], [0.6, 0.0]]))

# independent reference implementation
######################################

nodes = ['c1/a', 'c1/b', 'c2/a', 'c2/b']
tau = np.array([2.0, 3.0, 2.0, 3.0])
r0 = np.array([0.1, 0.4, 0.1, 0.4])
W = np.zeros((4, 4))        # W[target, source]
W[1, 0] = W[3, 2] = 0.5 + 0.25
W[0, 1] = W[2, 3] = -1.0
W[2, 0] = 0.3
W[1, 3] = 0.2               # weight[j, i]: source i -> target j
W[3, 1] = 0.6


def rhs(r):
    return (-r + k * np.tanh(W @ r) + ext) / tau


dt, T = 1e-2, 3.0
steps = int(round(T / dt))
expected = np.zeros((steps, 4))
r = r0.copy()
for i in range(steps):
    expected[i] = r
    r = r + dt * rhs(r)


def simulate(template):
    res = template.run(T, dt, outputs={'r': 'all/all/op/r'}, solver='euler', in_place=False, verbose=False)
    return np.stack([res[('r', *n.split('/'), 'op/r')].values for n in nodes], axis=1)


def check(label, template):
    ok = True
    sim = simulate(template)
    n = min(len(sim), len(expected))
    err = np.max(np.abs(sim[:n] - expected[:n]))
    print(f'{label}: max |run - reference| = {err:.3e}')
    ok &= bool(err < 1e-5)
    return ok


ok = check('before the read-only calls', net)

# read-only operations
######################

net.get_nodes(['all', 'all'])
net.get_nodes('c1/all', var_identifier=('op', 'tau'))
net.get_edges('all', 'all')
net.get_edges('all/a/op/r', 'all/b/op/r_in')
net.collect_edges()
net.get_node_template('c2/b')
net.circuits['c1']['a']
net.get_edge('c1/a/op/r', 'c2/a/op/r_in')                   # edge defined at construction
net.get_edge('c1/a/op/r', 'c2/a/op/r_in', 0)
for source, target, idx in [('c1/b/op/r', 'c2/b/op/r_in', 0),    # edge added after construction
                            ('c1/a/op/r', 'c1/b/op/r_in', 1)]:   # edge of a sub-circuit, full path
    try:
        net.get_edge(source, target, idx)
    except KeyError:
        pass                                                # not indexed: a failed look-up must not change anything either
deepcopy(net)
net.update_template()

ok &= check('after the read-only calls ', net)
n_edges = len(net.collect_edges())
print(f'number of edges in the circuit: {n_edges} (expected 9)')
ok &= n_edges == 9
n_sub = len(sub.edges)
print(f'number of edges of the sub-circuit template: {n_sub} (expected 3)')
ok &= n_sub == 3

print('PASS' if ok else 'FAIL')
sys.exit(0 if ok else 1)
