"""Property C20 demo: a parameter update addressed to a variable that does not exist is at least reported by a
warning and never silently dropped - for every misspelt path component, wherever the key stands in `node_vars`.

Run as:  cd /tmp/seed/C20g && /venv/bin/python .scratch/demo.py
"""
import os
import sys
import warnings

ROOT = os.path.dirname(os.path.dirname(os.path.abspath(__file__)))
sys.path.insert(0, ROOT)

import numpy as np
import pyrates
from pyrates import CircuitTemplate, NodeTemplate, OperatorTemplate, clear_frontend_caches

assert os.path.abspath(pyrates.__file__).startswith(ROOT + os.sep), pyrates.__file__


def make_circuit():
    op = OperatorTemplate(name='lin_op', path=None, equations=["d/dt * x = c - k*x"],
                          variables={'x': 'output(0.5)', 'k': 1.0, 'c': 0.0})
    node = NodeTemplate(name='lin_node', path=None, operators=[op])
    return CircuitTemplate(name='net', path=None, nodes={'p1': node, 'p2': node}, edges=[])


def reported(node_vars: dict, bad_key: str) -> bool:
    """True if the update call raised, or warned about the bad key (i.e. the request was not silently dropped)."""
    net = make_circuit()
    with warnings.catch_warnings(record=True) as w:
        warnings.simplefilter('always')
        try:
            net.update_var(node_vars=node_vars)
        except Exception:
            return True
    *node, op, var = bad_key.split('/')
    parts = {'/'.join(node), op, var}
    for rec in w:
        msg = str(rec.message)
        if 'not' in msg and any(p in msg for p in parts):
            return True
    return False


good = {'p1/lin_op/k': 2.0}
bad_keys = {
    'variable misspelt': 'p1/lin_op/kk',
    'operator misspelt': 'p1/lin_opp/k',
    'node misspelt': 'p3/lin_op/k',
    'variable removed from the operator': 'p1/lin_op/tau',
}

failures = []
for what, bad in bad_keys.items():
    cases = {
        'alone': {bad: 3.0},
        'before a valid key': {bad: 3.0, **good},
        'after a valid key': {**good, bad: 3.0},
        'after an all-nodes key': {'all/lin_op/c': 0.25, bad: 3.0},
        'between valid keys': {'p2/lin_op/c': 0.5, bad: 3.0, **good},
    }
    for where, node_vars in cases.items():
        if not reported(node_vars, bad):
            failures.append(f"{what} ({bad}), {where}: update silently dropped")

# the valid updates of a mixed call must still take effect: compare with a hand-written forward Euler solution
net = make_circuit()
with warnings.catch_warnings():
    warnings.simplefilter('ignore')
    net.update_var(node_vars={'p1/lin_op/k': 2.0, 'p1/lin_op/kk': 3.0, 'all/lin_op/c': 0.25, 'p2/lin_op/k': 0.5})
    T, dt = 1.0, 1e-2
    res = net.run(simulation_time=T, step_size=dt, outputs={'x1': 'p1/lin_op/x', 'x2': 'p2/lin_op/x'},
                  solver='euler', verbose=False, clear=True)
clear_frontend_caches()
steps = int(round(T / dt))
for col, k in (('x1', 2.0), ('x2', 0.5)):
    x, expected = 0.5, []
    for _ in range(steps):
        expected.append(x)
        x = x + dt * (0.25 - k * x)
    got = np.asarray(res[col]).squeeze()
    if got.shape != (steps,) or not np.allclose(got, expected, rtol=1e-6, atol=1e-9):
        failures.append(f"valid updates not applied correctly for {col}")

if failures:
    print("FAIL")
    for f in failures:
        print("  -", f)
    sys.exit(1)
print("PASS")
sys.exit(0)
