"""Demo for property C04 (vectorization does not change the model).

Three structurally identical nodes  a_i' = c_i - k_i * a_i + u_i  (per-node c_i, k_i).
Node n0 projects to n1 and to n2 with the SAME mean delay but DIFFERENT delay spreads, i.e. the two
projections are two different gamma kernels of the same source signal:

    n0 -> n1 : weight 2.0, delay 1.0, spread 0.5   -> gamma kernel of order (1.0/0.5)^2  = 4,  rate 4
    n0 -> n2 : weight 0.5, delay 1.0, spread 0.25  -> gamma kernel of order (1.0/0.25)^2 = 16, rate 16
    n2 -> n0 : weight -0.5, delay 0.5, spread 0.25 -> gamma kernel of order 4, rate 8  (closes the loop)

The expected trajectory is computed independently with a hand-written forward-Euler integration of the linear
chain-trick system in numpy. The circuit is then compiled and simulated by PyRates (same Euler step) with
vectorize=True and with vectorize=False; both have to reproduce the reference for every node.
"""
import os
import sys

ROOT = os.path.dirname(os.path.dirname(os.path.abspath(__file__)))
sys.path.insert(0, ROOT)

import warnings
import numpy as np

warnings.filterwarnings("ignore")

import pyrates
assert os.path.abspath(pyrates.__file__).startswith(ROOT + os.sep), pyrates.__file__
from pyrates import CircuitTemplate, NodeTemplate, OperatorTemplate

T, DT = 4.0, 1e-2
C = [0.3, -0.2, 0.1]
K = [1.0, 0.5, 2.0]
# (source, target, weight, mean delay, spread)
EDGES = [(0, 1, 2.0, 1.0, 0.5),
         (0, 2, 0.5, 1.0, 0.25),
         (2, 0, -0.5, 0.5, 0.25)]


def reference():
    """Forward Euler of the nodes plus one gamma-kernel ODE chain per edge (linear chain trick)."""
    steps = int(np.round(T / DT))
    a = np.zeros(3)
    chains = []
    for s, t, w, m, v in EDGES:
        order = int(np.round((m / v) ** 2))
        chains.append(dict(s=s, t=t, w=w, rate=order / m, z=np.zeros(order)))
    out = np.zeros((steps, 3))
    for i in range(steps):
        out[i] = a
        u = np.zeros(3)
        for ch in chains:
            u[ch['t']] += ch['w'] * ch['z'][-1]
        da = np.asarray(C) - np.asarray(K) * a + u
        dz = []
        for ch in chains:
            prev = np.concatenate(([a[ch['s']]], ch['z'][:-1]))
            dz.append(ch['rate'] * (prev - ch['z']))
        a = a + DT * da
        for ch, d in zip(chains, dz):
            ch['z'] = ch['z'] + DT * d
    return out


def simulate(vectorize):
    op = OperatorTemplate(name='op', path=None, equations=["d/dt * a = c - k*a + u"],
                          variables={'a': 'output(0.0)', 'u': 'input', 'c': 0.0, 'k': 1.0})
    node = NodeTemplate(name='node', path=None, operators=[op])
    edges = [(f'n{s}/op/a', f'n{t}/op/u', None, {'weight': w, 'delay': m, 'spread': v}) for s, t, w, m, v in EDGES]
    net = CircuitTemplate(name='net', nodes={f'n{i}': node for i in range(3)}, edges=edges)
    # per-node parameter values
    net.update_var(node_vars={f'n{i}/op/c': C[i] for i in range(3)})
    net.update_var(node_vars={f'n{i}/op/k': K[i] for i in range(3)})
    res = net.run(simulation_time=T, step_size=DT, outputs={f'a{i}': f'n{i}/op/a' for i in range(3)},
                  vectorize=vectorize, solver='euler', backend='default', clear=True, verbose=False,
                  float_precision='float64')
    return np.asarray(res[[f'a{i}' for i in range(3)]].values, dtype=float)


def main():
    ref = reference()
    ok = True
    results = {}
    for vec in (False, True):
        r = simulate(vec)
        results[vec] = r
        n = min(len(r), len(ref))
        err = np.abs(r[:n] - ref[:n]).max(axis=0)
        print(f"vectorize={vec}: max |pyrates - reference| per node = {err}")
        if len(r) != len(ref) or not np.all(err < 1e-8):
            ok = False
    d = np.abs(results[True] - results[False]).max()
    print(f"max |vectorize=True - vectorize=False| = {d}")
    if d > 1e-8:
        ok = False
    print("PASS" if ok else "FAIL")
    return 0 if ok else 1


if __name__ == '__main__':
    sys.exit(main())
