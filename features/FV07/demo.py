"""Demo for property C07: per-node array overrides given to update_var reach exactly the addressed nodes
(= the nodes that own the variable), one entry per node in path order, also in heterogeneous circuits."""
import os, sys, warnings
ROOT = os.path.dirname(os.path.dirname(os.path.abspath(__file__)))
sys.path.insert(0, ROOT)
import numpy as np
import pyrates
assert os.path.abspath(pyrates.__file__).startswith(ROOT + os.sep), pyrates.__file__
from pyrates import CircuitTemplate, NodeTemplate, OperatorTemplate, clear

warnings.filterwarnings("ignore")

# two kinds of nodes: leaky units with a drive `eta`, and an oscillator-like unit without `eta`
leak = OperatorTemplate(name='leak_op', path=None, equations=["r' = -r/tau + eta"],
                        variables={'r': 'output(0.0)', 'tau': 2.0, 'eta': 0.5})
other = OperatorTemplate(name='decay_op', path=None, equations=["x' = -k*x"],
                         variables={'x': 'output(1.0)', 'k': 3.0})
leak_node = NodeTemplate(name='leak_node', path=None, operators=[leak])      # ONE template object shared by 3 nodes
other_node = NodeTemplate(name='decay_node', path=None, operators=[other])
nodes = {'a': leak_node, 'b': other_node, 'c': leak_node, 'd': leak_node}
circuit = CircuitTemplate(name='net', path=None, nodes=nodes, edges=[])

etas = np.asarray([-1.0, 2.0, 7.0])        # one entry per node that owns leak_op/eta: a, c, d (path order)
r0 = np.asarray([0.1, 0.2, 0.3])
circuit.update_var(node_vars={'all/leak_op/eta': etas, 'all/leak_op/r': r0})

errors = []
expected = {'a': (-1.0, 0.1), 'c': (2.0, 0.2), 'd': (7.0, 0.3)}
for n, (eta_exp, r_exp) in expected.items():
    temp = circuit.get_node_template(n)
    variations = temp.operators[temp.get_op('leak_op')]
    for vname, exp in (('eta', eta_exp), ('r', r_exp)):
        got = variations.get(vname)
        if np.shape(got) not in [(), (1,)] or float(np.squeeze(got)) != exp:
            errors.append(f"template of node {n}: {vname} = {got!r}, expected {exp}")
b_temp = circuit.get_node_template('b')
if b_temp.operators[b_temp.get_op('decay_op')]:
    errors.append(f"node b received overrides: {b_temp.operators[b_temp.get_op('decay_op')]}")

# the compiled function must show the same values (arguments and initial state)
if not errors:
    try:
        func, args, arg_names, state_map = circuit.get_run_func('demo_c07_run', step_size=1e-3, backend='default',
                                                                solver='euler', vectorize=True, verbose=False,
                                                                clear=False, file_name='demo_c07_run',
                                                                func_dir=os.path.join(ROOT, '.scratch', 'gen'))
        named = dict(zip(arg_names, args))
        eta_args = [np.asarray(v, dtype=float).flatten() for k, v in named.items() if k.endswith('leak_op/eta')]
        if len(eta_args) != 1 or not np.allclose(eta_args[0], etas, rtol=1e-6, atol=0):
            errors.append(f"compiled eta argument(s) {[a.tolist() for a in eta_args]} != {etas.tolist()}")
        y0 = np.asarray(named['y'], dtype=float).flatten()
        expected_y0 = sorted(r0.tolist() + [1.0])        # r of a, c, d and the untouched x of b
        if y0.size != 4 or not np.allclose(sorted(y0.tolist()), expected_y0, rtol=1e-6, atol=0):
            errors.append(f"initial state {y0.tolist()} != (some order of) {expected_y0}")
    except Exception as e:  # compiled function could not even be built from the overridden values
        errors.append(f"compilation failed: {type(e).__name__}: {e}")
    finally:
        try:
            clear(circuit)
        except Exception:
            pass

if errors:
    print("FAIL")
    for e in errors:
        print("  ", e)
    sys.exit(1)
print("PASS")
sys.exit(0)
