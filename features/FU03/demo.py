"""Demo for property C03: run() returns the numerical solution of the compiled system, started at the DECLARED
initial state.

A template is simulated several times in a row via `CircuitTemplate.run(..., in_place=False)` (the documented way to
call `run` repeatedly on one template instance).  Every call must return the Euler / Heun iterates (resp. the
scipy solution) of the vector field started at the initial values declared in the template: first row = initial
state, row k = state at k*sampling_step_size, round(T/dts) rows before the cutoff, rows with time < cutoff dropped.

The expected trajectories are computed independently in plain numpy / scipy below.
"""
import os
import sys

ROOT = os.path.dirname(os.path.dirname(os.path.abspath(__file__)))
sys.path.insert(0, ROOT)
os.chdir(os.path.join(ROOT, '.scratch'))

import numpy as np
from scipy.integrate import solve_ivp

import pyrates
assert os.path.abspath(pyrates.__file__).startswith(ROOT + os.sep), pyrates.__file__
from pyrates import OperatorTemplate, NodeTemplate, CircuitTemplate

# model: two identical 2-d linear nodes, p is driven by an extrinsic input, q is driven by p
K, TAU, TAU2, W = 2.0, 1.0, 0.5, 0.3
X0, Z0 = 0.5, -0.25


def make_template():
    eqs = ["x' = (-x + k*z + u)/tau", "z' = (-z - k*x)/tau2"]
    variables = {"x": f"output({X0})", "z": f"variable({Z0})", "k": K, "tau": TAU, "tau2": TAU2, "u": "input(0.0)"}
    op = OperatorTemplate(name='lin_op', equations=eqs, variables=variables, path=None)
    node = NodeTemplate(name='lin_pop', operators=[op], path=None)
    return CircuitTemplate(name='lin', nodes={'p': node, 'q': node},
                           edges=[('p/lin_op/x', 'q/lin_op/u', None, {'weight': W})])


def vf(y, u_ext):
    """Independent implementation of the vector field; y = (x_p, x_q, z_p, z_q)."""
    xp, xq, zp, zq = y
    return np.array([(-xp + K * zp + u_ext) / TAU,
                     (-xq + K * zq + W * xp) / TAU,
                     (-zp - K * xp) / TAU2,
                     (-zq - K * xq) / TAU2])


def reference_fixed_step(T, dt, dts, cutoff, inp, heun=False):
    steps, stride = int(round(T / dt)), int(round(dts / dt))
    y = np.array([X0, X0, Z0, Z0], dtype=float)
    rows, times = [], []
    for i in range(steps):
        if i % stride == 0:
            rows.append(y.copy())
            times.append((i // stride) * dts)
        u = inp[i] if inp is not None else 0.0
        k1 = vf(y, u)
        if heun:
            k2 = vf(y + dt * k1, u)
            y = y + 0.5 * dt * (k1 + k2)
        else:
            y = y + dt * k1
    rows, times = np.array(rows), np.array(times)
    assert len(rows) == int(round(T / dts))
    keep = times >= cutoff - 1e-12
    return times[keep], rows[keep]


def reference_scipy(T, dts, cutoff, u_const):
    n = int(round(T / dts))
    times = np.arange(n) * dts
    sol = solve_ivp(lambda t, y: vf(y, u_const), (0.0, T), np.array([X0, X0, Z0, Z0]), t_eval=times, method='DOP853',
                    rtol=1e-12, atol=1e-13)
    keep = times >= cutoff - 1e-12
    return times[keep], sol.y.T[keep]


def simulate(template, T, dt, dts, cutoff, solver, inp, **kwargs):
    try:
        return _simulate(template, T, dt, dts, cutoff, solver, inp, **kwargs)
    except Exception as e:  # a legal call must not raise
        return e


def _simulate(template, T, dt, dts, cutoff, solver, inp, **kwargs):
    res = template.run(simulation_time=T, step_size=dt, sampling_step_size=dts, cutoff=cutoff, solver=solver,
                       outputs={'x': 'all/lin_op/x', 'z': 'all/lin_op/z'},
                       inputs={'p/lin_op/u': inp} if inp is not None else None,
                       in_place=False, verbose=False, clear=True, float_precision='float64', **kwargs)
    cols = [('x', 'p', 'lin_op/x'), ('x', 'q', 'lin_op/x'), ('z', 'p', 'lin_op/z'), ('z', 'q', 'lin_op/z')]
    return np.asarray(res.index, dtype=float), np.stack([res[c].values for c in cols], axis=1)


def check(label, got, expected, tol):
    if isinstance(got, Exception):
        print(f"  [{label}] run() raised {type(got).__name__}: {got}")
        return False
    (t_got, y_got), (t_exp, y_exp) = got, expected
    ok = True
    if y_got.shape != y_exp.shape:
        print(f"  [{label}] wrong number of rows: got {y_got.shape}, expected {y_exp.shape}")
        return False
    if not np.allclose(t_got, t_exp, rtol=0, atol=1e-9):
        print(f"  [{label}] wrong time index")
        ok = False
    err = np.max(np.abs(y_got - y_exp))
    if not err <= tol:
        print(f"  [{label}] trajectory deviates from the reference: max abs error {err:.3e} (tol {tol:.1e}); "
              f"first row {y_got[0]} vs expected {y_exp[0]}")
        ok = False
    if ok:
        print(f"  [{label}] ok (max abs error {err:.2e})")
    return ok


def main():
    template = make_template()
    ok = True

    # call 1: Euler, time-dependent input, sampling + cutoff
    T, dt, dts, cutoff = 1.2, 1e-2, 4e-2, 0.2
    inp = np.sin(3.0 * np.arange(int(round(T / dt))) * dt)
    ok &= check("run 1: euler", simulate(template, T, dt, dts, cutoff, 'euler', inp),
                reference_fixed_step(T, dt, dts, cutoff, inp), 1e-10)

    # call 2 on the same template: Euler again, other step sizes, no cutoff
    T, dt, dts, cutoff = 0.9, 5e-3, 1.5e-2, 0.0
    inp = np.cos(2.0 * np.arange(int(round(T / dt))) * dt)
    ok &= check("run 2: euler", simulate(template, T, dt, dts, cutoff, 'euler', inp),
                reference_fixed_step(T, dt, dts, cutoff, inp), 1e-10)

    # call 3 on the same template: Heun (constant input, so that the stage times of the input do not matter)
    T, dt, dts, cutoff = 1.0, 1e-2, 5e-2, 0.1
    inp = np.zeros(int(round(T / dt))) + 0.4
    ok &= check("run 3: heun", simulate(template, T, dt, dts, cutoff, 'heun', inp),
                reference_fixed_step(T, dt, dts, cutoff, inp, heun=True), 1e-10)

    # call 4 on the same template: adaptive solver (constant input)
    T, dt, dts, cutoff = 1.0, 1e-3, 1e-1, 0.0
    inp = np.zeros(int(round(T / dt))) + 0.4
    ok &= check("run 4: scipy", simulate(template, T, dt, dts, cutoff, 'scipy', inp, method='RK45', rtol=1e-9,
                                         atol=1e-11),
                reference_scipy(T, dts, cutoff, 0.4), 1e-6)

    # a fresh template gives the same answer as the re-used one in run 2 (sanity check of the reference itself)
    T, dt, dts, cutoff = 0.9, 5e-3, 1.5e-2, 0.0
    inp = np.cos(2.0 * np.arange(int(round(T / dt))) * dt)
    ok &= check("fresh template: euler", simulate(make_template(), T, dt, dts, cutoff, 'euler', inp),
                reference_fixed_step(T, dt, dts, cutoff, inp), 1e-10)

    print("PASS" if ok else "FAIL")
    return 0 if ok else 1


if __name__ == '__main__':
    sys.exit(main())
