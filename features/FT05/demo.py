"""Demonstration for property C05 (equation language means what its arithmetic says).

Each equation string is evaluated on both evaluation paths
  (1) direct evaluation of the parsed expression (ComputeGraph.eval_node), and
  (2) the generated source code (ComputeGraph.to_func, called with its own arguments),
and both results are compared with the value that plain NumPy arithmetic gives for the same formula.

Run as:  cd /tmp/seed/C05g && /venv/bin/python .scratch/demo.py
Prints PASS and exits 0 if all values agree, prints FAIL and exits 1 otherwise.
"""
import os
import sys
import warnings
from copy import deepcopy

ROOT = os.path.dirname(os.path.dirname(os.path.abspath(__file__)))
sys.path.insert(0, ROOT)
warnings.filterwarnings("ignore")

import numpy as np
import pyrates
assert os.path.abspath(pyrates.__file__).startswith(ROOT + os.sep), pyrates.__file__

from pyrates.backend.parser import parse_equations
from pyrates.backend.computegraph import ComputeGraph

# argument values (all powers below have a positive base, i.e. everything is real-valued)
VALUES = {
    'a': 0.7, 'b': 1.9, 'c': -0.4,
    'v': np.array([1.5, 2.5, 3.5]),
    'M': np.array([[1., 2., 3.], [4., 5., 6.]]),
}


def evaluate(lhs: str, rhs: str, names: list):
    """Returns (direct value, value of generated code) of `rhs`."""
    args = {}
    for name in names:
        val = np.asarray(VALUES[name], dtype=np.float64)
        args[f'node/op/{name}'] = {'vtype': 'constant', 'value': val, 'shape': val.shape, 'dtype': 'float'}
    args['node/op/z'] = {'vtype': 'state_var', 'value': np.zeros(()), 'shape': (), 'dtype': 'float'}
    cg = ComputeGraph(backend='default', float_precision='float64')
    parse_equations(equations=[(f"{lhs} = {rhs}", 'node/op')], equation_args=deepcopy(args), cg=cg, def_shape=())
    direct = np.array(cg.eval_node(cg.var_updates['DEs']['z']), dtype=float)
    func, fargs, _, _ = cg.to_func('c05_demo', to_file=False)
    generated = np.array(func(*fargs), dtype=float, copy=True)
    return np.squeeze(direct), np.squeeze(generated)


a, b, c, v, M = (VALUES[k] for k in 'abcvM')
CASES = [
    # (lhs notation, rhs, variables, expected value from plain NumPy arithmetic)
    # --- controls: powers, indexing and their simple combinations
    ("d/dt * z", "(a^b)^c", ['a', 'b', 'c'], (a ** b) ** c),
    ("d/dt * z", "a^b^c", ['a', 'b', 'c'], a ** (b ** c)),
    ("z'", "index(v, 1)^2 + a", ['a', 'v'], v[1] ** 2 + a),
    ("d/dt * z", "(a*index(v, 1))^b", ['a', 'b', 'v'], (a * v[1]) ** b),
    ("d/dt * z", "b^(a*index(v, 1))", ['a', 'b', 'v'], b ** (a * v[1])),
    ("d/dt * z", "b^index(v, 1)^a", ['a', 'b', 'v'], b ** (v[1] ** a)),
    ("d/dt * z", "exp(-index(v, 1)*a) + vsum(index_range(v, 0, 2))", ['a', 'v'], np.exp(-v[1] * a) + np.sum(v[0:2])),
    # --- a power of a power of an indexed variable, in various spellings
    ("d/dt * z", "(index(v, 1)^a)^b", ['a', 'b', 'v'], (v[1] ** a) ** b),
    ("z'", "(index(v, 1)**a)**b", ['a', 'b', 'v'], (v[1] ** a) ** b),
    ("d/dt * z", "( index(v,1)^2 )^b", ['b', 'v'], (v[1] ** 2) ** b),
    ("d/dt * z", "a*(index(v, 2)^b)^c + pi", ['a', 'b', 'c', 'v'], a * (v[2] ** b) ** c + np.pi),
    ("d/dt * z", "(index_2d(M, 1, 2)^a)^b", ['a', 'b', 'M'], (M[1, 2] ** a) ** b),
    ("d/dt * z", "a^(1/index(v, 1))", ['a', 'v'], a ** (1 / v[1])),
]

failures = []
for lhs, rhs, names, expected in CASES:
    try:
        direct, generated = evaluate(lhs, rhs, names)
    except Exception as e:  # an equation that cannot be evaluated does not evaluate to its value either
        failures.append(f"{lhs} = {rhs}: raised {type(e).__name__}: {e}")
        continue
    for path, value in (("direct evaluation", direct), ("generated code", generated)):
        if value.shape != np.shape(expected) or not np.allclose(value, expected, rtol=1e-9, atol=1e-12):
            failures.append(f"{lhs} = {rhs}: {path} gives {value}, arithmetic says {expected}")

if failures:
    print("\n".join(failures))
    print("FAIL")
    sys.exit(1)
print(f"all {len(CASES)} equations evaluate to their arithmetic value on both paths")
print("PASS")
sys.exit(0)
