"""Demo for property C10 (delayed terms read the true past of the trajectory).

Model: three nodes that share the operator

    x' = k * x(t - d)
    z' = -z + 0.5 * x(t - d)

with the SAME delay d on every node (k and the initial states differ), compiled with the default
`vectorize=True` for a FIXED-STEP solver. Vectorisation collapses the three nodes into one node whose
delay parameter is the vector d = [d, d, d].

Checks (all against independently computed values):
 A. the compiled vector field, called at integer step t with a user-supplied history function h, must
    evaluate the delayed term of node i as h(t*dt - d[i])[i]  (t in time units for every solver)
 B. run() with the Euler solver must reproduce a hand-written Euler integration of the DDE with
    constant pre-history (delay is a multiple of dt, so the delayed value is a stored sample)
 C. same as A for the adaptive solver (t already in time units)
"""
import os
import sys
import warnings

ROOT = '/tmp/seed/C10h'
sys.path.insert(0, ROOT)
os.makedirs(os.path.join(ROOT, '.scratch', 'demo_build'), exist_ok=True)
os.chdir(os.path.join(ROOT, '.scratch', 'demo_build'))
warnings.filterwarnings('ignore')

import numpy as np
import pyrates
from pyrates import OperatorTemplate, NodeTemplate, CircuitTemplate, clear

assert os.path.realpath(pyrates.__file__).startswith(ROOT + os.sep), pyrates.__file__

DT = 1e-2
D = 0.25
K = np.array([-1.0, -2.0, 0.7])
X0 = np.array([1.0, 0.5, -0.4])
Z0 = np.array([0.2, -0.3, 0.1])
NODES = ['p1', 'p2', 'p3']


def build():
    op = OperatorTemplate(name='op', path=None,
                          equations=["x' = k*x(t-d)", "z' = -z + 0.5*x(t-d)"],
                          variables={'x': 'output(1.0)', 'z': 'variable(0.0)', 'd': D, 'k': -1.0})
    node = NodeTemplate(name='n', path=None, operators=[op])
    circ = CircuitTemplate(name='c', path=None, nodes={n: node for n in NODES})
    upd = {}
    for i, n in enumerate(NODES):
        upd[f'{n}/op/k'] = float(K[i])
        upd[f'{n}/op/x'] = float(X0[i])
        upd[f'{n}/op/z'] = float(Z0[i])
    circ.update_var(node_vars=upd)
    return circ


def user_hist(s):
    """A user-supplied history: smooth, different in every component and at every time."""
    s = float(s)
    return np.array([np.sin(s) + 2.0, np.cos(3.0 * s), s ** 2 + 1.0,
                     np.exp(-s), 0.3 * s, -1.0 + s])


failures = []


def check_vector_field(solver, times, fname):
    circ = build()
    func, args, keys, idx = circ.get_run_func('vf', step_size=DT, solver=solver, backend='default',
                                              vectorize=True, clear=False, file_name=fname, verbose=False,
                                              float_precision='float64')
    try:
        named = dict(zip(keys, args))
        d = np.atleast_1d(np.asarray(named['p1/op/d'], dtype=float))
        k = np.atleast_1d(np.asarray(named['p1/op/k'], dtype=float))
        assert np.allclose(d, D) and np.allclose(k, K), (d, k)
        ix, iz = idx['p1/op/x'], idx['p1/op/z']
        n_state = len(args[1])
        rng = np.random.RandomState(3)
        for t in times:
            y = rng.randn(n_state)
            t_units = t * DT if solver != 'scipy' else t
            past = np.array([user_hist(t_units - D)[ix[0] + i] for i in range(3)])
            expected = np.zeros(n_state)
            expected[ix[0]:ix[1]] = K * past
            expected[iz[0]:iz[1]] = -y[iz[0]:iz[1]] + 0.5 * past
            call_args = list(args)
            call_args[0], call_args[1], call_args[2] = t, y.copy(), user_hist
            got = np.array(func(*call_args), dtype=float).copy()
            if not np.allclose(got, expected, rtol=1e-9, atol=1e-11):
                failures.append(f"[{solver}] vector field at t={t}: got {got}, expected {expected}")
    finally:
        clear(circ)


def check_euler_run():
    T = 2.0
    n_steps = int(round(T / DT))
    m = int(round(D / DT))
    # independent reference: forward Euler for the DDE with constant pre-history
    x = np.zeros((n_steps + 1, 3))
    z = np.zeros((n_steps + 1, 3))
    x[0], z[0] = X0, Z0
    for n in range(n_steps):
        xp = x[n - m] if n - m > 0 else X0
        x[n + 1] = x[n] + DT * K * xp
        z[n + 1] = z[n] + DT * (-z[n] + 0.5 * xp)
    circ = build()
    outputs = {f'x{i}': f'{n}/op/x' for i, n in enumerate(NODES)}
    outputs.update({f'z{i}': f'{n}/op/z' for i, n in enumerate(NODES)})
    try:
        res = circ.run(simulation_time=T, step_size=DT, solver='euler', outputs=outputs, backend='default',
                       vectorize=True, clear=False, file_name='demo_run', verbose=False, float_precision='float64')
        got_x = np.stack([np.asarray(res[f'x{i}']).squeeze() for i in range(3)], axis=1)
        got_z = np.stack([np.asarray(res[f'z{i}']).squeeze() for i in range(3)], axis=1)
        err = max(np.max(np.abs(got_x - x[:n_steps])), np.max(np.abs(got_z - z[:n_steps])))
        if not err < 1e-8:
            failures.append(f"[euler] run() deviates from the reference Euler DDE solution: max abs error {err:.3e}")
    finally:
        clear(circ)


check_vector_field('euler', [0, 7, 40, 123], 'demo_vf_euler')
check_vector_field('scipy', [0.0, 0.07, 0.4, 1.23], 'demo_vf_scipy')
check_euler_run()

if failures:
    print("FAIL")
    for f in failures:
        print("  " + f)
    sys.exit(1)
print("PASS")
sys.exit(0)
