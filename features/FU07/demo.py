"""Demo for property C07: parameter and initial-value overrides reach exactly their targets.

Three nodes share ONE NodeTemplate object. The node template carries operator overrides of its own (k = 3.0 and
x(0) = 0.9, whereas the operator declares k = 1.0 and x(0) = 0.5). Values are then set through
CircuitTemplate.update_var, some of which coincide with the defaults declared by the operator. The expected
constants / initial state are written down by hand from the sequence of calls and compared with the arguments of the
compiled vector-field function.
"""
import os
import sys
import warnings

ROOT = os.path.dirname(os.path.dirname(os.path.abspath(__file__)))
sys.path.insert(0, ROOT)
warnings.filterwarnings('ignore')

import numpy as np
import pyrates
assert os.path.abspath(pyrates.__file__).startswith(ROOT + os.sep), pyrates.__file__
from pyrates import CircuitTemplate, NodeTemplate, OperatorTemplate, clear

failures = []


def check(label, got, expected):
    got = np.asarray(got, dtype=float).ravel()
    expected = np.asarray(expected, dtype=float)
    ok = got.shape == expected.shape and np.allclose(got, expected)
    print(f"  {label}: got {got.tolist()}, expected {expected.tolist()} -> {'ok' if ok else 'MISMATCH'}")
    if not ok:
        failures.append(label)


def compiled_values(circuit, name):
    func, args, keys, state_idx = circuit.get_run_func(name, step_size=1e-3, backend='default', vectorize=True,
                                                       verbose=False, clear=False)
    vals = dict(zip(keys, args))
    start, stop = state_idx['a/op/x']
    res = {'k': np.array(vals['a/op/k'], dtype=float), 'tau': np.array(vals['a/op/tau'], dtype=float),
           'x0': np.array(vals['y'], dtype=float)[start:stop]}
    clear(circuit)
    return res


def build():
    op = OperatorTemplate(name='op', path=None, equations=["d/dt * x = (k - x)/tau"],
                          variables={'x': 'output(0.5)', 'k': 1.0, 'tau': 2.0})
    # node-level overrides of the operator defaults; the SAME node template object is used for all three nodes
    node = NodeTemplate(name='n', path=None, operators={op: {'k': 3.0, 'x': 0.9}})
    return CircuitTemplate(name='net', nodes={'a': node, 'b': node, 'c': node})


# scenario 1: a single update_var call on a circuit whose node template has overrides of its own
print("scenario 1: values that coincide with the operator's declaration, given to single nodes")
c = build()
c.update_var(node_vars={'b/op/k': 1.0, 'c/op/x': 0.5, 'a/op/tau': 7.0})
res = compiled_values(c, 'demo_f1')
check('k   (a, b, c)', res['k'], [3.0, 1.0, 3.0])
check('tau (a, b, c)', res['tau'], [7.0, 2.0, 2.0])
check('x0  (a, b, c)', res['x0'], [0.9, 0.9, 0.5])

# scenario 2: a sequence of update_var calls, the last of which goes back to the value declared by the operator
print("scenario 2: sequence of update_var calls")
c = build()
c.update_var(node_vars={'all/op/tau': np.array([4.0, 5.0, 6.0])})
c.update_var(node_vars={'b/op/tau': 2.0})
c.update_var(node_vars={'all/op/k': np.array([1.0, 2.0, 3.0])})
res = compiled_values(c, 'demo_f2')
check('tau (a, b, c)', res['tau'], [4.0, 2.0, 6.0])
check('k   (a, b, c)', res['k'], [1.0, 2.0, 3.0])
check('x0  (a, b, c)', res['x0'], [0.9, 0.9, 0.9])

if failures:
    print("FAIL", failures)
    sys.exit(1)
print("PASS")
sys.exit(0)
