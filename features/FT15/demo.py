"""Demo for property C15 (YAML / inherited definitions are equivalent).

A template derived via `base:` must take over everything it does not override, and the equation edits
(`replace`, `add`) must yield exactly the edited/added equations -- every time the template is loaded,
under whichever spelling of the path to the (unchanged) YAML file.

The script writes a small YAML model file (operator `sfa_op` derived from `base_op` by one `replace` and one `add`
edit; identifiers contain one another: r, rr, r_in, tau, tau_rr, k_rr), loads the circuit under two different spellings
of the same file path (absolute path / relative path), and checks for both loads
  (1) the equations and variables of the derived operator against the expected, hand-written ones, and
  (2) the simulated dynamics against an independent scipy integration of the hand-written ODE system.
"""
import os
import sys
import shutil
import tempfile
import warnings

ROOT = os.path.dirname(os.path.dirname(os.path.abspath(__file__)))
sys.path.insert(0, ROOT)
os.chdir(ROOT)
warnings.filterwarnings("ignore")

import numpy as np
from scipy.integrate import solve_ivp

import pyrates
assert os.path.abspath(pyrates.__file__).startswith(ROOT + os.sep), pyrates.__file__

from pyrates import CircuitTemplate, OperatorTemplate, clear_frontend_caches

YAML_TEXT = """%YAML 1.2
---

base_op:
  base: OperatorTemplate
  equations:
    - "r' = (r_in + I_ext - r) / tau"
  variables:
    r: output(0.2)
    tau: 2.0
    I_ext: 1.5
    r_in: input(0.0)

sfa_op:
  base: base_op
  equations:
    replace:
      I_ext: I_ext - rr
    add:
      - "rr' = (k_rr*r - rr) / tau_rr"
  variables:
    rr: variable(0.1)
    k_rr: 2.0
    tau_rr: 5.0

pop:
  base: NodeTemplate
  operators:
    - sfa_op

slow_pop:
  base: NodeTemplate
  operators:
    base_op:
      tau: 4.0

slow_net:
  base: CircuitTemplate
  nodes:
    q: slow_pop

net:
  base: CircuitTemplate
  nodes:
    p1: pop
    p2: pop
  edges:
    - [p1/sfa_op/r, p2/sfa_op/r_in, null, {weight: 0.5}]
    - [p2/sfa_op/r, p1/sfa_op/r_in, null, {weight: -1.0}]
"""

EXPECTED_EQS = ["r' = (r_in + I_ext - rr - r) / tau", "rr' = (k_rr*r - rr) / tau_rr"]
EXPECTED_VARS = {"r", "tau", "I_ext", "r_in", "rr", "k_rr", "tau_rr"}

T, DT, DTS = 20.0, 1e-3, 0.1


def reference():
    """Independent integration of the hand-written system (state: r1, rr1, r2, rr2)."""
    tau, I_ext, k_rr, tau_rr = 2.0, 1.5, 2.0, 5.0

    def rhs(t, y):
        r1, rr1, r2, rr2 = y
        return [(-1.0*r2 + I_ext - rr1 - r1) / tau, (k_rr*r1 - rr1) / tau_rr,
                (0.5*r1 + I_ext - rr2 - r2) / tau, (k_rr*r2 - rr2) / tau_rr]

    t_eval = np.arange(0.0, T, DTS)
    sol = solve_ivp(rhs, (0.0, T), [0.2, 0.1, 0.2, 0.1], method="RK45", rtol=1e-10, atol=1e-12, t_eval=t_eval)
    return sol.y


def check(path: str, ref: np.ndarray) -> list:
    problems = []
    try:
        net = CircuitTemplate.from_yaml(path)
        op = net.nodes["p1"]["sfa_op"]  # type: OperatorTemplate
        if list(op.equations) != EXPECTED_EQS:
            problems.append(f"equations of derived operator: {list(op.equations)} (expected {EXPECTED_EQS})")
        if set(op.variables) != EXPECTED_VARS:
            problems.append(f"variables of derived operator: {sorted(op.variables)} (expected {sorted(EXPECTED_VARS)})")
        res = net.run(simulation_time=T, step_size=DT, sampling_step_size=DTS, solver="scipy", method="RK45",
                      rtol=1e-10, atol=1e-12, backend="default", verbose=False,
                      outputs={"r1": "p1/sfa_op/r", "r2": "p2/sfa_op/r"})
        sim = np.stack([np.asarray(res[k]).squeeze() for k in ("r1", "r2")])
        n = min(sim.shape[1], ref.shape[1])
        err = float(np.max(np.abs(sim[:, :n] - ref[[0, 2], :n])))
        if not err < 1e-6:
            problems.append(f"simulated dynamics deviate from the reference solution: max abs error {err:.3e}")
    except Exception as e:  # any crash of a legal model is a failure as well
        problems.append(f"{type(e).__name__}: {e}")
    return problems


def check_override(path: str, tau: float, edit: float = None) -> list:
    """Node `slow_pop` overrides tau of `base_op` with 4.0 in the file: r(t) = I + (r0 - I)*exp(-t/tau), analytically.
    If `edit` is given, the loaded node template is edited in memory first (this must not reach the file content)."""
    problems = []
    try:
        net = CircuitTemplate.from_yaml(path)
        found = dict(net.nodes["q"].operators[net.nodes["q"]["base_op"]])
        if found != {"tau": tau}:
            problems.append(f"per-node override of slow_pop as loaded: {found} (file says {{'tau': {tau}}})")
        if edit is not None:
            net.nodes["q"].update_var(op="base_op", var="tau", val=edit)
            tau = edit
        res = net.run(simulation_time=T, step_size=DT, sampling_step_size=DTS, solver="scipy", method="RK45",
                      rtol=1e-10, atol=1e-12, backend="default", verbose=False, outputs={"r": "q/base_op/r"})
        sim = np.asarray(res["r"]).squeeze()
        t = np.arange(len(sim)) * DTS
        err = float(np.max(np.abs(sim - (1.5 + (0.2 - 1.5) * np.exp(-t / tau)))))
        if not err < 1e-6:
            problems.append(f"simulated dynamics deviate from the analytic solution for tau={tau}: max abs error {err:.3e}")
    except Exception as e:
        problems.append(f"{type(e).__name__}: {e}")
    return problems


def main() -> int:
    ref = reference()
    workdir = tempfile.mkdtemp(prefix="c15g_", dir=os.path.join(ROOT, ".scratch"))
    try:
        with open(os.path.join(workdir, "sfa_model.yaml"), "w") as f:
            f.write(YAML_TEXT)

        # two spellings of the path to one and the same (unchanged) file
        path_abs = f"{workdir}/sfa_model/net"
        path_rel = f"./{os.path.relpath(workdir, ROOT)}/sfa_model/net"

        failed = False
        for i, path in enumerate((path_abs, path_rel)):
            if i > 0:
                # forget the operator IRs built for the first load (they are cached by operator name), keep the rest
                clear_frontend_caches(clear_template_cache=False)
            problems = check(path, ref)
            print(f"load {i+1} via '{path}': " + ("ok" if not problems else "MISMATCH"))
            for p in problems:
                print("   -", p)
            failed = failed or bool(problems)

        # second scenario: a per-node override; the first loaded copy is edited in memory, the file stays as it is
        for i, (path, edit) in enumerate(((path_abs, 0.5), (path_rel, None))):
            clear_frontend_caches(clear_template_cache=False)
            path = path[:-len("net")] + "slow_net"
            problems = check_override(path, tau=4.0, edit=edit)
            print(f"override load {i+1} via '{path}': " + ("ok" if not problems else "MISMATCH"))
            for p in problems:
                print("   -", p)
            failed = failed or bool(problems)
    finally:
        shutil.rmtree(workdir, ignore_errors=True)
        clear_frontend_caches()

    print("FAIL" if failed else "PASS")
    return 1 if failed else 0


if __name__ == "__main__":
    sys.exit(main())
