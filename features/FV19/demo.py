"""Demo for property C19: DDEHistory returns the piecewise-linear interpolant
of exactly the (t_i, y_i) records it was given.

The expected values are computed by an independent reference (plain Python
lists of records + textbook linear interpolation), never from a recording of
the library's own output.
"""
import os
import sys

ROOT = os.path.dirname(os.path.dirname(os.path.abspath(__file__)))
sys.path.insert(0, ROOT)

import numpy as np
import pyrates

assert os.path.abspath(pyrates.__file__).startswith(ROOT + os.sep), pyrates.__file__

from pyrates.backend.base.base_backend import DDEHistory


def reference(ts, ys, t):
    """Piecewise-linear interpolant of the records (ts[i], ys[i])."""
    if t <= ts[0]:
        return ys[0]
    if t >= ts[-1]:
        return ys[-1]
    for i in range(len(ts) - 1):
        if ts[i] <= t < ts[i + 1]:
            a = (t - ts[i]) / (ts[i + 1] - ts[i])
            return ys[i] + a * (ys[i + 1] - ys[i])
    raise AssertionError


failures = []


def check(label, hist, ts, ys, queries):
    for t in queries:
        got = np.asarray(hist(t))
        exp = np.asarray(reference(ts, ys, t))
        if got.shape != exp.shape or not np.allclose(got, exp, rtol=1e-12, atol=1e-12):
            failures.append(f"{label}: t={t!r}: got {got!r}, expected {exp!r}")
            return


def run(label, y0, t0, steps, dtype=float, **kw):
    """steps: list of (t, y). Queries are interleaved with the updates."""
    y0 = np.asarray(y0, dtype=dtype)
    hist = DDEHistory(y0, t0=t0, **kw)
    ts, ys = [float(t0)], [y0.copy()]
    buf = np.empty_like(y0)
    for t, y in steps:
        buf[...] = y
        hist.update(t, buf)
        ts.append(float(t))
        ys.append(buf.copy())
        buf[...] = -777          # caller re-uses its array: records must be copies
        # interleaved queries: all record times seen so far (subsampled), midpoints, ends
        k = len(ts)
        sel = range(max(0, k - 6), k)
        q = [ts[i] for i in sel] + [0.5 * (ts[i] + ts[i + 1]) for i in sel if i + 1 < k]
        q += [ts[0] - 1.0, ts[-1] + 1.0]
        check(label + f" (after {k - 1} updates)", hist, ts, ys, q)
        if failures:
            return
    # final sweep over everything
    q = list(ts) + [0.5 * (a + b) for a, b in zip(ts[:-1], ts[1:])]
    q += [0.25 * a + 0.75 * b for a, b in zip(ts[:-1], ts[1:])]
    check(label + " (final sweep)", hist, ts, ys, q)


rng = np.random.default_rng(0)

# 1. generic random walk, several growth events (1024 -> 2048 -> 4096)
T = np.cumsum(rng.uniform(0.01, 0.2, size=2600)) + 0.5
run("random 3-vector, growth", rng.normal(size=3), 0.5,
    [(t, rng.normal(size=3)) for t in T])

# 2. a unit that jumps to a new level and HOLDS it for exactly one more step,
#    then moves on (e.g. a saturating / clipped / quantised state variable)
run("jump then hold once", [0.0, 1.0], 0.0,
    [(1.0, [2.0, 3.0]), (2.0, [2.0, 3.0]), (3.0, [5.0, -1.0])])

# 3. long genuine plateaus separated by jumps (fixed point before a stimulus)
steps = []
level = np.zeros(2)
t = 0.0
for block in range(6):
    for _ in range(int(rng.integers(1, 6))):
        t += 0.1
        steps.append((t, level.copy()))
    level = level + rng.normal(size=2)
run("plateaus and jumps", np.zeros(2), 0.0, steps)

# 4. staircase signal (every level held for two steps), past one growth event, float32, 2-D state
steps = []
for i in range(1, 1400):
    steps.append((0.01 * i, np.full((2, 2), float(i // 2))))
run("staircase float32 2x2", np.zeros((2, 2)), 0.0, steps, dtype=np.float32)

# 5. scalar integer-valued state that repeats values
run("scalar state", 0.0, -1.0, [(0.0, 1.0), (0.5, 1.0), (1.0, 4.0), (1.5, 4.0), (2.5, 0.0)])

# 6. bounded history: refuses updates beyond its capacity, keeps what it has
h = DDEHistory(np.zeros(2), t0=0.0, max_steps=4)
ts, ys = [0.0], [np.zeros(2)]
for i in range(1, 4):
    y = np.array([1.0, 1.0]) if i < 3 else np.array([2.0, 0.0])
    h.update(float(i), y)
    ts.append(float(i)); ys.append(y)
try:
    h.update(4.0, np.array([9.0, 9.0]))
    failures.append("bounded history accepted an update beyond max_steps")
except IndexError:
    pass
check("bounded", h, ts, ys, [0.0, 0.5, 1.0, 1.5, 2.0, 2.5, 3.0, 3.5, 4.0])

if failures:
    print("FAIL")
    for f in failures:
        print("  " + f)
    sys.exit(1)
print("PASS")
sys.exit(0)
