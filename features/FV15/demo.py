"""Demo for property C15: a CircuitTemplate written with to_yaml and loaded again has identical dynamics,
including per-node overrides.

Three nodes share one NodeTemplate (one leaky operator  d/dt x = -x/tau,  x(0)=1);  two of them get a per-node
override of tau through CircuitTemplate.update_var.  The circuit is dumped to YAML, re-loaded and simulated.
Expected values are the analytic solution x_i(T) = exp(-T/tau_i), computed independently of PyRates.
"""
import os
import shutil
import sys
import warnings

ROOT = os.path.dirname(os.path.dirname(os.path.abspath(__file__)))
sys.path.insert(0, ROOT)
warnings.filterwarnings("ignore")

import numpy as np
import pyrates
assert os.path.abspath(pyrates.__file__).startswith(ROOT + os.sep), pyrates.__file__
from pyrates import CircuitTemplate, NodeTemplate, OperatorTemplate, clear, clear_frontend_caches

TAUS = {'p1': 1.0, 'p2': 2.0, 'p3': 0.5}
T, dt = 1.0, 1e-3


def build():
    op = OperatorTemplate(name='leak_op', path=None, equations=['d/dt * x = -x/tau'],
                          variables={'x': 'output(1.0)', 'tau': 1.0})
    node = NodeTemplate(name='leak_pop', path=None, operators=[op])
    circuit = CircuitTemplate(name='leaknet', nodes={k: node for k in TAUS}, edges=[])
    # per-node overrides
    circuit.update_var(node_vars={f'{k}/leak_op/tau': v for k, v in TAUS.items() if v != 1.0})
    return circuit


def op_name(circuit, node):
    # the dump may store variants of an operator under a de-duplicated key (leak_op, leak_op_1, ...)
    ops = [op.name for op in circuit.nodes[node].operators]
    assert len(ops) == 1, ops
    return ops[0]


def simulate(circuit):
    res = circuit.run(simulation_time=T, step_size=dt, sampling_step_size=dt, solver='scipy',
                      outputs={k: f'{k}/{op_name(circuit, k)}/x' for k in TAUS}, verbose=False, clear=True)
    clear(circuit)
    return {k: float(np.squeeze(res[k].values)[-1]) for k in TAUS}


def main():
    tmp = os.path.join(ROOT, '.scratch', 'demo_tmp')
    shutil.rmtree(tmp, ignore_errors=True)
    os.makedirs(tmp)
    cwd = os.getcwd()
    os.chdir(tmp)
    try:
        clear_frontend_caches()
        original = build()
        fname = os.path.join(tmp, 'leaknet.yaml')
        original.to_yaml(fname)
        clear_frontend_caches()
        reloaded = CircuitTemplate.from_yaml(os.path.join(tmp, 'leaknet', 'leaknet'))

        x_orig = simulate(original)
        x_load = simulate(reloaded)
    finally:
        os.chdir(cwd)
        shutil.rmtree(tmp, ignore_errors=True)

    ok = True
    t_end = T - dt  # last sample
    for k, tau in TAUS.items():
        lo, hi = np.exp(-T / tau), np.exp(-(T - 2 * dt) / tau)
        expected = np.exp(-t_end / tau)
        for label, x in (('python', x_orig[k]), ('yaml round-trip', x_load[k])):
            good = (lo - 1e-3 <= x <= hi + 1e-3)
            print(f"{k} tau={tau}: {label:16s} x(T)={x:.5f}  analytic~{expected:.5f}  {'ok' if good else 'MISMATCH'}")
            ok &= bool(good)
    if ok:
        print("PASS")
        return 0
    print("FAIL")
    return 1


if __name__ == '__main__':
    sys.exit(main())
