"""Property C14 demo: update_template without in_place (a copy-making operation) must leave the template it was
called on - and every circuit that uses this template - exactly as it was.

Prints PASS / exits 0 if the property holds, prints FAIL / exits 1 otherwise.
"""
import os
import sys
import warnings

ROOT = os.path.dirname(os.path.dirname(os.path.abspath(__file__)))
sys.path.insert(0, ROOT)
warnings.filterwarnings("ignore")

import numpy as np
import pyrates
assert os.path.abspath(pyrates.__file__).startswith(ROOT + os.sep), pyrates.__file__

from pyrates.frontend import OperatorTemplate, NodeTemplate, CircuitTemplate

TAU, W, T, DT = 2.0, 0.5, 1.0, 1e-3

op = OperatorTemplate(name='decay', equations=["d/dt * x = -x/tau + r_in"],
                      variables={'x': 'output(1.0)', 'tau': TAU, 'r_in': 'input(0.0)'})
# a node template without per-node overrides, used for both nodes of the circuit (shared object)
pop = NodeTemplate(name='pop', operators=[op])
net = CircuitTemplate(name='net', nodes={'p1': pop, 'p2': pop},
                      edges=[('p1/decay/x', 'p2/decay/r_in', None, {'weight': W})])


def simulate():
    res = net.run(simulation_time=T, step_size=DT, solver='euler', backend='default', vectorize=False,
                  outputs={'x1': 'p1/decay/x', 'x2': 'p2/decay/x'}, in_place=False, clear=True, verbose=False)
    return np.asarray(res['x1'].values[-1], dtype=float).item(), np.asarray(res['x2'].values[-1], dtype=float).item()


def expected(tau):
    # analytic solution of x1' = -x1/tau, x2' = -x2/tau + W*x1 with x1(0) = x2(0) = 1
    return np.exp(-T / tau), (1.0 + W * T) * np.exp(-T / tau)


problems = []
overrides_before = {o.name: dict(v or {}) for o, v in pop.operators.items()}
first = simulate()
if not np.allclose(first, expected(TAU), atol=5e-3):
    problems.append(f"first run {first} != analytic {expected(TAU)}")

# copy-making operations: derive new node templates from `pop` (not in place)
try:
    slow = pop.update_template(name='slow_pop', values={'decay/tau': 20.0})
    # the derived template must carry the new value ...
    slow_tau = slow.operators[slow['decay']].get('tau')
    if slow_tau != 20.0:
        problems.append(f"derived template does not carry tau=20.0 (got {slow_tau})")
except TypeError:
    # unchanged code base: no `values` keyword, use the classic way of deriving a template
    slow = pop.update_template(name='slow_pop', operators={op: {'tau': 20.0}})
renamed = pop.update_template(name='pop2')

# ... and the template it was derived from must be as it was
overrides_after = {o.name: dict(v or {}) for o, v in pop.operators.items()}
if overrides_after != overrides_before:
    problems.append(f"per-node overrides of base template changed: {overrides_before} -> {overrides_after}")

second = simulate()
third = simulate()
if not np.allclose(second, expected(TAU), atol=5e-3):
    problems.append(f"run after update_template {second} != analytic {expected(TAU)}")
if second != first or third != first:
    problems.append(f"repeated run(in_place=False) differ: {first}, {second}, {third}")

if problems:
    print("FAIL")
    for p in problems:
        print("  -", p)
    sys.exit(1)
print("PASS")
sys.exit(0)
