"""Demo for property C08 (extrinsic inputs reach the right unit at the right time).

Three uncoupled leaky integrators  x_i' = -x_i + u_i(t)  are driven through an (N, 3) input array with an
adaptive (scipy) solver.  Property C08 says: node i gets column i, and the value used at time t is the linear
interpolation of the N samples placed uniformly on [0, T].  The expected trajectories are computed independently
with scipy.integrate.solve_ivp + numpy.interp; a 1-D array sent to the same three nodes (broadcast) and an
(N, 3) array with three different columns are checked the same way.
"""
import os
import sys

ROOT = os.path.dirname(os.path.dirname(os.path.abspath(__file__)))
sys.path.insert(0, ROOT)

import warnings
warnings.filterwarnings("ignore")

import numpy as np
from scipy.integrate import solve_ivp

import pyrates
assert os.path.abspath(pyrates.__file__).startswith(ROOT + os.sep), pyrates.__file__
from pyrates import CircuitTemplate, NodeTemplate, OperatorTemplate, clear

T, dt = 4.0, 1e-2
N = int(round(T / dt))
grid = np.linspace(0.0, T, N)          # sample k sits at grid[k] (property statement)
t_eval = np.linspace(0.0, T, 41)[:-1]
n_nodes = 3


def make_net():
    op = OperatorTemplate(name='li_op', path=None, equations=["d/dt * x = -x + u"],
                          variables={'x': 'output(0.0)', 'u': 'input(0.0)'})
    node = NodeTemplate(name='li', path=None, operators=[op])
    return CircuitTemplate(name='net', path=None, nodes={f'p{i}': node for i in range(n_nodes)})


def simulate(inp):
    net = make_net()
    res = net.run(simulation_time=T, step_size=dt, sampling_step_size=dt, solver='scipy', method='RK45',
                  rtol=1e-9, atol=1e-11, max_step=dt, inputs={'all/li_op/u': inp}, outputs={'x': 'all/li_op/x'},
                  backend='default', vectorize=True, verbose=False, clear=True)
    clear(net)
    cols = sorted(res.columns, key=lambda c: str(c))
    vals = res.loc[:, cols].values
    times = res.index.values
    return np.stack([np.interp(t_eval, times, vals[:, i]) for i in range(vals.shape[1])], axis=1)


def expected(inp):
    cols = np.tile(inp[:, None], (1, n_nodes)) if inp.ndim == 1 else inp
    out = []
    for i in range(n_nodes):
        sol = solve_ivp(lambda t, x: -x + np.interp(t, grid, cols[:, i]), (0.0, T), [0.0], t_eval=t_eval,
                        rtol=1e-9, atol=1e-11, max_step=dt)
        out.append(sol.y[0])
    return np.stack(out, axis=1)


time_axis = np.arange(N) * dt
sig = np.sin(2.0 * np.pi * 0.7 * time_axis) + 0.3 * np.cos(2.0 * np.pi * 2.1 * time_axis)

cases = {
    '1-D array broadcast to 3 nodes': sig,
    '(N,3) array, three different columns': np.stack([sig, -0.5 * sig, sig ** 2], axis=1),
    '(N,3) array, every node gets the same signal': np.tile(sig[:, None], (1, n_nodes)),
}

ok = True
for label, inp in cases.items():
    got = simulate(inp)
    exp = expected(inp)
    err = float(np.max(np.abs(got - exp)))
    good = got.shape == exp.shape and err < 1e-3
    print(f"{label}: max |pyrates - expected| = {err:.3e} -> {'ok' if good else 'MISMATCH'}")
    ok = ok and good

if ok:
    print("PASS")
    sys.exit(0)
print("FAIL")
sys.exit(1)
