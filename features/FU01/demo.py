"""Demonstration for property C01 (generated vector field equals the model the user wrote).

Model: three nodes A, B, C that share one operator with two state variables (v, w) and two input variables
(r_in, u_in).  Edges (all plain weighted edges, no delays, no edge templates):

    A/v --2.0--> C/r_in        \
    A/v --0.25-> C/r_in         >  two PARALLEL edges between the same pair of variables plus a third source
    B/v --3.0--> C/r_in        /
    C/v --1.25-> B/r_in
    A/v --1.5--> B/u_in
    C/v --0.5--> A/u_in
    C/v --0.75-> A/u_in           (parallel edges again, single source only)

The expected right-hand side is computed by hand from this edge list (every input variable is the sum of
weight*source over ALL its incoming edges, or its declared default if nothing connects to it) and compared with the
function returned by `get_run_func` at random state vectors, for vectorize=False and vectorize=True.
"""
import os
import sys

ROOT = os.path.dirname(os.path.dirname(os.path.abspath(__file__)))
sys.path.insert(0, ROOT)
os.chdir(os.path.join(ROOT, '.scratch'))

import warnings
warnings.filterwarnings('ignore')

import numpy as np
import pyrates
assert os.path.abspath(pyrates.__file__).startswith(ROOT + os.sep), pyrates.__file__
from pyrates import OperatorTemplate, NodeTemplate, CircuitTemplate, clear_frontend_caches

NODES = ['A', 'B', 'C']
PARAMS = {'a': 2.0, 'b': 0.5, 'c': 3.0}
DEFAULTS = {'r_in': 0.7, 'u_in': 0.3}
EDGES = [('A', 'v', 'C', 'r_in', 2.0),
         ('A', 'v', 'C', 'r_in', 0.25),
         ('B', 'v', 'C', 'r_in', 3.0),
         ('C', 'v', 'B', 'r_in', 1.25),
         ('A', 'v', 'B', 'u_in', 1.5),
         ('C', 'v', 'A', 'u_in', 0.5),
         ('C', 'v', 'A', 'u_in', 0.75)]


def build():
    op = OperatorTemplate(name='op1', path=None,
                          equations=["d/dt * v = -a*v + r_in + b*u_in", "d/dt * w = v - c*w"],
                          variables={'v': 'output(0.1)', 'w': 'variable(0.2)',
                                     'a': PARAMS['a'], 'b': PARAMS['b'], 'c': PARAMS['c'],
                                     'r_in': f"input({DEFAULTS['r_in']})", 'u_in': f"input({DEFAULTS['u_in']})"})
    node = NodeTemplate(name='n', path=None, operators=[op])
    edges = [(f'{s}/op1/{sv}', f'{t}/op1/{tv}', None, {'weight': w}) for s, sv, t, tv, w in EDGES]
    return CircuitTemplate(name='net', nodes={n: node for n in NODES}, edges=edges)


def expected_rhs(state: dict) -> dict:
    """state: {(node, var): value}; returns {(node, var): derivative} straight from the equations and edge list."""
    inputs = {}
    for n in NODES:
        for iv, default in DEFAULTS.items():
            incoming = [w * state[(s, sv)] for s, sv, t, tv, w in EDGES if t == n and tv == iv]
            inputs[(n, iv)] = sum(incoming) if incoming else default
    out = {}
    for n in NODES:
        v, w = state[(n, 'v')], state[(n, 'w')]
        out[(n, 'v')] = -PARAMS['a'] * v + inputs[(n, 'r_in')] + PARAMS['b'] * inputs[(n, 'u_in')]
        out[(n, 'w')] = v - PARAMS['c'] * w
    return out


def positions(circuit, smap, vectorize):
    """Position of every state variable in the state vector, as reported by PyRates."""
    pos = {}
    for n in NODES:
        for var in ('v', 'w'):
            key = f'{n}/op1/{var}'
            if vectorize:
                idx_map, _ = circuit.get_variable_positions({'k': key})
                idx = np.atleast_1d(idx_map['k'])
            else:
                idx = np.atleast_1d(smap[key])
            assert idx.size == 1, (key, idx)
            pos[(n, var)] = int(idx[0])
    assert sorted(pos.values()) == list(range(2 * len(NODES))), pos
    return pos


def check(vectorize: bool, rng) -> float:
    clear_frontend_caches()
    circuit = build()
    func, args, names, smap = circuit.get_run_func('vf', step_size=1e-3, backend='default', vectorize=vectorize,
                                                   verbose=False, clear=False, solver='scipy',
                                                   float_precision='float64')
    pos = positions(circuit, smap, vectorize)
    worst = 0.0
    for _ in range(5):
        y = rng.uniform(-2.0, 2.0, size=len(pos))
        state = {key: y[i] for key, i in pos.items()}
        dy = np.array(func(0.0, y.copy(), np.zeros_like(y), *args[3:]), dtype=float)
        exp = expected_rhs(state)
        for key, i in pos.items():
            worst = max(worst, abs(dy[i] - exp[key]))
    circuit.clear()
    return worst


def main():
    rng = np.random.default_rng(1)
    ok = True
    for vectorize in (False, True):
        err = check(vectorize, rng)
        print(f'vectorize={vectorize}: max |generated - expected| = {err:.3e}')
        ok = ok and err < 1e-9
    print('PASS' if ok else 'FAIL')
    sys.exit(0 if ok else 1)


if __name__ == '__main__':
    main()
