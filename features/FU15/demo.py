"""Demo for property C15 (YAML / Python / inherited definitions are equivalent; equation edits touch whole
identifiers only).

A YAML operator template `gain_op` is derived via `base:` from `base_op` with the edit `replace: {r: r*g}`.
`base_op` uses the identifiers r, rr, r_in (identifiers that contain one another). The edit must change exactly the
whole-identifier occurrences of `r` and leave `rr` and `r_in` alone.

Checks (all against independently written expectations, not against recorded output):
 1. the equations of the derived template equal the hand-substituted equations,
 2. the derived YAML model, the same model written by hand with the Python classes, and a plain numpy Euler
    integration of the hand-derived ODE give the same trajectories.
"""
import os
import sys
import shutil

ROOT = os.path.dirname(os.path.dirname(os.path.abspath(__file__)))
sys.path.insert(0, ROOT)

import numpy as np
import pyrates

assert os.path.abspath(pyrates.__file__).startswith(ROOT + os.sep), pyrates.__file__

from pyrates import CircuitTemplate, NodeTemplate, OperatorTemplate, clear, clear_frontend_caches

WORK = os.path.join(ROOT, ".scratch", "demo_work")
shutil.rmtree(WORK, ignore_errors=True)
os.makedirs(WORK)
os.chdir(WORK)

YAML = """
base_op:
  base: OperatorTemplate
  equations:
    - "r' = (r_in - r + k*rr) / tau"
    - "rr' = (r - rr) / tau2"
  variables:
    r: output(0.2)
    rr: variable(0.1)
    r_in: input(0.0)
    k: 0.5
    tau: 1.0
    tau2: 2.0

gain_op:
  base: base_op
  equations:
    replace:
      r: r*g
  variables:
    g: 2.0

gain_pop:
  base: NodeTemplate
  operators:
    - gain_op

gain_net:
  base: CircuitTemplate
  nodes:
    p: gain_pop
  edges:
    - [p/gain_op/r, p/gain_op/r_in, null, {weight: 0.8}]
"""
with open(os.path.join(WORK, "gain_model.yaml"), "w") as f:
    f.write(YAML)

failures = []

# hand-substituted equations: every whole identifier `r` on the right-hand sides -> `r*g`; rr, r_in untouched
expected_eqs = ["r' = (r_in - r*g + k*rr) / tau",
                "rr' = (r*g - rr) / tau2"]

# 1. equations of the derived template
#######################################
clear_frontend_caches()
op = OperatorTemplate.from_yaml(os.path.join(WORK, "gain_model", "gain_op"))
got_eqs = list(op.equations)
print("derived equations :", got_eqs)
print("expected equations:", expected_eqs)
if got_eqs != expected_eqs:
    failures.append("derived equations differ from the hand-substituted ones")
for v in ("r", "rr", "r_in", "k", "tau", "tau2", "g"):
    if v not in op.variables:
        failures.append(f"variable {v} missing on derived template")

# 2. dynamics: YAML (inherited) vs Python classes vs plain numpy
################################################################
T, dt = 5.0, 1e-3
w, k, tau, tau2, g = 0.8, 0.5, 1.0, 2.0, 2.0


def simulate(circuit, opname):
    res = circuit.run(simulation_time=T, step_size=dt, sampling_step_size=dt, solver='euler', backend='default',
                      outputs={'r': f'p/{opname}/r', 'rr': f'p/{opname}/rr'}, verbose=False, clear=True, float_precision='float64')
    clear(circuit)
    return np.asarray(res['r']).squeeze(), np.asarray(res['rr']).squeeze()


try:
    net_yaml = CircuitTemplate.from_yaml(os.path.join(WORK, "gain_model", "gain_net"))
    r_y, rr_y = simulate(net_yaml, "gain_op")

    clear_frontend_caches()
    op_py = OperatorTemplate(name='gain_op_py', equations=expected_eqs,
                             variables={'r': 'output(0.2)', 'rr': 'variable(0.1)', 'r_in': 'input(0.0)',
                                        'k': k, 'tau': tau, 'tau2': tau2, 'g': g})
    node_py = NodeTemplate(name='gain_pop_py', operators=[op_py])
    net_py = CircuitTemplate(name='gain_net_py', nodes={'p': node_py},
                             edges=[('p/gain_op_py/r', 'p/gain_op_py/r_in', None, {'weight': w})])
    r_p, rr_p = simulate(net_py, "gain_op_py")

    # plain numpy forward Euler of the hand-derived ODE
    n = len(r_y)
    r_n, rr_n = np.zeros(n), np.zeros(n)
    r, rr = 0.2, 0.1
    for i in range(n):
        r_n[i], rr_n[i] = r, rr
        dr = (w*r - r*g + k*rr) / tau
        drr = (r*g - rr) / tau2
        r, rr = r + dt*dr, rr + dt*drr
    # allow for an offset of one sample in what the recording stores
    def err(a, b):
        return min(np.max(np.abs(a - b)), np.max(np.abs(a[1:] - b[:-1])), np.max(np.abs(a[:-1] - b[1:])))

    e_yp = max(np.max(np.abs(r_y - r_p)), np.max(np.abs(rr_y - rr_p)))
    e_yn = max(err(r_y, r_n), err(rr_y, rr_n))
    e_pn = max(err(r_p, r_n), err(rr_p, rr_n))
    print(f"max |yaml - python| = {e_yp:.3e}, max |yaml - numpy| = {e_yn:.3e}, max |python - numpy| = {e_pn:.3e}")
    if e_pn > 1e-9:
        failures.append("python-frontend model does not match the numpy reference (demo problem)")
    if e_yp > 1e-9:
        failures.append("inherited YAML model and Python model have different dynamics")
    if e_yn > 1e-9:
        failures.append("inherited YAML model does not match the numpy reference")
except Exception as e:  # the derived model must at least compile and run
    failures.append(f"simulation raised {type(e).__name__}: {e}")

os.chdir(ROOT)
shutil.rmtree(WORK, ignore_errors=True)

if failures:
    for f_ in failures:
        print("  -", f_)
    print("FAIL")
    sys.exit(1)
print("PASS")
sys.exit(0)
