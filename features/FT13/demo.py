"""Demo for property C13 (results do not depend on what the process did before).

A circuit template `variant` is derived from `base` (they share the node template objects, as all derived
templates do). Afterwards the process goes on working with `base` (another update_var, a simulation with clear=True).
None of that may change what `variant` computes: its decay rate was k=2 when it was derived.
The expected trajectories are computed here in closed form (forward Euler of dx/dt = -k*x is x_n = (1-k*dt)^n).
"""
import os
import sys

ROOT = os.path.dirname(os.path.dirname(os.path.abspath(__file__)))
sys.path.insert(0, ROOT)
os.chdir(ROOT)

import numpy as np
import pyrates
assert os.path.abspath(pyrates.__file__).startswith(ROOT + os.sep), pyrates.__file__
from pyrates.frontend import CircuitTemplate, NodeTemplate, OperatorTemplate

T, dt = 1.0, 1e-2
n_steps = int(round(T / dt))


def euler_decay(k, x0=1.0):
    return x0 * (1.0 - k * dt) ** np.arange(n_steps)


def simulate(circuit):
    res = circuit.run(simulation_time=T, step_size=dt, outputs={'x': 'p/decay_op/x'}, solver='euler',
                      verbose=False, clear=True, in_place=False)
    return np.asarray(res['x'].values, dtype=float).squeeze()


failures = []


def check(name, got, k):
    expected = euler_decay(k)
    ok = got.shape == expected.shape and np.allclose(got, expected, rtol=1e-4, atol=1e-6)
    print(f"{name}: expected decay rate k={k}, x(T) expected {expected[-1]:.6f}, got {got[-1]:.6f} "
          f"-> {'ok' if ok else 'MISMATCH'}")
    if not ok:
        failures.append(name)


op = OperatorTemplate(name='decay_op', path='none', equations=["d/dt * x = -k*x"],
                      variables={'x': 'output(1.0)', 'k': 1.0})
node = NodeTemplate(name='decay_node', path='none', operators=[op])
base = CircuitTemplate(name='base', path='none', nodes={'p': node})

# (0) the untouched model, first compilation of the process
check("base, defaults", simulate(base), 1.0)

# (1) parametrize `base`, derive `variant` from it
base.update_var(node_vars={'p/decay_op/k': 2.0})
variant = base.update_template(name='variant')
check("variant, right after it was derived", simulate(variant), 2.0)

# (2) the process goes on with the *other* model ...
base.update_var(node_vars={'p/decay_op/k': 5.0})
check("base, after second update_var", simulate(base), 5.0)

# (3) ... which must not change what `variant` computes
check("variant, after base was changed", simulate(variant), 2.0)
f, args, keys, _ = variant.get_run_func('variant_rhs', step_size=dt, verbose=False, clear=True, in_place=False,
                                        backend='default', solver='euler', vectorize=False)
k_args = [float(np.squeeze(a)) for a, name in zip(args, keys) if name.split('/')[-1] == 'k']
print(f"variant, get_run_func: k in function arguments = {k_args}")
if k_args != [2.0]:
    failures.append("variant, get_run_func arguments")

# (4) the node template the user constructed himself is never written to
check("fresh circuit from the original node template", simulate(CircuitTemplate('fresh', path='none',
                                                                                nodes={'p': node})), 1.0)

if failures:
    print("FAIL:", "; ".join(failures))
    sys.exit(1)
print("PASS")
sys.exit(0)
