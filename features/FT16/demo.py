"""Demo for property C16 (Population/Connectivity == explicit node-and-edge network).

A population of rate units r_i' = (-r_i + eta_i + s_in_i) / tau is wired with weight
matrices W in which every target unit listens to exactly one source unit (one-to-one /
"labelled line" wiring), with SIGNED weights.  By the property, target_i must receive
sum_j W[i, j] * source_j, i.e. the forward-Euler trajectory must equal the one obtained
from the explicit scalar network, which is computed here independently with plain NumPy.

Two scenarios are checked:
  A) one population of 4 units, signed permutation-like 4x4 matrix (recurrent)
  B) two populations (3 source units -> 4 target units), signed non-square 4x3 matrix

Run:  cd /tmp/seed/C16g && /venv/bin/python .scratch/demo.py
"""
import os
import sys

ROOT = os.path.abspath(os.path.join(os.path.dirname(os.path.abspath(__file__)), os.pardir))
sys.path.insert(0, ROOT)

import numpy as np

import pyrates
assert os.path.abspath(pyrates.__file__).startswith(ROOT + os.sep), pyrates.__file__

from pyrates.frontend.template.operator import OperatorTemplate
from pyrates.frontend.template.node import NodeTemplate
from pyrates.frontend.template.circuit import CircuitTemplate
from pyrates.frontend.template.population import PopulationTemplate, Connectivity
from pyrates.ir.node import clear_ir_caches

dt = 1e-3
n_steps = 40
tau = 0.05


def rate_node(tag):
    op = OperatorTemplate(
        name=f'rate_op_{tag}',
        equations=["r' = (-r + eta + s_in) / tau"],
        variables={'r': 'output', 'eta': 1.0, 'tau': tau, 's_in': 'input'},
    )
    return NodeTemplate(name=f'rate_node_{tag}', operators=[op]), f'rate_op_{tag}'


def euler_reference(r0, eta, W_of, n):
    """Explicit network: unit i of population p receives sum over (q, j) of W[p<-q][i, j] * r_q[j]."""
    r = {p: np.array(v, dtype=float) for p, v in r0.items()}
    out = {p: np.zeros((n, len(v))) for p, v in r.items()}
    for k in range(n):
        for p in r:
            out[p][k] = r[p]
        s_in = {p: np.zeros_like(r[p]) for p in r}
        for (tp, sp), W in W_of.items():
            for i in range(W.shape[0]):
                for j in range(W.shape[1]):
                    if W[i, j] != 0.0:
                        s_in[tp][i] += W[i, j] * r[sp][j]   # one scalar edge per non-zero entry
        r = {p: r[p] + dt * (-r[p] + eta[p] + s_in[p]) / tau for p in r}
    return out


failures = []


def check(name, got, want):
    err = float(np.max(np.abs(got - want)))
    ok = np.allclose(got, want, rtol=1e-4, atol=1e-5)   # backend computes in float32
    print(f"  {name}: max abs deviation from explicit network = {err:.3e} -> {'ok' if ok else 'MISMATCH'}")
    if not ok:
        failures.append(name)


# ---------------------------------------------------------------- scenario A
clear_ir_caches()
node, opn = rate_node('a')
r0_a = [0.5, 1.0, 1.5, 2.0]
eta_a = [1.0, 2.0, 3.0, 4.0]
W_a = np.array([[0.0, -0.8, 0.0, 0.0],
                [0.6, 0.0, 0.0, 0.0],
                [0.0, 0.0, 0.0, -1.2],
                [0.0, 0.0, 0.9, 0.0]])
pop = PopulationTemplate(name='p', node=node, n=4, params={f'{opn}/eta': eta_a, f'{opn}/r': r0_a})
conn = Connectivity(source=f'p/{opn}/r', target=f'p/{opn}/s_in', weights=W_a.copy())
circ = CircuitTemplate(name='demo_a', populations={'p': pop}, connections=[conn])
res = circ.run(simulation_time=n_steps * dt, step_size=dt, solver='euler', outputs={'r': f'p/{opn}/r'},
               backend='default', clear=True, verbose=False)
ref = euler_reference({'p': r0_a}, {'p': np.array(eta_a)}, {('p', 'p'): W_a}, n_steps)
print("scenario A (4 units, signed one-to-one recurrent matrix)")
check('A', res['r'].values[:n_steps], ref['p'])

# ---------------------------------------------------------------- scenario B
clear_ir_caches()
node_s, op_s = rate_node('s')
node_t, op_t = rate_node('t')
r0_s, eta_s = [1.0, 2.0, 3.0], [0.5, 1.5, 2.5]
r0_t, eta_t = [0.1, 0.2, 0.3, 0.4], [1.0, 1.0, 2.0, 2.0]
W_b = np.array([[0.0, 0.0, -0.7],
                [0.4, 0.0, 0.0],
                [0.0, -1.1, 0.0],
                [0.0, 0.0, 0.5]])
src = PopulationTemplate(name='src', node=node_s, n=3, params={f'{op_s}/eta': eta_s, f'{op_s}/r': r0_s})
tgt = PopulationTemplate(name='tgt', node=node_t, n=4, params={f'{op_t}/eta': eta_t, f'{op_t}/r': r0_t})
conn = Connectivity(source=f'src/{op_s}/r', target=f'tgt/{op_t}/s_in', weights=W_b.copy())
circ = CircuitTemplate(name='demo_b', populations={'src': src, 'tgt': tgt}, connections=[conn])
res = circ.run(simulation_time=n_steps * dt, step_size=dt, solver='euler',
               outputs={'rs': f'src/{op_s}/r', 'rt': f'tgt/{op_t}/r'},
               backend='default', clear=True, verbose=False)
ref = euler_reference({'src': r0_s, 'tgt': r0_t}, {'src': np.array(eta_s), 'tgt': np.array(eta_t)},
                      {('tgt', 'src'): W_b}, n_steps)
print("scenario B (3 -> 4 units, signed non-square one-to-one matrix)")
check('B/source', res['rs'].values[:n_steps], ref['src'])
check('B/target', res['rt'].values[:n_steps], ref['tgt'])

if failures:
    print("FAIL", failures)
    sys.exit(1)
print("PASS")
sys.exit(0)
