"""Demo for property C02 (all backends compute the same function / same trajectories).

For every solver name the torch backend DECLARES as supported (``TorchBackend.SUPPORTED_SOLVERS``) the
trajectory of a small nonlinear model (van der Pol oscillator) simulated on the torch backend is compared
with an independently hand-written integrator of the same scheme (plain numpy, equations typed in by hand),
and with the default (numpy) backend where it supports the same solver.
The default vector-field convention (in-place buffer argument) is used.
"""
import os
import sys

ROOT = os.path.dirname(os.path.dirname(os.path.abspath(__file__)))
sys.path.insert(0, ROOT)
os.chdir(os.path.join(ROOT, '.scratch'))

import numpy as np
import pyrates
assert os.path.abspath(pyrates.__file__).startswith(ROOT + os.sep), pyrates.__file__

from pyrates import OperatorTemplate, NodeTemplate, CircuitTemplate, clear
from pyrates.backend.torch.torch_backend import TorchBackend

MU, X0, Z0 = 1.5, 1.0, 0.5
T, DT = 2.0, 0.05


def rhs(y):
    x, z = y
    return np.array([z, MU * (1.0 - x * x) * z - x])


def reference(solver):
    """Hand-written fixed-step integrators; sample k holds the state after k steps."""
    n = int(np.round(T / DT))
    y = np.array([X0, Z0], dtype=np.float64)
    out = np.empty((n, 2))
    for i in range(n):
        out[i] = y
        k1 = rhs(y)
        if solver == 'euler':
            y = y + DT * k1
        elif solver == 'heun':
            k2 = rhs(y + DT * k1)
            y = y + 0.5 * DT * (k1 + k2)
        else:
            raise ValueError(solver)
    return out


def reference_scipy():
    from scipy.integrate import solve_ivp
    n = int(np.round(T / DT))
    times = np.linspace(0.0, T, num=n, endpoint=False)
    res = solve_ivp(lambda t, y: rhs(y), (0.0, T), np.array([X0, Z0]), t_eval=times, rtol=1e-9, atol=1e-11)
    return res.y.T


def model():
    op = OperatorTemplate(name='vdp', path=None,
                          equations=["d/dt * x = z", "d/dt * z = mu*(1.0 - x*x)*z - x"],
                          variables={'x': f'output({X0})', 'z': f'variable({Z0})', 'mu': MU})
    node = NodeTemplate(name='n', path=None, operators=[op])
    return CircuitTemplate(name='net', path=None, nodes={'p': node})


def simulate(backend, solver, inplace, tag):
    kwargs = dict(rtol=1e-9, atol=1e-11) if solver == 'scipy' else {}
    res = model().run(simulation_time=T, step_size=DT, sampling_step_size=DT, solver=solver, backend=backend,
                      outputs={'x': 'p/vdp/x', 'z': 'p/vdp/z'}, float_precision='float64', vectorize=False,
                      inplace_vectorfield=inplace, clear=True, verbose=False, file_name=f'demo_{tag}', **kwargs)
    clear(model())
    return np.stack([res['x'].values.squeeze(), res['z'].values.squeeze()], axis=1)


failures = []
for solver in TorchBackend.SUPPORTED_SOLVERS:
    expected = reference_scipy() if solver == 'scipy' else reference(solver)
    tol = 1e-6 if solver == 'scipy' else 1e-10
    for inplace in (True,):  # default convention: vector field writes into the dy buffer argument
        for backend in ('default', 'torch'):
            tag = f"{backend}_{solver}_{'inplace' if inplace else 'returned'}"
            got = simulate(backend, solver, inplace, tag)
            err = float(np.max(np.abs(got - expected)))
            ok = got.shape == expected.shape and err < tol
            print(f"{tag:32s} max|sim - hand-written {solver}| = {err:.3e}  {'ok' if ok else 'MISMATCH'}")
            if not ok:
                failures.append(tag)

if failures:
    print("FAIL: trajectories differ from the declared-supported solver's scheme for", failures)
    sys.exit(1)
print("PASS")
sys.exit(0)
