"""Property C19: DDEHistory returns the piecewise-linear interpolant of what it was given.

Drives DDEHistory with update/query sequences (queries interleaved with updates, several
growth events, different state shapes / dtypes) and compares every answer with a reference
that is computed independently from the plain list of (t_i, y_i) records the script keeps.
"""
import os
import sys

ROOT = os.path.dirname(os.path.dirname(os.path.abspath(__file__)))
sys.path.insert(0, ROOT)

import numpy as np
import pyrates

assert os.path.abspath(pyrates.__file__).startswith(ROOT + os.sep), pyrates.__file__

from pyrates.backend.base.base_backend import DDEHistory

failures = []


def reference(ts, ys, t):
    """Piecewise-linear interpolant of the records (ts, ys), clamped at both ends."""
    if t <= ts[0]:
        return ys[0]
    if t >= ts[-1]:
        return ys[-1]
    for i in range(len(ts) - 1, -1, -1):     # plain scan, no bisect
        if ts[i] <= t:
            break
    if ts[i] == t:
        return ys[i]
    w = (t - ts[i]) / (ts[i + 1] - ts[i])
    return (1.0 - w) * ys[i] + w * ys[i + 1]


def check(tag, hist, ts, ys, t):
    got = np.array(hist(t))
    exp = np.asarray(reference(ts, ys, t))
    if got.shape != exp.shape:
        failures.append(f"{tag}: query t={t!r} (n={len(ts)}): shape {got.shape} != {exp.shape}")
        return
    tol = 1e-4 if exp.dtype in (np.float32, np.complex64) else 1e-10
    if not np.allclose(got, exp, rtol=tol, atol=tol):
        failures.append(f"{tag}: query t={t!r} with {len(ts)} records "
                        f"(last record at t={ts[-1]!r}): got {got.ravel()[:3]}, expected {exp.ravel()[:3]}")


def scenario(tag, shape, dtype, n_updates, seed, t0=0.0):
    rng = np.random.default_rng(seed)

    def draw():
        y = rng.normal(size=shape)
        if np.issubdtype(dtype, np.complexfloating):
            y = y + 1j * rng.normal(size=shape)
        return np.asarray(y, dtype=dtype)

    y0 = draw()
    hist = DDEHistory(y0.copy(), t0=t0)
    ts, ys = [float(t0)], [y0.copy()]
    t = float(t0)
    buf = draw()                                   # caller's array, re-used for every update
    for k in range(n_updates):
        # a few queries before the next update: interior, exactly on a record, before the
        # start, and "ahead" of the newest record (the solver's stage times lie there)
        ahead = ts[-1] + 0.4 * rng.uniform(0.1, 1.0)
        probe = [rng.uniform(ts[0] - 1.0, ts[-1]), ts[int(rng.integers(len(ts)))], ahead]
        if k % 7 == 0:
            for tq in probe:
                check(tag, hist, ts, ys, tq)
        # next record
        t += rng.uniform(0.1, 1.0)
        buf[...] = draw()
        hist.update(t, buf)
        ts.append(t)
        ys.append(buf.copy())
        buf[...] = 12345.0                         # caller re-uses its array: must not matter
        # the same time points again, now that one more record exists
        if k % 7 == 0:
            for tq in reversed(probe):
                check(tag, hist, ts, ys, tq)
    # final sweep over everything that was stored (survives growth, exact at the records)
    for i in range(0, len(ts), 13):
        got = np.array(hist(ts[i]))
        if not np.array_equal(got, ys[i]):
            failures.append(f"{tag}: record {i} not returned exactly at its own time stamp")
            break
    check(tag, hist, ts, ys, ts[-1] + 5.0)
    check(tag, hist, ts, ys, ts[0] - 5.0)


# 1. the minimal hand-written case: query ahead of the newest record, add a record, ask again
h = DDEHistory(np.array([0.0, 10.0]), t0=0.0)
h.update(1.0, np.array([1.0, 20.0]))
first = np.array(h(1.5))                           # beyond the last record -> y_last
h.update(2.0, np.array([3.0, 40.0]))
second = np.array(h(1.5))                          # now half-way between the records at 1 and 2
if not np.array_equal(first, [1.0, 20.0]):
    failures.append(f"hand case: h(1.5) with last record at t=1 gave {first}, expected [1, 20]")
if not np.allclose(second, [2.0, 30.0]):
    failures.append(f"hand case: h(1.5) between records (1,[1,20]) and (2,[3,40]) gave {second}, "
                    f"expected [2, 30]")

# 2. randomised sequences, several growth events (initial capacity is 1024)
scenario("float64 vector", (3,), np.float64, 4500, seed=1)
scenario("float32 vector", (5,), np.float32, 2300, seed=2, t0=-3.0)
scenario("complex128 vector", (2,), np.complex128, 2300, seed=3)
scenario("float64 matrix state", (2, 3), np.float64, 1200, seed=4, t0=2.5)
scenario("scalar state", (), np.float64, 1200, seed=5)

# 3. bounded history refuses updates beyond its capacity
hb = DDEHistory(np.zeros(2), t0=0.0, max_steps=4)
for k in range(1, 4):
    hb.update(float(k), np.full(2, float(k)))
try:
    hb.update(4.0, np.full(2, 4.0))
    failures.append("bounded history accepted an update beyond max_steps")
except IndexError:
    pass
for k in range(4):
    if not np.array_equal(np.array(hb(float(k))), np.full(2, float(k))):
        failures.append(f"bounded history: record {k} altered after the refused update")

if failures:
    print("FAIL")
    for f in failures[:8]:
        print("  -", f)
    print(f"  ({len(failures)} mismatches in total)")
    sys.exit(1)
print("PASS")
sys.exit(0)
