"""Demo for property C10: delayed terms read the true past of the trajectory.

Model:  x' = -x(t - d),  x(t) = 1 for t <= 0,  d = 1.5707 (close to pi/2 -> a sustained oscillation of O(1) amplitude)
Solver: fixed-step forward Euler (dt = 1e-3) over a LONG run (T = 104, i.e. 104000 steps).

Expected value: an independent numpy re-implementation of the same Euler scheme for the delay equation, where the
delayed value x(t_i - d) is read from the computed trajectory (linear interpolation between grid points) and from the
constant pre-history for t_i - d <= 0.
"""
import sys
import os
import warnings

ROOT = os.path.dirname(os.path.dirname(os.path.abspath(__file__)))
sys.path.insert(0, ROOT)
os.chdir(os.path.join(ROOT, '.scratch'))
warnings.filterwarnings('ignore')

import numpy as np
import pyrates
assert os.path.abspath(pyrates.__file__).startswith(ROOT + os.sep), pyrates.__file__
from pyrates import OperatorTemplate, NodeTemplate, CircuitTemplate

d, dt, T = 1.5707, 1e-3, 108.0
n = int(round(T / dt))

# ---- independent reference -------------------------------------------------------------------------------------
x_ref = np.empty(n + 1)
x_ref[0] = 1.0
for i in range(n):
    s = (i * dt - d) / dt          # position of t_i - d on the grid (in steps)
    if s <= 0:
        xd = 1.0                    # constant pre-history
    else:
        k = int(np.floor(s))
        a = s - k
        xd = x_ref[k] + a * (x_ref[k + 1] - x_ref[k])
    x_ref[i + 1] = x_ref[i] - dt * xd
x_ref = x_ref[:n]

# ---- PyRates ---------------------------------------------------------------------------------------------------
op = OperatorTemplate(name='op_dde', equations=["x' = -x(t-d)"], variables={'x': 'output(1.0)', 'd': d})
node = NodeTemplate(name='pop_dde', operators=[op])
net = CircuitTemplate(name='net_dde', nodes={'p1': node})
res = net.run(simulation_time=T, step_size=dt, solver='euler', outputs={'x': 'p1/op_dde/x'}, clear=True,
              vectorize=False, file_name='demo_dde', verbose=False, float_precision='float64')
x = np.asarray(res['x'].values).squeeze()

ok = True
if x.shape != x_ref.shape:
    print('unexpected shape', x.shape, x_ref.shape)
    ok = False
else:
    for lo, hi in [(0, 50000), (50000, 99000), (99000, 101000), (101000, n)]:
        err = np.max(np.abs(x[lo:hi] - x_ref[lo:hi]))
        print(f"t in [{lo*dt:7.2f}, {hi*dt:7.2f}): max |x - x_ref| = {err:.3e}   (max |x_ref| = "
              f"{np.max(np.abs(x_ref[lo:hi])):.3f})")
        if not err < 1e-6:
            ok = False

print('PASS' if ok else 'FAIL')
sys.exit(0 if ok else 1)
