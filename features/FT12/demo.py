"""Demo for property C12: get_jacobian_func(sparse=True) must return the same matrices as the dense call,
i.e. the partial derivatives of the get_run_func vector field w.r.t. the state (J0) and w.r.t. the state delayed by
each distinct delay (history Jacobians).

Model: three scalar state variables (state order z, w, u).  The equation of `w` contains the product of two delayed
inputs, z(t-0.2) * w(t-0.2) (two edges with the same delay), the equation of `u` contains z * u(t-0.4).
The expected matrices are computed independently by central finite differences of the run function, where the
history callable is replaced by a stub that returns a freely chosen delayed state per delay.

Run:  cd /tmp/seed/C12g && /venv/bin/python .scratch/demo.py
"""
import os
import sys
import warnings

ROOT = os.path.dirname(os.path.dirname(os.path.abspath(__file__)))
sys.path.insert(0, ROOT)
warnings.filterwarnings('ignore')

import numpy as np
import pyrates

assert os.path.abspath(pyrates.__file__).startswith(ROOT + os.sep), pyrates.__file__

from pyrates import CircuitTemplate, OperatorTemplate, NodeTemplate
from pyrates.ir.node import clear_ir_caches

WORK = os.path.join(ROOT, '.scratch', 'demo_build')
os.makedirs(WORK, exist_ok=True)
os.chdir(WORK)

T0 = 1.0
DELAYS = (0.2, 0.4)


def build(sfx):
    op = OperatorTemplate(
        name=f'op_{sfx}',
        equations=[
            "z' = -z/tau + tanh(u*w)",
            "w' = -w + a*u + i1*i2",
            "u' = -u + sigmoid(a*w) + z*i3",
        ],
        variables={'u': 'variable(0.1)', 'w': 'variable(0.2)', 'z': 'output(0.3)', 'a': 1.5, 'tau': 2.0,
                   'i1': 'input(0.0)', 'i2': 'input(0.0)', 'i3': 'input(0.0)'},
    )
    node = NodeTemplate(name=f'n_{sfx}', operators=[op])
    return CircuitTemplate(
        name=f'c_{sfx}', nodes={'p': node},
        edges=[(f'p/op_{sfx}/z', f'p/op_{sfx}/i1', None, {'weight': 0.5, 'delay': DELAYS[0]}),
               (f'p/op_{sfx}/w', f'p/op_{sfx}/i2', None, {'weight': 0.8, 'delay': DELAYS[0]}),
               (f'p/op_{sfx}/u', f'p/op_{sfx}/i3', None, {'weight': 1.3, 'delay': DELAYS[1]})])


class StubHistory:
    """hist(s) returns the delayed state vector chosen for the delay T0 - s."""

    def __init__(self, delayed):
        self.delayed = delayed

    def __call__(self, s):
        tau = T0 - float(s)
        key = min(self.delayed, key=lambda d: abs(d - tau))
        assert abs(key - tau) < 1e-9, (tau, key)
        return self.delayed[key]


def get_run(sfx):
    func, args, names, idx = build(sfx).get_run_func(
        func_name=f'run_{sfx}', file_name=f'run_{sfx}', step_size=1e-3, solver='scipy', in_place=False, clear=False,
        vectorize=False, verbose=False, float_precision='float64')
    clear_ir_caches()
    return func, args, names, idx


def get_jac(sfx, sparse):
    func, args, names, idx = build(sfx).get_jacobian_func(
        func_name=f'jac_{sfx}', file_name=f'jac_{sfx}', step_size=1e-3, solver='scipy', in_place=False, clear=False,
        vectorize=False, verbose=False, float_precision='float64', sparse=sparse)
    clear_ir_caches()
    return func, args, names, idx


def main():
    rng = np.random.RandomState(12)
    run, rargs, rnames, ridx = get_run('r')
    assert rnames[:4] == ('t', 'y', 'hist', 'dy'), rnames
    n = len(rargs[1])
    y = rng.uniform(0.2, 1.0, n)
    yd = {d: rng.uniform(0.2, 1.0, n) for d in DELAYS}
    rpar = rargs[4:]

    def f(y_, yd_):
        dy = np.zeros(n)
        return np.array(run(T0, y_, StubHistory(yd_), dy, *rpar), dtype=float).copy()

    eps = 1e-6
    J0_fd = np.zeros((n, n))
    Jh_fd = {d: np.zeros((n, n)) for d in DELAYS}
    for j in range(n):
        e = np.zeros(n)
        e[j] = eps
        J0_fd[:, j] = (f(y + e, yd) - f(y - e, yd)) / (2 * eps)
        for d in DELAYS:
            yp = dict(yd)
            ym = dict(yd)
            yp[d] = yd[d] + e
            ym[d] = yd[d] - e
            Jh_fd[d][:, j] = (f(y, yp) - f(y, ym)) / (2 * eps)
    # sanity: the model really has two non-zero entries in one row of the history Jacobian of delay 0.2
    assert np.count_nonzero(np.abs(Jh_fd[DELAYS[0]]) > 1e-8) == 2

    ok = True
    for sparse in (False, True):
        sfx = 's' if sparse else 'd'
        jac, jargs, jnames, jidx = get_jac(sfx, sparse)
        assert jnames[:3] == ('t', 'y', 'hist'), jnames
        assert list(jidx.values()) == list(ridx.values())
        J0, Jh = jac(T0, y, StubHistory(yd), *jargs[3:])
        if sparse:
            from scipy.sparse import issparse
            assert issparse(J0) and all(issparse(m) for m in Jh)
            J0, Jh = J0.toarray(), [m.toarray() for m in Jh]
        J0 = np.asarray(J0, dtype=float)
        Jh = [np.asarray(m, dtype=float) for m in Jh]
        good = np.allclose(J0, J0_fd, atol=1e-6)
        if not good:
            print(f'sparse={sparse}: J0 differs from finite differences\n{J0}\n{J0_fd}')
        # each expected history Jacobian must be matched by exactly one returned matrix
        if len(Jh) != len(DELAYS):
            good = False
            print(f'sparse={sparse}: {len(Jh)} history matrices for {len(DELAYS)} delays')
        remaining = list(Jh)
        for d in DELAYS:
            hit = [k for k, m in enumerate(remaining) if np.allclose(m, Jh_fd[d], atol=1e-6)]
            if hit:
                remaining.pop(hit[0])
            else:
                good = False
                print(f'sparse={sparse}: no returned history Jacobian equals d f / d y(t-{d}); expected\n{Jh_fd[d]}\n'
                      f'returned\n' + '\n'.join(str(m) for m in Jh))
        print(f'sparse={sparse}: {"ok" if good else "MISMATCH"}')
        ok = ok and good

    if ok:
        print('PASS')
        return 0
    print('FAIL')
    return 1


if __name__ == '__main__':
    sys.exit(main())
