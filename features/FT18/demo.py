"""Demonstration for property C18 (auto-07p export addresses every parameter and state consistently).

Two scalar models with the SAME equations and the same 12 parameters are exported for auto-07p one after the other
from one Python session.  They differ only in the declaration order of their parameters (model B declares them in a
rotated/reversed order), so the same parameter lives in a different PAR slot in each export.

For each export the script reads the generated Fortran source and the c.* files and checks, against values computed
independently here (hand-written vector field + finite differences), that
  * parnames follow the declaration order, slots are distinct and avoid PAR(11..14),
  * STPNT initialises every slot with the declared value of the parameter that parnames puts there,
  * the `call vfx(...)` line forwards the slots in the order of the subroutine signature,
  * NDIM / NPAR match,
  * the exported vector field equals the model's,
  * the DFDU / DFDP entries (with args(k) := value of the parameter that parnames puts in slot k) equal the
    Jacobians of the model's vector field.

No Fortran compilation is needed: the f2py call is stubbed out, the files are written before it.
"""
import sys
import os
import re
import ast
import math
import types
import shutil
import tempfile

ROOT = os.path.abspath(os.path.join(os.path.dirname(os.path.abspath(__file__)), '..'))
sys.path.insert(0, ROOT)

import pyrates  # noqa: E402

assert os.path.abspath(pyrates.__file__).startswith(ROOT + os.sep), pyrates.__file__

from pyrates import CircuitTemplate, OperatorTemplate, NodeTemplate  # noqa: E402
from pyrates.backend.fortran import fortran_backend as fb  # noqa: E402

# stub out the f2py build (slow, and meson is not on PATH); the .f90 and c.* files are written before that call
fb.subprocess.run = lambda *a, **k: types.SimpleNamespace(returncode=0, stdout='', stderr='')

# ----------------------------------------------------------------------------------------------------------------
# the model (independent reference implementation)
# ----------------------------------------------------------------------------------------------------------------

EQUATIONS = [
    "x1' = p12*p3*x2 - p1*x1 + p7*x3*x3 + p10",
    "x2' = p5*x1 - p2*p11*x2 + p8*x3",
    "x3' = p9*p4*x1*x2 - p6*x3",
]
PVALS = {'p1': 0.5, 'p2': 1.25, 'p3': -0.75, 'p4': 2.0, 'p5': 0.3, 'p6': 1.5, 'p7': -0.4, 'p8': 0.9,
         'p9': 1.1, 'p10': 0.2, 'p11': -1.3, 'p12': 0.6}
X0 = {'x1': 0.3, 'x2': -0.7, 'x3': 0.45}
NAMES = [f'p{i}' for i in range(1, 13)]


def vf(x, p):
    """The model's vector field, written by hand from EQUATIONS; x, p are dicts by name."""
    return {
        'x1': p['p12'] * p['p3'] * x['x2'] - p['p1'] * x['x1'] + p['p7'] * x['x3'] * x['x3'] + p['p10'],
        'x2': p['p5'] * x['x1'] - p['p2'] * p['p11'] * x['x2'] + p['p8'] * x['x3'],
        'x3': p['p9'] * p['p4'] * x['x1'] * x['x2'] - p['p6'] * x['x3'],
    }


def fd(fun_of_value, v, h=1e-5):
    """central finite difference of a dict-valued function of one scalar"""
    hi, lo = fun_of_value(v + h), fun_of_value(v - h)
    return {k: (hi[k] - lo[k]) / (2 * h) for k in hi}


# ----------------------------------------------------------------------------------------------------------------
# export
# ----------------------------------------------------------------------------------------------------------------

def export(order, tag, workdir):
    variables = {'x1': f"output({X0['x1']})", 'x2': f"variable({X0['x2']})", 'x3': f"variable({X0['x3']})"}
    for n in order:
        variables[n] = PVALS[n]
    op = OperatorTemplate(name=f'op_{tag}', equations=list(EQUATIONS), variables=variables, path=None)
    node = NodeTemplate(name=f'node_{tag}', operators=[op], path=None)
    net = CircuitTemplate(name=f'net_{tag}', nodes={'p': node})
    d = os.path.join(workdir, tag)
    os.makedirs(d)
    cwd = os.getcwd()
    os.chdir(d)
    try:
        try:
            net.get_run_func('vfx', step_size=1e-3, file_name=f'mod_{tag}', backend='fortran',
                             float_precision='float64', auto=True, vectorize=False, solver='scipy',
                             auto_constants=('ivp', 'eq'), NMX=123, verbose=False)
        except ImportError:
            pass  # the (stubbed) f2py build produced no module to import -- expected
        src = open(f'mod_{tag}.f90').read()
        consts = {f[2:]: open(f).read() for f in os.listdir('.') if f.startswith('c.')}
    finally:
        os.chdir(cwd)
    return src, consts


# ----------------------------------------------------------------------------------------------------------------
# checks
# ----------------------------------------------------------------------------------------------------------------

def fortran_to_py(expr):
    expr = re.sub(r'(\d+\.?\d*)[dD]([+-]?\d+)', r'\1e\2', expr)
    expr = re.sub(r'\bargs\((\d+)\)', r'A[\1]', expr)
    expr = re.sub(r'\by\((\d+)\)', r'Y[\1]', expr)
    return expr


def check(tag, order, src, consts):
    errs = []
    src = re.sub(r'&\s*\n\s*&\s?', '', src)  # undo Fortran line continuations

    # --- c.* files -------------------------------------------------------------------------------------------
    if sorted(consts) != ['eq', 'ivp']:
        errs.append(f'c.* files: {sorted(consts)}')
    parsed = {}
    for scen, text in consts.items():
        entries = {}
        for line in text.splitlines():
            k, v = line.split('=', 1)
            entries[k.strip()] = ast.literal_eval(v.strip())
        parsed[scen] = entries
    parnames = parsed['eq']['parnames']
    unames = parsed['eq']['unames']
    for scen, entries in parsed.items():
        if entries['parnames'] != parnames or entries['unames'] != unames:
            errs.append(f'c.{scen}: parnames/unames differ between scenarios')
        if entries['NDIM'] != 3:
            errs.append(f"c.{scen}: NDIM={entries['NDIM']}")
        if entries['NPAR'] != max(parnames):
            errs.append(f"c.{scen}: NPAR={entries['NPAR']} but highest slot is {max(parnames)}")
        if entries['NMX'] != 123:
            errs.append(f"c.{scen}: NMX override lost")
    slots = sorted(parnames)
    if [parnames[s] for s in slots] != list(order):
        errs.append(f'parnames not in declaration order: {parnames}')
    if len(set(parnames.values())) != 12 or any(11 <= s <= 14 for s in slots):
        errs.append(f'bad slots: {slots}')
    if sorted(unames.values()) != ['x1', 'x2', 'x3'] or sorted(unames) != [1, 2, 3]:
        errs.append(f'unames: {unames}')
        return errs

    # --- STPNT -----------------------------------------------------------------------------------------------
    stpnt = src[src.index('subroutine stpnt'):src.index('end subroutine stpnt')]
    seen = {}
    for k, val, name in re.findall(r'args\((\d+)\) = (\S+)\s+! (\w+)', stpnt):
        seen[int(k)] = (float(val), name)
    for s in slots:
        if s not in seen or seen[s][1] != parnames[s] or abs(seen[s][0] - PVALS[parnames[s]]) > 1e-12:
            errs.append(f'stpnt: slot {s} -> {seen.get(s)}, expected {parnames[s]}={PVALS[parnames[s]]}')
    if sorted(seen) != slots:
        errs.append(f'stpnt initialises slots {sorted(seen)}')
    for i, val, name in re.findall(r'y\((\d+)\) = (\S+)\s+! (\w+)', stpnt):
        if unames[int(i)] != name or abs(float(val) - X0[name]) > 1e-12:
            errs.append(f'stpnt: y({i}) = {val} ! {name}')

    # --- subroutine signature vs forwarding call ---------------------------------------------------------------
    sig = re.search(r'subroutine vfx\(([^)]*)\)', src).group(1).replace(' ', '').split(',')
    call = re.search(r'call vfx\((.*)\)\s*\n', src).group(1).replace(' ', '').split(',')
    if sig[:3] != ['t', 'y', 'dy'] or call[:3] != ['args(14)', 'y', 'dy'] or len(sig) != len(call):
        errs.append(f'signature {sig} / call {call}')
    else:
        for formal, actual in zip(sig[3:], call[3:]):
            s = int(re.fullmatch(r'args\((\d+)\)', actual).group(1))
            if parnames.get(s) != formal:
                errs.append(f'call forwards PAR({s}) [{parnames.get(s)}] to dummy argument {formal}')

    # --- exported vector field -------------------------------------------------------------------------------
    xt = {'x1': 0.37, 'x2': -0.21, 'x3': 0.83}           # test point (by state name)
    Y = {i: xt[n] for i, n in unames.items()}
    body = src[src.index('subroutine vfx'):src.index('end subroutine')]
    ns = dict(PVALS)
    ns.update({'Y': Y, 'DY': {}})
    for line in body.splitlines():
        line = line.strip()
        m = re.fullmatch(r'(\w+) = y\((\d+)\)', line)
        if m:
            ns[m.group(1)] = Y[int(m.group(2))]
        m = re.fullmatch(r'dy\((\d+)\) = (.*)', line)
        if m:
            ns['DY'][int(m.group(1))] = eval(fortran_to_py(m.group(2)), {'__builtins__': {}}, ns)
    expect = vf(xt, PVALS)
    for i, n in unames.items():
        if abs(ns['DY'].get(i, float('nan')) - expect[n]) > 1e-10:
            errs.append(f"vector field: dy({i}) [{n}] = {ns['DY'].get(i)}, expected {expect[n]}")

    # --- DFDU / DFDP -----------------------------------------------------------------------------------------
    func = src[src.index('subroutine func'):src.index('end subroutine func')]
    A = {s: PVALS[n] for s, n in parnames.items()}       # PAR vector as parnames + the model's values define it
    env = {'A': A, 'Y': Y, 'sin': math.sin, 'cos': math.cos, 'exp': math.exp}

    def entries(kind):
        out = {}
        for i, j, expr in re.findall(rf'{kind}\((\d+),(\d+)\) = (.*)', func):
            try:
                out[(int(i), int(j))] = eval(fortran_to_py(expr.strip()), {'__builtins__': {}}, env)
            except KeyError as e:
                out[(int(i), int(j))] = float('nan')
                errs.append(f'{kind}({i},{j}) = {expr.strip()}  references PAR slot {e} that holds no parameter')
        return out

    dfdu, dfdp = entries('dfdu'), entries('dfdp')
    if not dfdu or not dfdp:
        errs.append('no analytical Jacobian was exported')
    for j, nj in unames.items():
        col = fd(lambda v: vf({**xt, nj: v}, PVALS), xt[nj])
        for i, ni in unames.items():
            got = dfdu.get((i, j), 0.0)
            if not abs(got - col[ni]) < 1e-6:
                errs.append(f'dfdu({i},{j}) [d {ni}\'/d {nj}] evaluates to {got}, expected {col[ni]:.6f}')
    for s, name in parnames.items():
        col = fd(lambda v: vf(xt, {**PVALS, name: v}), PVALS[name])
        for i, ni in unames.items():
            got = dfdp.get((i, s), 0.0)
            if not abs(got - col[ni]) < 1e-6:
                errs.append(f'dfdp({i},{s}) [d {ni}\'/d {name}] evaluates to {got}, expected {col[ni]:.6f}')
    if any(k[1] not in parnames for k in dfdp):
        errs.append(f'dfdp writes columns {sorted({k[1] for k in dfdp})}')
    return errs


def main():
    os.makedirs(os.path.join(ROOT, '.scratch'), exist_ok=True)
    workdir = tempfile.mkdtemp(prefix='demo_', dir=os.path.join(ROOT, '.scratch'))
    order_a = list(NAMES)                                   # p1 .. p12
    order_b = NAMES[4:][::-1] + NAMES[:4]                   # p12 .. p5, p1 .. p4
    failures = []
    try:
        for tag, order in (('a', order_a), ('b', order_b)):  # two exports, one session
            src, consts = export(order, tag, workdir)
            errs = check(tag, order, src, consts)
            print(f'model {tag} (declaration order {" ".join(order)}): {len(errs)} problem(s)')
            for e in errs[:12]:
                print('    ', e)
            failures += errs
    finally:
        shutil.rmtree(workdir, ignore_errors=True)
    if failures:
        print('FAIL')
        return 1
    print('PASS')
    return 0


if __name__ == '__main__':
    sys.exit(main())
