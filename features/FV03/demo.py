"""C03 demo: an adaptive (scipy) run with a time-dependent input must approximate the true solution of
dx/dt = -x/tau + I(t), where I(t) is the piecewise-linear interpolant of the passed samples over [0, T]
(this is how PyRates defines a sampled input for adaptive solvers: `time = linspace(0, T, len(inp))`).
The input is sampled at k*dt for k = 0..n (n+1 samples, i.e. including the end point t=T), which makes the
interpolation grid coincide with the integration grid.  The expected value is computed independently."""
import os, sys
ROOT = os.path.dirname(os.path.dirname(os.path.abspath(__file__)))
sys.path.insert(0, ROOT)
import numpy as np
import pyrates
assert os.path.abspath(pyrates.__file__).startswith(ROOT + os.sep), pyrates.__file__
from pyrates import OperatorTemplate, NodeTemplate, CircuitTemplate, clear
from scipy.integrate import solve_ivp

T, dt, dts, tau = 2.0, 1e-2, 1e-1, 0.5
n = int(round(T / dt))


def build():
    op = OperatorTemplate(name='op', path=None, equations=["d/dt * x = -x/tau + u_in"],
                          variables={'x': 'output(0.2)', 'tau': tau, 'u_in': 'input(0.0)'})
    node = NodeTemplate(name='p', path=None, operators=[op])
    return CircuitTemplate(name='net', path=None, nodes={'p': node})


def simulate(inp, solver, **kw):
    net = build()
    res = net.run(simulation_time=T, step_size=dt, sampling_step_size=dts, solver=solver,
                  inputs={'p/op/u_in': inp}, outputs={'x': 'p/op/x'}, verbose=False, clear=True, **kw)
    clear(net)
    return res


def reference(inp, t_eval):
    grid = np.linspace(0.0, T, len(inp))
    f = lambda t, y: -y / tau + np.interp(t, grid, inp)
    sol = solve_ivp(f, (0.0, T), [0.2], t_eval=t_eval, rtol=1e-10, atol=1e-12, max_step=dt)
    return sol.y[0]


ok = True
cases = {
    'n+1 samples (end point included)': 3.0 * np.sin(2 * np.pi * 1.5 * np.arange(n + 1) * dt),
    'coarse input, 21 samples over [0, T]': 3.0 * np.sin(2 * np.pi * 1.5 * np.linspace(0, T, 21)),
    'exactly n samples': 3.0 * np.sin(2 * np.pi * 1.5 * np.arange(n) * dt),
}
for label, inp in cases.items():
    res = simulate(inp, 'scipy', method='RK45', rtol=1e-9, atol=1e-11, max_step=dt)
    times = np.asarray(res.index, dtype=float)
    got = np.asarray(res['x']).squeeze()
    exp_t = np.arange(int(round(T / dts))) * dts
    good_t = times.shape == exp_t.shape and np.allclose(times, exp_t, atol=1e-12)
    err = np.max(np.abs(got - reference(inp, times))) if good_t else np.inf
    print(f"scipy, {label}: time index ok = {good_t}, max |x - x_ref| = {err:.3e}")
    ok &= good_t and err < 1e-5

# fixed-step control: explicit Euler iterates with the same (n+1)-sample input
inp = cases['n+1 samples (end point included)']
res = simulate(inp, 'euler')
x, rows = 0.2, []
for k in range(n):
    if k % int(round(dts / dt)) == 0:
        rows.append(x)
    x = x + dt * (-x / tau + inp[k])
err = np.max(np.abs(np.asarray(res['x']).squeeze() - np.array(rows)))
print(f"euler, n+1 samples: max |x - euler iterates| = {err:.3e}")
ok &= err < 1e-5  # default backend precision is float32

print("PASS" if ok else "FAIL")
sys.exit(0 if ok else 1)
