"""Demo for property C11 (distributed delays are unit-gain gamma kernels with the stated mean).

A population `p` whose node holds two independent operators (`exc`, `inh`), each with a state variable
called `r`, projects to two target populations through two delayed Connectivity objects with the SAME
(delay, spread) pair:   p/exc/r -> q/rop/s_in   and   p/inh/r -> u/rop/s_in.
Each edge must behave as the convolution of ITS OWN source with a gamma kernel of order
n = round((d/s)^2) and stage rate n/d.  The simulated trajectories (explicit Euler) are compared against an
independently hand-written Euler integration of the explicitly augmented ODE system.
"""
import os
import sys
import warnings

ROOT = os.path.dirname(os.path.dirname(os.path.abspath(__file__)))
sys.path.insert(0, ROOT)
warnings.filterwarnings('ignore')

import numpy as np
import pyrates
assert os.path.abspath(pyrates.__file__).startswith(ROOT + os.sep), pyrates.__file__

from pyrates.frontend.template.operator import OperatorTemplate
from pyrates.frontend.template.node import NodeTemplate
from pyrates.frontend.template.circuit import CircuitTemplate
from pyrates.frontend.template.population import PopulationTemplate, Connectivity
from pyrates.ir.node import clear_ir_caches

N, T, dt = 2, 1.5, 1e-3
d, s = 0.3, 0.15                      # -> order n = 4, stage rate 4/0.3
tau_e, tau_i, tau_t = 0.2, 0.6, 0.5
eta_e, eta_i, eta_t = 1.0, -0.5, 0.2
W_q = np.array([[0.0, 0.8], [0.6, 0.0]])
W_u = np.array([[0.5, 0.0], [0.3, -0.7]])


def simulate(backend='default'):
    exc = OperatorTemplate(name='exc', equations=["r' = (-r + eta) / tau"],
                           variables={'r': 'output(0.1)', 'eta': eta_e, 'tau': tau_e})
    inh = OperatorTemplate(name='inh', equations=["r' = (-r + eta) / tau"],
                           variables={'r': 'output(0.4)', 'eta': eta_i, 'tau': tau_i})
    rop = OperatorTemplate(name='rop', equations=["r' = (-r + eta + s_in) / tau"],
                           variables={'r': 'output(0.0)', 'eta': eta_t, 'tau': tau_t, 's_in': 'input'})
    src_node = NodeTemplate(name='src_node', operators=[exc, inh])
    tgt_node = NodeTemplate(name='tgt_node', operators=[rop])
    clear_ir_caches()
    pops = {'p': PopulationTemplate(name='p', node=src_node, n=N),
            'q': PopulationTemplate(name='q', node=tgt_node, n=N),
            'u': PopulationTemplate(name='u', node=tgt_node, n=N)}
    conns = [Connectivity(source='p/exc/r', target='q/rop/s_in', weights=W_q, delays=d, spread=s),
             Connectivity(source='p/inh/r', target='u/rop/s_in', weights=W_u, delays=d, spread=s)]
    net = CircuitTemplate(name='c11_demo', populations=pops, connections=conns)
    res = net.run(simulation_time=T, step_size=dt, solver='euler', backend=backend,
                  outputs={'e': 'p/exc/r', 'i': 'p/inh/r', 'q': 'q/rop/r', 'u': 'u/rop/r'},
                  clear=True, verbose=False)
    return {k: np.asarray(res[k].values).reshape(-1, N) for k in ('e', 'i', 'q', 'u')}


def reference():
    """Explicit Euler on the hand-written augmented system (one gamma chain per edge)."""
    n = int(round((d / s) ** 2))
    a = n / d
    e, i = np.full(N, 0.1), np.full(N, 0.4)
    q, u = np.zeros(N), np.zeros(N)
    ze, zi = np.zeros((n, N)), np.zeros((n, N))
    steps = int(round(T / dt))
    out = {k: np.zeros((steps, N)) for k in ('e', 'i', 'q', 'u')}
    for k in range(steps):
        out['e'][k], out['i'][k], out['q'][k], out['u'][k] = e, i, q, u
        de, di = (-e + eta_e) / tau_e, (-i + eta_i) / tau_i
        dq = (-q + eta_t + W_q @ ze[-1]) / tau_t
        du = (-u + eta_t + W_u @ zi[-1]) / tau_t
        dze, dzi = np.empty_like(ze), np.empty_like(zi)
        dze[0], dzi[0] = a * (e - ze[0]), a * (i - zi[0])
        dze[1:], dzi[1:] = a * (ze[:-1] - ze[1:]), a * (zi[:-1] - zi[1:])
        e, i, q, u = e + dt * de, i + dt * di, q + dt * dq, u + dt * du
        ze, zi = ze + dt * dze, zi + dt * dzi
    return out


def main():
    ref = reference()
    ok = True
    for backend in ('default', 'torch'):
        sim = simulate(backend)
        for k in ('e', 'i', 'q', 'u'):
            err = float(np.max(np.abs(sim[k] - ref[k])))
            good = sim[k].shape == ref[k].shape and err < 1e-4
            print(f"backend={backend:8s} var={k}: max |pyrates - explicit augmented ODE| = {err:.3e}"
                  f" {'ok' if good else 'MISMATCH'}")
            ok = ok and good
    if ok:
        print("PASS")
        return 0
    print("FAIL")
    return 1


if __name__ == '__main__':
    sys.exit(main())
