"""Property C04 demo: vectorize=True and vectorize=False must describe the same model.

A small rate network is built from two node types (3 x 'ex', 2 x 'inh').  Every node has its own parameters.
Between some pairs of variables there is MORE THAN ONE edge (two parallel projections with different weights,
e.g. a fast and a slow pathway that were both fitted) - a legal input, the weights of parallel edges simply add up.

For random states y the derivative of every frontend variable is compared between
  (a) the vectorized model, (b) the non-vectorized model and (c) an independent numpy implementation
and a forward-Euler trajectory of (a) and (b) is compared with one of (c).
"""
import os
import sys
import warnings

ROOT = os.path.dirname(os.path.dirname(os.path.abspath(__file__)))
sys.path.insert(0, ROOT)
warnings.filterwarnings("ignore")

import numpy as np
import pyrates
from pyrates import CircuitTemplate, NodeTemplate, OperatorTemplate, clear

assert os.path.abspath(pyrates.__file__).startswith(ROOT + os.sep), pyrates.__file__

# ----------------------------------------------------------------------------------------------------------------------
# model definition
# ----------------------------------------------------------------------------------------------------------------------

ex_op = OperatorTemplate(name='ex_op', path=None,
                         equations=["d/dt * r = (eta - r + tanh(r_in)) / tau"],
                         variables={'r': 'output(0.1)', 'eta': 0.5, 'tau': 1.0, 'r_in': 'input(0.0)'})
in_op = OperatorTemplate(name='in_op', path=None,
                         equations=["d/dt * v = (mu - v*v*v + k*v_in) / tau"],
                         variables={'v': 'output(-0.2)', 'mu': 0.1, 'tau': 2.0, 'k': 1.0, 'v_in': 'input(0.0)'})
ex = NodeTemplate(name='ex', path=None, operators=[ex_op])
inh = NodeTemplate(name='inh', path=None, operators=[in_op])

EX = ['e0', 'e1', 'e2']
IN = ['i0', 'i1']
ex_par = {'e0': dict(eta=0.5, tau=1.0), 'e1': dict(eta=-0.3, tau=0.7), 'e2': dict(eta=0.9, tau=1.6)}
in_par = {'i0': dict(mu=0.1, tau=2.0, k=1.0), 'i1': dict(mu=-0.4, tau=0.9, k=0.6)}

# (source node, target node, weight); several entries for the same pair = parallel edges
EDGES = [
    ('e0', 'e1', 0.8),
    ('e0', 'e1', -0.35),     # parallel edge e0 -> e1
    ('e1', 'e2', 0.6),
    ('e2', 'e0', -0.9),
    ('e2', 'e2', 0.25),      # self connection
    ('e1', 'e0', 0.4),
    ('e0', 'i0', 1.2),
    ('e2', 'i0', -0.7),      # fan-in from several nodes
    ('e1', 'i1', 0.5),
    ('e1', 'i1', 0.45),      # parallel edge e1 -> i1
    ('i0', 'e1', -1.1),
    ('i1', 'e2', -0.6),
    ('i1', 'e2', 0.15),      # parallel edge i1 -> e2
    ('i0', 'i1', 0.3),
    ('i1', 'i0', -0.2),
]


def out_var(n):
    return f"{n}/ex_op/r" if n in EX else f"{n}/in_op/v"


def in_var(n):
    return f"{n}/ex_op/r_in" if n in EX else f"{n}/in_op/v_in"


def build():
    nodes = {n: ex for n in EX}
    nodes.update({n: inh for n in IN})
    edges = [(out_var(s), in_var(t), None, {'weight': w}) for s, t, w in EDGES]
    return CircuitTemplate(name='net', path=None, nodes=nodes, edges=edges)


NODE_VALUES = {}
for n, p in ex_par.items():
    for k, v in p.items():
        NODE_VALUES[f"{n}/ex_op/{k}"] = v
for n, p in in_par.items():
    for k, v in p.items():
        NODE_VALUES[f"{n}/in_op/{k}"] = v

ALL = EX + IN
POS = {n: i for i, n in enumerate(ALL)}
W = np.zeros((len(ALL), len(ALL)))
for s, t, w in EDGES:
    W[POS[t], POS[s]] += w


def reference_rhs(state: dict) -> dict:
    """Independent implementation: state and result are dicts {frontend variable: value}."""
    x = np.array([state[out_var(n)] for n in ALL])
    inp = W @ x
    res = {}
    for n in EX:
        p = ex_par[n]
        res[out_var(n)] = (p['eta'] - x[POS[n]] + np.tanh(inp[POS[n]])) / p['tau']
    for n in IN:
        p = in_par[n]
        res[out_var(n)] = (p['mu'] - x[POS[n]] ** 3 + p['k'] * inp[POS[n]]) / p['tau']
    return res


class Compiled:
    """Vector field of the compiled model, addressed via frontend variable names."""

    def __init__(self, vectorize: bool):
        net = build()
        func, args, arg_names, var_map = net.get_run_func(
            'rhs_vec' if vectorize else 'rhs_novec', step_size=1e-3, backend='default', solver='euler',
            vectorize=vectorize, verbose=False, clear=False, in_place=True, node_values=NODE_VALUES,
            to_file=False, float_precision='float64')
        self.func, self.args = func, args
        self.n = len(np.atleast_1d(args[1]))
        # position of every frontend state variable inside the state vector
        self.pos = {}
        for n in ALL:
            self.pos[out_var(n)] = self._position(net, var_map, out_var(n))
        assert sorted(self.pos.values()) == list(range(self.n)), self.pos
        clear(net)

    @staticmethod
    def _position(net, var_map, var):
        # frontend variable -> (backend vector, index inside that vector) -> position in the state vector
        vec_key = net._relabel_var(var, net._vectorization_labels)
        idx = np.atleast_1d(np.asarray(net._vectorization_indices[var])).astype(int)
        assert idx.size == 1, (var, idx)
        rng = var_map[vec_key]
        if isinstance(rng, (int, np.integer)):      # scalar state variable (non-vectorized model)
            assert idx[0] == 0
            return int(rng)
        start, stop = rng
        assert start + idx[0] < stop
        return int(start + idx[0])

    def rhs(self, state: dict) -> dict:
        y = np.zeros(self.n)
        for key, p in self.pos.items():
            y[p] = state[key]
        dy = np.zeros(self.n)
        out = self.func(0, y, dy, *self.args[3:])
        out = np.asarray(out, dtype=float)
        return {key: float(out[p]) for key, p in self.pos.items()}


def main() -> int:
    rng = np.random.default_rng(7)
    models = {'vectorized': Compiled(True), 'non-vectorized': Compiled(False)}
    ok = True

    # derivative at random states
    for trial in range(20):
        state = {out_var(n): float(rng.normal()) for n in ALL}
        ref = reference_rhs(state)
        for name, m in models.items():
            got = m.rhs(state)
            for key in ref:
                if not np.isclose(got[key], ref[key], rtol=1e-9, atol=1e-11):
                    if ok:
                        print(f"derivative mismatch ({name}) for {key}: got {got[key]:.12g}, expected {ref[key]:.12g}")
                    ok = False

    # forward-Euler trajectories
    dt, steps = 1e-2, 400
    init = {out_var(n): (0.1 if n in EX else -0.2) for n in ALL}
    trajs = {}
    for name, f in [('reference', reference_rhs)] + [(k, m.rhs) for k, m in models.items()]:
        s = dict(init)
        for _ in range(steps):
            d = f(s)
            s = {k: s[k] + dt * d[k] for k in s}
        trajs[name] = s
    for name in models:
        for key, v in trajs['reference'].items():
            if not np.isclose(trajs[name][key], v, rtol=1e-8, atol=1e-10):
                print(f"trajectory mismatch ({name}) for {key}: got {trajs[name][key]:.12g}, expected {v:.12g}")
                ok = False
                break

    print("PASS" if ok else "FAIL")
    return 0 if ok else 1


if __name__ == '__main__':
    sys.exit(main())
