"""Demonstration for property C06: every column returned by `CircuitTemplate.run` carries the trajectory of exactly
the node/variable named in its label - for wildcard requests at any hierarchy level, dict and list form of `outputs`,
vectorization on/off and any node declaration order.

Circuit: two sub-circuits c1, c2, each with two nodes `a` and `b`. Both node types own the operator `lin_op`
(r' = (k - r)/tau) but `b` additionally owns a second operator, so that vectorization puts all `a` nodes in one
backend variable and all `b` nodes in another one. Every node has its own `k`, hence its own known trajectory
(explicit Euler: r_n = k*(1 - (1 - dt/tau)**n)), which is what each column is compared against.
"""
import os
import sys

ROOT = os.path.dirname(os.path.dirname(os.path.abspath(__file__)))
sys.path.insert(0, ROOT)
os.chdir(ROOT)

import numpy as np
import pyrates
assert os.path.abspath(pyrates.__file__).startswith(ROOT + os.sep), pyrates.__file__
from pyrates import CircuitTemplate, NodeTemplate, OperatorTemplate, clear

TAU, DT, T = 2.0, 1e-2, 1.0
K = {'c1/a': 1.0, 'c1/b': 2.0, 'c2/a': 3.0, 'c2/b': 4.0}


def build(order=('a', 'b'), circuit_order=('c1', 'c2')):
    lin = OperatorTemplate(name='lin_op', path=None, equations=["r' = (k - r)/tau"],
                           variables={'r': 'output(0.0)', 'k': 1.0, 'tau': TAU})
    aux = OperatorTemplate(name='aux_op', path=None, equations=["x' = -x"], variables={'x': 'output(0.5)'})
    circuits = {}
    for c in circuit_order:
        nodes = {}
        for n in order:
            ops = {lin: {'k': K[f'{c}/{n}']}}
            if n == 'b':
                ops[aux] = {}
            nodes[n] = NodeTemplate(name=f'{c}_{n}', path=None, operators=ops)
        circuits[c] = CircuitTemplate(name=c, path=None, nodes=nodes)
    return CircuitTemplate(name='net', path=None, circuits=circuits)


def expected(node, n_steps):
    return K[node] * (1.0 - (1.0 - DT / TAU) ** np.arange(n_steps))


def node_of(col):
    """node path named by a column label (str for list form, tuple for dict form)"""
    if isinstance(col, tuple):
        return '/'.join(col[1:-1])
    return '/'.join(col.split('/')[:-2])


def check(outputs, nodes, label, problems, vectorize=True, **build_kwargs):
    net = build(**build_kwargs)
    res = net.run(simulation_time=T, step_size=DT, outputs=outputs, solver='euler', vectorize=vectorize,
                  verbose=False, clear=True, in_place=False)
    clear(net)
    cols = [node_of(c) for c in res.columns]
    if sorted(cols) != sorted(nodes):
        problems.append(f"{label}: columns {cols} do not name the requested nodes {nodes}")
        return
    for c, node in zip(res.columns, cols):
        got = np.asarray(res[c]).squeeze()
        want = expected(node, len(got))
        if not np.allclose(got, want, rtol=1e-6, atol=1e-9):
            others = [n for n in K if np.allclose(got, expected(n, len(got)), rtol=1e-6, atol=1e-9)]
            problems.append(f"{label}: column {c} does not carry the trajectory of {node} "
                            f"(final value {got[-1]:.4f}, expected {want[-1]:.4f}; it is the trajectory of {others})")


def main():
    problems = []
    all_nodes = list(K)
    requests = [
        ({'r': 'c1/all/lin_op/r'}, ['c1/a', 'c1/b']),
        (['c1/all/lin_op/r'], ['c1/a', 'c1/b']),
        ({'r': 'c2/all/lin_op/r'}, ['c2/a', 'c2/b']),
        ({'r': 'all/all/lin_op/r'}, all_nodes),
        (['all/all/lin_op/r'], all_nodes),
        ({'r': 'all/a/lin_op/r'}, ['c1/a', 'c2/a']),
        ({'r': 'all/b/lin_op/r'}, ['c1/b', 'c2/b']),
        (['c2/b/lin_op/r', 'c1/a/lin_op/r'], ['c2/b', 'c1/a']),
    ]
    for vectorize in (True, False):
        for order in (('a', 'b'), ('b', 'a')):
            for outputs, nodes in requests:
                check(outputs, nodes, f"vectorize={vectorize}, node order={order}, outputs={outputs}", problems,
                      vectorize=vectorize, order=order)
    check({'r': 'c1/all/lin_op/r'}, ['c1/a', 'c1/b'], "circuit order=(c2, c1), outputs={'r': 'c1/all/lin_op/r'}",
          problems, circuit_order=('c2', 'c1'))

    if problems:
        print("FAIL")
        for p in problems:
            print("  -", p)
        sys.exit(1)
    print("PASS")
    sys.exit(0)


if __name__ == '__main__':
    main()
