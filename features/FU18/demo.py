"""Demonstration for property C18 (auto-07p export addresses every parameter and state consistently).

Model: ONE node that carries TWO operators, `op_a -> op_b` (the output `a` of `op_a` is an input of `op_b`).  12
parameters in total (crosses the PAR(11..14) range reserved by auto-07p); in `op_b`, the order in which the equations
first use the parameters differs from the order in which the parameters are declared.

Everything that is checked is computed independently in this script from the model definition below (declared
parameter order, parameter values, initial state, a hand-written python version of the vector field); nothing is
compared against a recording of earlier output.  f2py is never run (the compile step is stubbed out; the .f90 and c.*
files are written before it).

Run:  cd /tmp/seed/C18h && /venv/bin/python .scratch/demo.py
"""
import os
import re
import shutil
import sys
import tempfile

ROOT = os.path.dirname(os.path.dirname(os.path.abspath(__file__)))
sys.path.insert(0, ROOT)

import numpy as np  # noqa: E402
import pyrates  # noqa: E402

assert os.path.abspath(pyrates.__file__).startswith(ROOT + os.sep), pyrates.__file__

from pyrates import CircuitTemplate, OperatorTemplate  # noqa: E402
from pyrates.frontend.template.node import NodeTemplate  # noqa: E402
import pyrates.backend.fortran.fortran_backend as fb  # noqa: E402


class _Failed:
    returncode, stderr, stdout = 1, 'f2py skipped by demo', ''


# the source file and the c.* files are written BEFORE the f2py call; make that call fail fast
fb.subprocess.run = lambda *a, **k: _Failed()

# ---------------------------------------------------------------------------------------------------------------------
# model definition (the single source of truth for all expectations)
# ---------------------------------------------------------------------------------------------------------------------
A_PARAMS = [('a1', 2.0), ('a2', -0.5), ('a3', 1.5)]                       # declaration order of op_a
B_PARAMS = [(f'q{i}', 1.0 + 0.25 * i) for i in range(1, 10)]              # declaration order of op_b: q1 ... q9
STATES = [('a', 0.3), ('b', 0.1), ('c', -0.2)]
DECLARED = [n for n, _ in A_PARAMS + B_PARAMS]
VALUES = dict(A_PARAMS + B_PARAMS)
RESERVED = {11, 12, 13, 14}                                                 # PAR slots used by auto-07p itself
SCENARIOS = ('ivp', 'eq', 'lc')
NMX = 123


def model_rhs(y, p):
    """hand-written vector field of the model below"""
    a, b, c = y
    return np.array([
        (p['a3'] - a) / p['a1'] + p['a2'] * a ** 2,
        p['q9'] * a - b / p['q2'] + p['q7'] * p['q1'],
        (b * p['q4'] - c * p['q3']) / p['q8'] + p['q6'] - p['q5'] * a,
    ])


def export(workdir):
    op_a = OperatorTemplate(
        name='op_a', path=None,
        equations=["a' = (a3 - a)/a1 + a2*a^2"],
        variables={'a': f'output({STATES[0][1]})', **dict(A_PARAMS)})
    op_b = OperatorTemplate(
        name='op_b', path=None,
        equations=["b' = q9*a - b/q2 + q7*q1",
                   "c' = (b*q4 - c*q3)/q8 + q6 - q5*a"],
        variables={'b': f'output({STATES[1][1]})', 'c': f'variable({STATES[2][1]})', 'a': 'input(0.0)',
                   **dict(B_PARAMS)})
    node = NodeTemplate(name='pop', operators=[op_a, op_b], path=None)
    circuit = CircuitTemplate(name='c18demo', nodes={'p': node})
    os.chdir(workdir)
    try:
        circuit.get_run_func('vfx', step_size=1e-3, file_name='c18mod', backend='fortran', float_precision='float64',
                             auto=True, vectorize=False, solver='scipy', verbose=False,
                             auto_constants=SCENARIOS, NMX=NMX)
    except RuntimeError as e:
        assert 'f2py' in str(e), e
    src = open(os.path.join(workdir, 'c18mod.f90')).read()
    cfiles = {s: open(os.path.join(workdir, f'c.{s}')).read() for s in SCENARIOS}
    return src, cfiles


def unwrap(src):
    """join free-form continuation lines (`...&` / `     & ...`)"""
    return re.sub(r'&[ \t]*\n[ \t]*&?', '', src)


def split_top(s):
    out, depth, cur = [], 0, ''
    for ch in s:
        if ch == '(':
            depth += 1
        elif ch == ')':
            depth -= 1
        if ch == ',' and depth == 0:
            out.append(cur.strip())
            cur = ''
        else:
            cur += ch
    out.append(cur.strip())
    return out


def main():
    problems = []

    def check(cond, msg):
        if not cond:
            problems.append(msg)

    workdir = tempfile.mkdtemp(prefix='demo_', dir=os.path.join(ROOT, '.scratch'))
    cwd = os.getcwd()
    try:
        src, cfiles = export(workdir)
    finally:
        os.chdir(cwd)
        shutil.rmtree(workdir, ignore_errors=True)
    src = unwrap(src)

    # ---- c.* files -------------------------------------------------------------------------------------------------
    parsed = {}
    for scen, text in cfiles.items():
        entries = dict(line.split(' = ', 1) for line in text.strip().splitlines())
        parsed[scen] = {k: eval(v) for k, v in entries.items() if k in ('parnames', 'unames', 'NDIM', 'NPAR', 'NMX')}
    first = parsed[SCENARIOS[0]]
    for scen in SCENARIOS:
        check(parsed[scen] == first, f'c.{scen} disagrees with c.{SCENARIOS[0]}: {parsed[scen]} vs {first}')
    parnames, unames = first['parnames'], first['unames']
    slot_of = {name: slot for slot, name in parnames.items()}

    # parameter slots: follow the declaration order, pairwise distinct, outside of the reserved range
    by_slot = [parnames[s] for s in sorted(parnames)]
    check(sorted(by_slot) == sorted(DECLARED), f'parnames does not hold exactly the model parameters: {by_slot}')
    check(by_slot == DECLARED,
          f'PAR slots do not follow the declaration order of the parameters:\n'
          f'      by slot : {by_slot}\n      declared: {DECLARED}')
    check(len(slot_of) == len(parnames), 'two slots carry the same parameter name')
    check(not (set(parnames) & RESERVED), f'reserved PAR slot used: {sorted(set(parnames) & RESERVED)}')
    check(all(s >= 1 for s in parnames), 'non-positive PAR slot')
    check(unames == {i + 1: n for i, (n, _) in enumerate(STATES)}, f'unames: {unames}')
    check(first['NDIM'] == len(STATES), f"NDIM = {first['NDIM']}")
    check(first['NPAR'] == max(parnames), f"NPAR = {first['NPAR']} but highest slot is {max(parnames)}")
    check(first['NMX'] == NMX, f"constant override NMX={NMX} not applied: {first['NMX']}")

    # ---- STPNT -----------------------------------------------------------------------------------------------------
    stpnt = src[src.index('subroutine stpnt'):src.index('end subroutine stpnt')]
    st_par = {int(m.group(1)): (float(m.group(2)), m.group(3))
              for m in re.finditer(r'args\((\d+)\) = (\S+)\s+! (\w+)', stpnt)}
    st_y = {int(m.group(1)): (float(m.group(2)), m.group(3)) for m in re.finditer(r'\by\((\d+)\) = (\S+)\s+! (\w+)', stpnt)}
    check(set(st_par) == set(parnames), f'STPNT initialises slots {sorted(st_par)}, parnames has {sorted(parnames)}')
    for slot, (val, name) in st_par.items():
        check(parnames.get(slot) == name, f'STPNT args({slot}) is {name}, parnames says {parnames.get(slot)}')
        check(name in VALUES and val == VALUES[name], f'STPNT args({slot}) = {val} for {name}, model: {VALUES.get(name)}')
    check(st_y == {i + 1: (v, n) for i, (n, v) in enumerate(STATES)}, f'STPNT initial state: {st_y}')

    # ---- vector-field routine: signature, forwarding call, values ---------------------------------------------------
    sig = re.search(r'subroutine vfx\(([^)]*)\)', src).group(1).split(',')
    check(sig[:3] == ['t', 'y', 'dy'], f'signature head: {sig[:3]}')
    sig_params = sig[3:]
    check(sig_params == DECLARED, f'vfx signature not in declaration order: {sig_params}')
    start = src.index('call vfx(') + len('call vfx(')
    depth, i = 0, start
    while depth or src[i] != ')':
        depth += {'(': 1, ')': -1}.get(src[i], 0)
        i += 1
    call = split_top(src[start:i])
    check(call[:3] == ['args(14)', 'y', 'dy'], f'call head: {call[:3]}')
    expected_call = [f'args({slot_of[n]})' if n in slot_of else f'<{n}: no slot>' for n in sig_params]
    check(call[3:] == expected_call, f'forwarding call {call[3:]} != slots of signature params {expected_call}')

    body = src[src.index('subroutine vfx('):src.index('end subroutine')]
    stmts = [ln.strip() for ln in body.splitlines()
             if re.match(r'\s*(\w+|dy\(\d+\)) = ', ln)]
    rng = np.random.default_rng(3)
    for _ in range(3):
        y = rng.uniform(-1, 1, 3)
        p = {n: rng.uniform(0.5, 2.0) for n in DECLARED}
        ns = dict(p, y=y, dy=np.zeros(3), t=0.0, PI=np.pi)
        for st in stmts:
            exec(re.sub(r'\b(dy|y)\((\d+)\)', lambda m: f'{m.group(1)}[{int(m.group(2)) - 1}]', st), {}, ns)
        check(np.allclose(ns['dy'], model_rhs(y, p), rtol=1e-12, atol=1e-12),
              f"exported vector field {ns['dy']} != model {model_rhs(y, p)}")

    # ---- DFDP columns: same slot as parnames; non-zero pattern from the hand-written vector field --------------------
    func = src[src.index('subroutine func('):src.index('end subroutine func')]
    dfdp = {(int(m.group(1)), int(m.group(2))) for m in re.finditer(r'dfdp\((\d+),(\d+)\) =', func)}
    check(bool(dfdp), 'no DFDP entries emitted')
    y0 = np.array([0.37, -0.61, 0.83])
    p0 = {n: 0.7 + 0.13 * k for k, n in enumerate(DECLARED)}
    expected_nz = set()
    for n in DECLARED:
        hi, lo = dict(p0), dict(p0)
        hi[n] += 1e-6
        lo[n] -= 1e-6
        d = (model_rhs(y0, hi) - model_rhs(y0, lo)) / 2e-6
        expected_nz |= {(r + 1, n) for r in range(3) if abs(d[r]) > 1e-8}
    got_nz = {(r, parnames.get(col, f'<slot {col}>')) for r, col in dfdp}
    check(got_nz == expected_nz, f'DFDP columns address the wrong parameters:\n      emitted : {sorted(got_nz)}\n'
                                 f'      expected: {sorted(expected_nz)}')

    if problems:
        print('FAIL')
        for msg in problems:
            print('  -', msg)
        return 1
    print('PASS')
    return 0


if __name__ == '__main__':
    sys.exit(main())
