"""Property C03 demo: run() with a fixed-step solver returns exactly the Euler / Heun iterates of the vector field.

For every (backend, solver) pair of {default, torch} x {euler, heun} that the backend offers, the output of
CircuitTemplate.run is compared against iterates computed here by hand (plain numpy, own right-hand side) for a
driven van-der-Pol oscillator: first row = initial state, row k = state at k*sampling_step_size, round(T/dts) rows
before the cutoff, index = those times, rows with time < cutoff dropped.  A pair that the backend explicitly refuses
("does not support solver") has no implementation to check and is skipped.

Run as:  cd /tmp/seed/C03g && /venv/bin/python .scratch/demo.py
"""
import os
import shutil
import sys
import tempfile

ROOT = os.path.dirname(os.path.dirname(os.path.abspath(__file__)))
sys.path.insert(0, ROOT)

import numpy as np
import pyrates
from pyrates import CircuitTemplate, NodeTemplate, OperatorTemplate
from pyrates.backend import PyRatesException

assert os.path.abspath(pyrates.__file__).startswith(ROOT + os.sep), pyrates.__file__

MU, X0, Z0 = 1.5, 1.0, 0.5


def make_net():
    op = OperatorTemplate(name='vdp', path=None,
                          equations=["d/dt * x = z", "d/dt * z = mu*(1-x**2)*z - x + inp"],
                          variables={'x': f'output({X0})', 'z': f'variable({Z0})', 'mu': MU, 'inp': 'input(0.0)'})
    node = NodeTemplate(name='n', path=None, operators=[op])
    return CircuitTemplate(name='c', path=None, nodes={'p': node})


def f(k, y, inp):
    """Hand-written vector field; k is the integer step counter that selects the input sample."""
    x, z = y
    return np.array([z, MU * (1.0 - x ** 2) * z - x + inp[k]])


def expected(solver, T, dt, dts, cutoff, inp):
    steps, every = int(round(T / dt)), int(round(dts / dt))
    y = np.array([X0, Z0])
    rows = []
    for k in range(steps):
        if k % every == 0:
            rows.append(y.copy())
        k1 = f(k, y, inp)
        if solver == 'euler':
            y = y + dt * k1
        else:
            # Heun: Euler predictor, then the mean of the slopes at y and at the predictor (input held over the step,
            # the convention of the project's fixed-step solvers)
            k2 = f(k, y + dt * k1, inp)
            y = y + 0.5 * dt * (k1 + k2)
    rows = np.array(rows)
    times = np.arange(rows.shape[0]) * dts
    assert rows.shape[0] == int(round(T / dts))
    keep = times >= cutoff - 1e-12
    return times[keep], rows[keep]


# cutoffs lie strictly between two sampling times so that float round-off of the time index cannot matter
CONFIGS = [  # (T, dt, dts, cutoff)
    (2.0, 0.05, 0.05, 0.0),
    (3.0, 0.01, 0.1, 0.45),
    (1.2, 0.1, 0.2, 0.3),
]


def main():
    failures, checked, skipped = [], 0, []
    workdir = tempfile.mkdtemp(prefix='c03g_demo_', dir=os.path.join(ROOT, '.scratch'))
    os.chdir(workdir)
    for backend in ('default', 'torch'):
        for solver in ('euler', 'heun'):
            for ci, (T, dt, dts, cutoff) in enumerate(CONFIGS):
                steps = int(round(T / dt))
                inp = 0.8 * np.sin(0.9 * np.arange(steps) * dt) + 0.1 * np.arange(steps) * dt
                try:
                    res = make_net().run(simulation_time=T, step_size=dt, sampling_step_size=dts, cutoff=cutoff,
                                         solver=solver, backend=backend, inputs={'p/vdp/inp': inp},
                                         outputs={'x': 'p/vdp/x', 'z': 'p/vdp/z'}, verbose=False, clear=True,
                                         float_precision='float64', file_name=f'demo_{backend}_{solver}_{ci}')
                except PyRatesException as e:
                    if 'does not support solver' in str(e):
                        skipped.append((backend, solver))
                        break
                    raise
                t_exp, y_exp = expected(solver, T, dt, dts, cutoff, inp)
                got = np.stack([res['x'].values, res['z'].values], axis=1)
                tag = f"backend={backend} solver={solver} T={T} dt={dt} dts={dts} cutoff={cutoff}"
                checked += 1
                if got.shape != y_exp.shape:
                    failures.append(f"{tag}: shape {got.shape} != expected {y_exp.shape}")
                    continue
                if not np.allclose(res.index.values, t_exp, rtol=0, atol=1e-9):
                    failures.append(f"{tag}: time index differs from k*sampling_step_size")
                err = np.max(np.abs(got - y_exp))
                if not err < 1e-9:
                    failures.append(f"{tag}: max |run - hand-computed {solver} iterates| = {err:.3e}")
    os.chdir(ROOT)
    shutil.rmtree(workdir, ignore_errors=True)
    for b, s in sorted(set(skipped)):
        print(f"note: backend={b} declares solver={s} unsupported; nothing to check for this pair")
    print(f"checked {checked} runs")
    if failures:
        for line in failures:
            print("  " + line)
        print("FAIL")
        return 1
    print("PASS")
    return 0


if __name__ == '__main__':
    sys.exit(main())
