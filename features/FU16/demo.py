"""Property C16 demo: Population/Connectivity == explicit node-and-edge network.

Two populations of passive membrane units, written in SI units (volt, ampere, siemens,
farad), are coupled through signed, sparse, non-square conductance matrices (gap-junction
style coupling, weights of a few nano-siemens). The PyRates trajectory is compared, unit
by unit, with an independent NumPy Euler loop in which target_i receives
sum_j W[i, j] * source_j for every Connectivity.

Run:  cd /tmp/seed/C16h && /venv/bin/python .scratch/demo.py
"""
import os
import sys
import tempfile

ROOT = os.path.dirname(os.path.dirname(os.path.abspath(__file__)))
sys.path.insert(0, ROOT)

import numpy as np
import pyrates

assert os.path.abspath(pyrates.__file__).startswith(ROOT + os.sep), pyrates.__file__

from pyrates.frontend.template.operator import OperatorTemplate
from pyrates.frontend.template.node import NodeTemplate
from pyrates.frontend.template.circuit import CircuitTemplate
from pyrates.frontend.template.population import PopulationTemplate, Connectivity
from pyrates.ir.node import clear_ir_caches

os.chdir(tempfile.mkdtemp(prefix='c16h_demo_'))

# --- model (SI units) -------------------------------------------------------------------
C_m = 1e-10          # 100 pF
g_l = 1e-8           # 10 nS   -> tau = 10 ms
dt = 1e-4            # 0.1 ms
n_steps = 200        # 20 ms

Np, Nq = 3, 2
E_p = np.array([-0.065, -0.060, -0.055])         # leak reversal per unit (V)
E_q = np.array([-0.070, -0.050])
I_p = np.array([1.0e-10, 0.0, 2.5e-10])          # external current per unit (A)
I_q = np.array([0.5e-10, 3.0e-10])
v0_p = np.array([-0.070, -0.050, -0.062])        # initial potentials (V)
v0_q = np.array([-0.058, -0.066])

# conductance matrices (S), laid out (n_target, n_source); signed, sparse, asymmetric
G_pp = 1e-9 * np.array([[-3.0, 2.0, 1.0],
                        [0.0, -4.0, 4.0],
                        [2.5, 0.0, -2.5]])
G_pq = 1e-9 * np.array([[0.0, 5.0],
                        [3.0, 0.0],
                        [0.0, -2.0]])             # q -> p, shape (3, 2)
G_qp = 1e-9 * np.array([[4.0, 0.0, -1.5],
                        [0.0, 6.0, 0.0]])         # p -> q, shape (2, 3)


def run_pyrates():
    clear_ir_caches()
    op = OperatorTemplate(
        name='mem_op',
        equations=["v' = (g_l*(E_l - v) + I_ext + i_gap) / C_m"],
        variables={'v': 'output', 'g_l': g_l, 'E_l': -0.065, 'I_ext': 0.0, 'C_m': C_m, 'i_gap': 'input'},
    )
    node = NodeTemplate(name='mem_node', operators=[op])
    p = PopulationTemplate('p', node, Np, params={'mem_op/E_l': list(E_p), 'mem_op/I_ext': list(I_p),
                                                  'mem_op/v': list(v0_p)})
    q = PopulationTemplate('q', node, Nq, params={'mem_op/E_l': list(E_q), 'mem_op/I_ext': list(I_q),
                                                  'mem_op/v': list(v0_q)})
    conns = [
        Connectivity('p/mem_op/v', 'p/mem_op/i_gap', G_pp.copy()),
        Connectivity('q/mem_op/v', 'p/mem_op/i_gap', G_pq.copy()),
        Connectivity('p/mem_op/v', 'q/mem_op/i_gap', G_qp.copy()),
    ]
    circuit = CircuitTemplate('gapnet', populations={'p': p, 'q': q}, connections=conns)
    res = circuit.run(simulation_time=n_steps * dt, step_size=dt, solver='euler',
                      outputs={'vp': 'p/mem_op/v', 'vq': 'q/mem_op/v'},
                      backend='default', clear=True, verbose=False)
    return res['vp'].values, res['vq'].values


def run_reference(coupled=True):
    """Explicit Euler, every unit and every non-zero matrix entry spelled out."""
    vp, vq = v0_p.copy(), v0_q.copy()
    out_p, out_q = np.zeros((n_steps, Np)), np.zeros((n_steps, Nq))
    for k in range(n_steps):
        out_p[k], out_q[k] = vp, vq
        ip, iq = np.zeros(Np), np.zeros(Nq)
        if coupled:
            for i in range(Np):
                for j in range(Np):
                    if G_pp[i, j] != 0.0:
                        ip[i] += G_pp[i, j] * vp[j]
                for j in range(Nq):
                    if G_pq[i, j] != 0.0:
                        ip[i] += G_pq[i, j] * vq[j]
            for i in range(Nq):
                for j in range(Np):
                    if G_qp[i, j] != 0.0:
                        iq[i] += G_qp[i, j] * vp[j]
        dvp = (g_l * (E_p - vp) + I_p + ip) / C_m
        dvq = (g_l * (E_q - vq) + I_q + iq) / C_m
        vp, vq = vp + dt * dvp, vq + dt * dvq
    return out_p, out_q


vp, vq = run_pyrates()
rp, rq = run_reference(coupled=True)
up, uq = run_reference(coupled=False)

# the coupling must matter for the check to be meaningful
assert np.max(np.abs(rp - up)) > 1e-4 and np.max(np.abs(rq - uq)) > 1e-4

err_p = np.max(np.abs(vp - rp))
err_q = np.max(np.abs(vq - rq))
print(f"max |v_pyrates - v_reference|: p {err_p:.3e} V, q {err_q:.3e} V "
      f"(effect of the coupling itself: p {np.max(np.abs(rp - up)):.3e} V, q {np.max(np.abs(rq - uq)):.3e} V)")

ok = vp.shape == rp.shape and vq.shape == rq.shape and \
    np.allclose(vp, rp, rtol=1e-5, atol=1e-8) and np.allclose(vq, rq, rtol=1e-5, atol=1e-8)
if ok:
    print("PASS")
    sys.exit(0)
if np.allclose(vp, up, rtol=1e-5, atol=1e-8) and np.allclose(vq, uq, rtol=1e-5, atol=1e-8):
    print("the populations evolve as if they were not connected at all")
print("FAIL")
sys.exit(1)
