"""Demonstration for property C01 (generated vector field equals the model the user wrote).

A network of 12 identical rate nodes (vectorized into one node) with one weighted edge per target node. The generated
vector field is evaluated at random state vectors and compared with the right-hand sides computed by hand from the
edge list:   dr_t/dt = -r_t/tau + k * sum_{edges s->t} w_st * r_s

Two edge lists are used; in both, every input variable receives exactly one edge:
  (A) the sources of targets 0..11 are [0, 2, 1, 4, 3, 6, 5, 8, 7, 10, 9, 11] (neighbouring nodes drive each other,
      the first and the last node drive themselves)
  (B) targets 1..11 are driven by sources [0, 1, 1, 3, 3, 5, 6, 7, 8, 8, 10] (some nodes project to two targets)
"""
import os
import sys

ROOT = os.path.dirname(os.path.dirname(os.path.abspath(__file__)))
sys.path.insert(0, ROOT)
os.chdir(os.path.join(ROOT, '.scratch'))

import warnings
warnings.filterwarnings('ignore')
import numpy as np
import pyrates
from pyrates import CircuitTemplate, NodeTemplate, OperatorTemplate, clear

assert os.path.abspath(pyrates.__file__).startswith(ROOT + os.sep), pyrates.__file__

TAU, K = 2.0, 1.5


def max_error(n_nodes: int, edge_list: list, seed: int) -> float:

    op = OperatorTemplate(name='rate_op', path=None, equations=["r' = -r/tau + k*r_in"],
                          variables={'r': 'output(0.1)', 'r_in': 'input(0.0)', 'tau': TAU, 'k': K})
    node = NodeTemplate(name='pop', path=None, operators=[op])
    net = CircuitTemplate(name='net', nodes={f'p{i}': node for i in range(n_nodes)},
                          edges=[(f'p{s}/rate_op/r', f'p{t}/rate_op/r_in', None, {'weight': w})
                                 for s, t, w in edge_list])
    func, args, keys, state_map = net.get_run_func('vf', step_size=1e-3, backend='default', vectorize=True,
                                                   verbose=False, clear=False, to_file=False,
                                                   float_precision='float64')

    # position of every node's state variable in the state vector
    pos = {}
    for i in range(n_nodes):
        idx = net.get_variable_positions(f'p{i}/rate_op/r')[0][f'p{i}/rate_op/r']
        pos[i] = int(np.atleast_1d(idx)[0])
    assert sorted(pos.values()) == list(range(n_nodes)), pos

    rng = np.random.default_rng(seed)
    err = 0.0
    for _ in range(5):
        y = rng.normal(size=n_nodes)
        dy = np.array(func(0.0, y.copy(), *args[2:]), dtype=float)
        r_in = np.zeros(n_nodes)
        for s, t, w in edge_list:
            r_in[pos[t]] += w * y[pos[s]]
        expected = -y / TAU + K * r_in
        err = max(err, float(np.max(np.abs(dy - expected))))
    clear(net)
    return err


if __name__ == '__main__':

    sources_a = [0, 2, 1, 4, 3, 6, 5, 8, 7, 10, 9, 11]
    edges_a = [(s, t, 0.5 + 0.1 * t) for t, s in enumerate(sources_a)]
    sources_b = [0, 1, 1, 3, 3, 5, 6, 7, 8, 8, 10]
    edges_b = [(s, t, 0.5 + 0.1 * t) for t, s in zip(range(1, 12), sources_b)]

    errors = {'A (pairwise swapped sources)': max_error(12, edges_a, seed=1),
              'B (nodes with two targets)': max_error(12, edges_b, seed=2)}
    for key, e in errors.items():
        print(f'max |dy - expected| for network {key}: {e:.3e}')
    if all(e < 1e-9 for e in errors.values()):
        print('PASS')
        sys.exit(0)
    print('FAIL')
    sys.exit(1)
