"""Property C11 demo: distributed delays are unit-gain gamma kernels with the stated mean, one kernel per edge.

Non-vectorized circuit.  A source node `a` carries two independent output variables (x in operator opx,
v in operator opy).  Four gamma-delayed edges leave the node:

    a/opx/x -> b   d=1.0 s=0.5  (order 4, rate 4)
    a/opx/x -> c   d=1.0 s=0.5  (same kernel, same source variable)
    a/opy/v -> e   d=1.0 s=0.5  (same (d, s), but a DIFFERENT source variable)
    a/opy/v -> f   d=0.9 s=0.3  (order 9, rate 10)

The simulated trajectories of the targets are compared with the explicitly written augmented ODE system
(source -> chain of n=round((d/s)^2) first-order stages of rate n/d -> target), integrated independently with
scipy, and with the analytic steady state (unit gain of the kernel).
"""
import os
import sys

ROOT = os.path.dirname(os.path.dirname(os.path.abspath(__file__)))
sys.path.insert(0, ROOT)
os.chdir(ROOT)

import warnings
warnings.filterwarnings("ignore")

import numpy as np
from scipy.integrate import solve_ivp

import pyrates
assert os.path.abspath(pyrates.__file__).startswith(ROOT + os.sep), pyrates.__file__
from pyrates import OperatorTemplate, NodeTemplate, CircuitTemplate

UX, TAUX = 1.0, 0.5
UV, TAUV = 2.0, 1.5
# target -> (source variable, delay, spread, weight)
EDGES = {'b': ('x', 1.0, 0.5, 1.0),
         'c': ('x', 1.0, 0.5, 0.5),
         'e': ('v', 1.0, 0.5, 1.5),
         'f': ('v', 0.9, 0.3, 2.0)}
T, DTS = 12.0, 1e-2


def build():
    opx = OperatorTemplate(name='opx', equations=["x' = (ux - x)/taux"],
                           variables={'x': 'output(0.0)', 'ux': UX, 'taux': TAUX}, path=None)
    opy = OperatorTemplate(name='opy', equations=["v' = (uv - v)/tauv"],
                           variables={'v': 'output(0.0)', 'uv': UV, 'tauv': TAUV}, path=None)
    opr = OperatorTemplate(name='opr', equations=["r' = -r + r_in"],
                           variables={'r': 'output(0.0)', 'r_in': 'input(0.0)'}, path=None)
    src = NodeTemplate(name='src', operators=[opx, opy], path=None)
    rec = NodeTemplate(name='rec', operators=[opr], path=None)
    nodes = {'a': src}
    nodes.update({k: rec for k in EDGES})
    edges = [(f"a/{'opx' if sv == 'x' else 'opy'}/{sv}", f"{tgt}/opr/r_in", None,
              {'weight': w, 'delay': d, 'spread': s}) for tgt, (sv, d, s, w) in EDGES.items()]
    return CircuitTemplate(name='c11_demo', nodes=nodes, edges=edges, path=None)


def reference(t_eval):
    """Explicit augmented ODE system, written out by hand."""
    layout, n_state = {}, 2
    for tgt, (sv, d, s, w) in EDGES.items():
        n = int(round((d / s) ** 2))
        layout[tgt] = (0 if sv == 'x' else 1, n, n / d, w, n_state)
        n_state += n + 1

    def rhs(t, y):
        dy = np.zeros_like(y)
        dy[0] = (UX - y[0]) / TAUX
        dy[1] = (UV - y[1]) / TAUV
        for tgt, (src, n, rate, w, off) in layout.items():
            prev = y[src]
            for k in range(n):
                dy[off + k] = rate * (prev - y[off + k])
                prev = y[off + k]
            dy[off + n] = -y[off + n] + w * prev
        return dy

    sol = solve_ivp(rhs, (0.0, t_eval[-1]), np.zeros(n_state), t_eval=t_eval, method='DOP853',
                    rtol=1e-10, atol=1e-12)
    return {tgt: sol.y[off + n] for tgt, (_, n, _, _, off) in layout.items()}


def main():
    ok = True
    for solver, kwargs, tol in (('scipy', dict(method='RK45', rtol=1e-8, atol=1e-10), 1e-5),
                                ('euler', dict(), 5e-3)):
        res = build().run(simulation_time=T, step_size=1e-3, sampling_step_size=DTS, solver=solver,
                          outputs={k: f"{k}/opr/r" for k in EDGES}, vectorize=False, clear=True, verbose=False,
                          **kwargs)
        t = np.asarray(res.index, dtype=float)
        ref = reference(t)
        for tgt, (sv, d, s, w) in EDGES.items():
            err = float(np.max(np.abs(res[tgt].values.squeeze() - ref[tgt])))
            good = err < tol
            ok &= good
            print(f"[{solver:5s}] a/{sv} -> {tgt} (d={d}, s={s}, w={w}): max|sim - explicit ODE| = {err:.2e} "
                  f"{'ok' if good else 'MISMATCH'}")
        # unit steady-state gain of the kernel: r -> w * u_source
        for tgt, (sv, d, s, w) in EDGES.items():
            expect = w * (UX if sv == 'x' else UV)
            # analytic value at t=T is within 2e-2 of the fixed point for all chains used here
            good = abs(float(res[tgt].values.squeeze()[-1]) - expect) < 3e-2 * expect + 1e-2
            ok &= good
            if not good:
                print(f"[{solver:5s}] steady state of {tgt}: {float(res[tgt].values.squeeze()[-1]):.4f}, "
                      f"expected {expect:.4f} (unit-gain kernel)  MISMATCH")
    print("PASS" if ok else "FAIL")
    sys.exit(0 if ok else 1)


if __name__ == '__main__':
    main()
