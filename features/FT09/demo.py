"""Demo for property C09: discrete edge delays shift the source by round(delay/dt) steps.

Several members of a vectorized population of ramp generators (a_i(t) = r_i * t) project with different discrete
delays onto integrator nodes (x' = sum_j w_j * a_j(t - d_j)).  Under the Euler solver the trajectory of every
integrator can be written down by hand:

    a_i[k]   = r_i * dt * k
    x_t[k+1] = x_t[k] + dt * sum_{edges j -> t} w_j * (a_j[k - n_j] if k >= n_j else 0),   n_j = round(d_j / dt)

The script simulates each circuit with and without vectorization and compares with this recurrence.
Run as:  cd /tmp/seed/C09g && /venv/bin/python .scratch/demo.py
"""
import os
import sys
import warnings

ROOT = os.path.dirname(os.path.dirname(os.path.abspath(__file__)))
sys.path.insert(0, ROOT)
warnings.filterwarnings("ignore")

import numpy as np
import pyrates
from pyrates import CircuitTemplate, NodeTemplate, OperatorTemplate, clear

assert os.path.abspath(pyrates.__file__).startswith(ROOT + os.sep), pyrates.__file__

BUILD = os.path.join(ROOT, ".scratch", "demo_build")
os.makedirs(BUILD, exist_ok=True)
os.chdir(BUILD)

DT = 0.1
T = 2.0
RATES = {"s1": 1.0, "s2": 2.0, "s3": 3.0, "s4": 4.0}

src_op = OperatorTemplate(name="src", equations=["d/dt * a = r"], variables={"a": "output(0.0)", "r": 1.0})
tgt_op = OperatorTemplate(name="tgt", equations=["d/dt * x = u"], variables={"x": "output(0.0)", "u": "input(0.0)"})
tgt = NodeTemplate(name="tgt_node", operators=[tgt_op])


def make_nodes():
    nodes = {key: NodeTemplate(name="src_node", operators={src_op: {"r": r}}) for key, r in RATES.items()}
    nodes.update({"t1": tgt, "t2": tgt, "t3": tgt})
    return nodes


def expected(edges, n_steps):
    """Hand recurrence; edges are (source node, target node, weight, delay)."""
    x = {t: np.zeros(n_steps) for t in ("t1", "t2", "t3")}
    a = {s: RATES[s] * DT * np.arange(n_steps) for s in RATES}
    for k in range(n_steps - 1):
        for t in x:
            u = 0.0
            for s, tt, w, d in edges:
                n = int(np.round(d / DT))
                if tt == t and k >= n:
                    u += w * a[s][k - n]
            x[t][k + 1] = x[t][k] + DT * u
    return x


def simulate(edges, vectorize):
    circuit = CircuitTemplate(
        name="c09_demo", nodes=make_nodes(),
        edges=[(f"{s}/src/a", f"{t}/tgt/u", None, {"weight": w, "delay": d}) for s, t, w, d in edges])
    res = circuit.run(simulation_time=T, step_size=DT, solver="euler", backend="default", vectorize=vectorize,
                      outputs={t: f"{t}/tgt/x" for t in ("t1", "t2", "t3")}, clear=True, verbose=False,
                      file_name="c09_demo_model")
    clear(circuit)
    return {t: np.asarray(res[t]).squeeze() for t in ("t1", "t2", "t3")}


CIRCUITS = {
    # every member of the population projects, all (source, delay) pairs distinct
    "all members project": [("s1", "t1", 1.0, 0.2), ("s2", "t2", 2.0, 0.3), ("s3", "t3", 0.5, 0.4),
                            ("s4", "t1", 1.5, 0.5), ("s2", "t3", 1.0, 0.6)],
    # fan-out: the same member reaches two targets with the same delay
    "fan-out with a common delay": [("s1", "t1", 1.0, 0.3), ("s1", "t2", 2.0, 0.3), ("s2", "t3", 0.5, 0.4),
                                    ("s3", "t1", 1.5, 0.2), ("s4", "t2", 1.0, 0.5)],
    # only the first and the third member of the population have (delayed) efferents
    "two of four members project": [("s3", "t1", 1.5, 0.2), ("s1", "t2", 2.0, 0.3), ("s3", "t3", 0.5, 0.5),
                                    ("s1", "t1", 1.0, 0.4)],
}

failures = []
for name, edges in CIRCUITS.items():
    for vectorize in (False, True):
        got = simulate(edges, vectorize)
        n_steps = len(got["t1"])
        want = expected(edges, n_steps)
        for t in ("t1", "t2", "t3"):
            err = float(np.max(np.abs(got[t] - want[t])))
            status = "ok" if err < 1e-4 else "WRONG"
            print(f"{name:30s} vectorize={vectorize!s:5s} {t}: max|sim - hand recurrence| = {err:.3e}  {status}")
            if err >= 1e-4:
                failures.append((name, vectorize, t, err))

if failures:
    print("FAIL")
    for f in failures:
        print("   ", f)
    sys.exit(1)
print("PASS")
sys.exit(0)
