"""Demo for property C17: a parameter sweep equals running each parameter set on its own.

Scenario: the user first gives the template a baseline that differs from the value written in the YAML file
(`template.update_var(...)`, which stores the value as a node-level variation of the operator), then sweeps that
same parameter over a grid which also contains the value of the YAML file.

Two independent references are used for every row of the returned parameter table:
 (a) a closed form: the uncoupled phase oscillator `theta' = omega` integrated with forward Euler gives
     theta(t_k) = omega * k * dt exactly,
 (b) a separate run of a freshly loaded 2-node circuit that is given the values of that row.
"""
import os
import sys
import warnings

ROOT = os.path.dirname(os.path.dirname(os.path.abspath(__file__)))
sys.path.insert(0, ROOT)
warnings.filterwarnings('ignore')

import numpy as np
import pyrates
from pyrates.frontend import CircuitTemplate
from pyrates.utility import grid_search, clear_frontend_caches

assert os.path.abspath(pyrates.__file__).startswith(ROOT + os.sep), pyrates.__file__

T, dt = 0.5, 1e-3
failures = []


def column_of(res, key):
    cols = [c for c in res.columns if key in (c if isinstance(c, tuple) else (c,))]
    assert len(cols) == 1, (key, res.columns.tolist())
    return res[cols[0]]


# ---------------------------------------------------------------- (a) closed form, single uncoupled oscillator
clear_frontend_caches()
path1 = 'model_templates.oscillators.kuramoto.kmo'
base = CircuitTemplate.from_yaml(path1)
base.update_var(node_vars={'p/phase_op/omega': 3.0})       # baseline of the study: omega = 3 (YAML file says 10)

grid = {'om': [5.0, 10.0, 12.0]}
pmap = {'om': {'vars': ['phase_op/omega'], 'nodes': ['p']}}
res, table = grid_search(base, grid, pmap, step_size=dt, simulation_time=T, sampling_step_size=dt,
                         outputs={'th': 'p/phase_op/theta'}, verbose=False)
for key in table.index:
    om = float(table.loc[key, 'om'])
    series = column_of(res, key)
    expected = om * np.asarray(series.index)               # Euler on theta' = omega is exact
    err = float(np.max(np.abs(series.values - expected)))
    ok = err < 1e-3                                        # (single precision state vector: ~1e-5)
    print(f"(a) {key}: omega={om:5.1f}  max|theta - omega*t| = {err:.3e}  {'ok' if ok else 'MISMATCH'}")
    if not ok:
        failures.append(('a', key, om, err))

# ---------------------------------------------------------------- (b) separate runs, 2 coupled oscillators + input
clear_frontend_caches()
path2 = 'model_templates.oscillators.kuramoto.kmo_2coupled'
edge = ('p1/phase_op/theta', 'p2/phase_op/s_in')
inp = np.sin(np.arange(int(round(T / dt)) + 1) * dt * 6.0)

base2 = CircuitTemplate.from_yaml(path2)
base2.update_var(node_vars={'p1/phase_op/omega': 4.0, 'p2/phase_op/K': 0.5})

grid2 = {'om': [10.0, 7.0], 'K': [1.0, 2.0], 'w': [-4.0, -1.5]}
pmap2 = {'om': {'vars': ['phase_op/omega'], 'nodes': ['p1']},
         'K': {'vars': ['phase_op/K'], 'nodes': ['p2']},
         'w': {'vars': ['weight'], 'edges': [edge]}}
res2, table2 = grid_search(base2, grid2, pmap2, step_size=dt, simulation_time=T, sampling_step_size=dt,
                           outputs={'th': 'p2/phase_op/theta'}, inputs={'p2/phase_op/s_ext': inp.copy()},
                           permute_grid=True, verbose=False)
assert len(table2.index) == 8
for key in table2.index:
    om, K, w = (float(table2.loc[key, k]) for k in ('om', 'K', 'w'))
    clear_frontend_caches()
    single = CircuitTemplate.from_yaml(path2)
    single.update_var(node_vars={'p1/phase_op/omega': om, 'p2/phase_op/K': K},
                      edge_vars=[(edge[0], edge[1], {'weight': w})])
    ref = single.run(simulation_time=T, step_size=dt, sampling_step_size=dt, outputs={'th': 'p2/phase_op/theta'},
                     inputs={'p2/phase_op/s_ext': inp.copy()}, verbose=False)
    series = column_of(res2, key)
    err = float(np.max(np.abs(series.values - ref['th'].values)))
    ok = err < 1e-9
    print(f"(b) {key}: omega={om:5.1f} K={K:3.1f} w={w:4.1f}  max|sweep - single run| = {err:.3e}  "
          f"{'ok' if ok else 'MISMATCH'}")
    if not ok:
        failures.append(('b', key, (om, K, w), err))

if failures:
    print(f"FAIL ({len(failures)} parametrizations of the sweep differ from the run of that parametrization alone)")
    sys.exit(1)
print("PASS")
sys.exit(0)
