"""Demo for property C05 (equation language means what its arithmetic says).

Each right-hand side below is evaluated through BOTH evaluation paths of PyRates
  (a) direct evaluation of the parsed expression (ComputeGraph.eval_node), and
  (b) the generated source code (ComputeGraph.to_func),
and both results are compared against the value that plain numpy arithmetic gives for the same formula.
Prints PASS / exits 0 if every value is right, prints FAIL / exits 1 otherwise.
"""
import os
import sys
import warnings

ROOT = os.path.dirname(os.path.dirname(os.path.abspath(__file__)))
sys.path.insert(0, ROOT)
warnings.filterwarnings('ignore')

import numpy as np
import pyrates
assert os.path.abspath(pyrates.__file__).startswith(ROOT + os.sep), pyrates.__file__

from pyrates.backend.computegraph import ComputeGraph
from pyrates.backend.parser import parse_equations

# argument values
VALS = {'x': 0.3, 'a': 1.7, 'b': -0.6, 'f': 2.5, 'r_in0': 0.8,
        'w': np.array([0.2, 0.5, -1.1, 0.9])}


def build(rhs: str, notation: str):
    """Parse `d/dt * x = rhs` (or `x' = rhs`) into a fresh compute graph."""
    cg = ComputeGraph(backend='default', float_precision='float64')
    args = {}
    for key, val in VALS.items():
        val = np.asarray(val, dtype=np.float64)
        args[f'n/op/{key}'] = {'vtype': 'state_var' if key == 'x' else 'constant', 'value': val,
                               'shape': val.shape, 'dtype': 'float'}
    eq = f"d/dt * x = {rhs}" if notation == 'd/dt' else f"x' = {rhs}"
    parse_equations([(eq, 'n/op')], args, cg, def_shape=())
    return cg


def direct_value(rhs: str, notation: str):
    cg = build(rhs, notation)
    return np.asarray(cg.eval_node(cg.var_updates['DEs']['x']), dtype=np.float64)


def generated_value(rhs: str, notation: str):
    cg = build(rhs, notation)
    func, fargs, _, idx = cg.to_func('c05_demo_rhs', to_file=False)
    return np.asarray(func(*fargs), dtype=np.float64)[idx['x']]


x, a, b, f, r_in0, w = (VALS[k] for k in ('x', 'a', 'b', 'f', 'r_in0', 'w'))
pi, E = np.pi, np.e
sin, cos, exp, tanh = np.sin, np.cos, np.exp, np.tanh

# (right-hand side, expected value computed with plain numpy, paths to check)
# note: the constant E is only checked on the direct path, the other cases on both paths
CASES = [
    ("a*x + b", a*x + b, 'dg'),
    ("2.*a*b - x/3", 2.*a*b - x/3, 'dg'),
    ("-x + r_in0*(a - b)^2", -x + r_in0*(a - b)**2, 'dg'),
    ("(a + b + x)*r_in0*f", (a + b + x)*r_in0*f, 'dg'),
    ("a + tanh(b*x) - 0.25", a + tanh(b*x) - 0.25, 'dg'),
    ("vsum(index_range(w, 1, 3))*x + a", np.sum(w[1:3])*x + a, 'dg'),
    # the documented constants next to variables, written in different ways
    ("sin(2*pi*f*x)", sin(2*pi*f*x), 'dg'),
    ("sin(f*x*pi*2)", sin(f*x*pi*2), 'dg'),
    ("a*x + pi", a*x + pi, 'dg'),
    ("pi + b", pi + b, 'dg'),
    ("x/(pi*a) + cos(x)", x/(pi*a) + cos(x), 'dg'),
    ("(a - (pi*x*b)**2)/f", (a - (pi*x*b)**2)/f, 'dg'),
    ("a*x^pi", a*x**pi, 'dg'),
    ("exp(-x/pi)", exp(-x/pi), 'dg'),
    ("E*x + a", E*x + a, 'd'),
    ("a - E", a - E, 'd'),
    ("exp(1)*b*x", np.exp(1)*b*x, 'd'),
]

failures = []
for rhs, expected, paths in CASES:
    for notation in ('d/dt', "x'"):
        got = {}
        if 'd' in paths:
            got['direct'] = direct_value(rhs, notation)
        if 'g' in paths:
            got['generated'] = generated_value(rhs, notation)
        for path, val in got.items():
            ok = np.allclose(val, expected, rtol=1e-9, atol=1e-12)
            if not ok:
                failures.append((rhs, notation, path, float(val), float(expected)))

for rhs, notation, path, val, expected in failures:
    print(f"  wrong value on the {path} path for `{rhs}` ({notation} notation): got {val!r}, expected {expected!r}")

if failures:
    print("FAIL")
    sys.exit(1)
print("PASS")
sys.exit(0)
