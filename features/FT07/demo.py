"""Demo for property C07 (overrides reach exactly their targets), path: pyrates.utility.adapt_circuit -> update_var.

Two edges connect the same pair of variables (a/lin_op/x -> b/lin_op/r_in, weights 1.0 and 2.0). A parameter map
entry addresses the SECOND of them via the documented (source, target, idx) form. Expected (computed by hand):
  - template level: weights of the a->b edges are [1.0, 7.0]; the b->a edge keeps 0.25; the original is untouched
  - compiled level: the vector field at y = (0.5, 0.5) is
        dx_a = -k*x_a + 0.25*x_b       = -1.0 + 0.125 = -0.875
        dx_b = -k*x_b + (1.0+7.0)*x_a  = -1.0 + 4.0   =  3.0
"""
import os
import sys

ROOT = os.path.dirname(os.path.dirname(os.path.abspath(__file__)))
sys.path.insert(0, ROOT)

import numpy as np
import pyrates
assert os.path.abspath(pyrates.__file__).startswith(ROOT + os.sep), pyrates.__file__

from pyrates.frontend import CircuitTemplate, NodeTemplate, OperatorTemplate
from pyrates.utility import adapt_circuit, clear_frontend_caches

failures = []


def check(cond, msg):
    if not cond:
        failures.append(msg)


def build():
    op = OperatorTemplate(name='lin_op', path=None, equations=["d/dt * x = -k*x + r_in"],
                          variables={'x': 'output(0.5)', 'k': 2.0, 'r_in': 'input(0.0)'})
    node = NodeTemplate(name='lin', path=None, operators=[op])
    edges = [('a/lin_op/x', 'b/lin_op/r_in', None, {'weight': 1.0}),
             ('a/lin_op/x', 'b/lin_op/r_in', None, {'weight': 2.0}),
             ('b/lin_op/x', 'a/lin_op/r_in', None, {'weight': 0.25})]
    return CircuitTemplate(name='net', path=None, nodes={'a': node, 'b': node}, edges=edges)


S, T = 'a/lin_op/x', 'b/lin_op/r_in'
W_NEW = 7.0

for vectorize in (False, True):
    net = build()
    new = adapt_circuit(net, {'w': W_NEW}, {'w': {'vars': ['weight'], 'edges': [(S, T, 1)]}})

    # template level: exactly the addressed edge changed
    w_ab = [e[3]['weight'] for e in new.edges if e[0] == S and e[1] == T]
    w_ba = [e[3]['weight'] for e in new.edges if e[0] == 'b/lin_op/x']
    check(w_ab == [1.0, W_NEW], f"vectorize={vectorize}: a->b edge weights {w_ab}, expected [1.0, {W_NEW}]")
    check(w_ba == [0.25], f"vectorize={vectorize}: b->a edge weight {w_ba}, expected [0.25]")
    check(new.get_edge(S, T, 0)[3]['weight'] == 1.0, f"vectorize={vectorize}: get_edge(idx=0) was changed")
    check(new.get_edge(S, T, 1)[3]['weight'] == W_NEW, f"vectorize={vectorize}: get_edge(idx=1) was not changed")
    check([e[3]['weight'] for e in net.edges] == [1.0, 2.0, 0.25], f"vectorize={vectorize}: original was altered")

    # compiled level: evaluate the vector field at the initial state
    func, args, arg_names, idx_map = new.get_run_func(f'vf_{int(vectorize)}', step_size=1e-3, backend='default',
                                                     vectorize=vectorize, verbose=False, clear=False)
    y = np.asarray(args[1], dtype=float).copy()
    if vectorize:
        # both nodes live in one state-vector slice (start, stop), ordered like the circuit's nodes (a, b)
        start, stop = idx_map['a/lin_op/x']
        assert stop - start == 2, idx_map
        ia, ib = int(start), int(start) + 1
    else:
        ia, ib = int(idx_map['a/lin_op/x']), int(idx_map['b/lin_op/x'])
    y[ia] = 0.5; y[ib] = 0.5
    dy = np.asarray(func(0, y, np.zeros_like(y), *args[3:]), dtype=float)
    expected_a = -2.0 * 0.5 + 0.25 * 0.5
    expected_b = -2.0 * 0.5 + (1.0 + W_NEW) * 0.5
    check(abs(dy[ia] - expected_a) < 1e-5, f"vectorize={vectorize}: dx_a = {dy[ia]}, expected {expected_a}")
    check(abs(dy[ib] - expected_b) < 1e-5, f"vectorize={vectorize}: dx_b = {dy[ib]}, expected {expected_b}")
    new.clear()
    clear_frontend_caches()

if failures:
    print("FAIL")
    for f in failures:
        print("  -", f)
    sys.exit(1)
print("PASS")
sys.exit(0)
