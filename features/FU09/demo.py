"""Property C09 demo: discrete delays on matrix (Connectivity) edges.

A source population whose operator has TWO output variables (`a` and `b`), each of which is projected
through its own delayed Connectivity matrix to its own target population.  Under the explicit Euler solver
the target must receive, at step k,  W @ source[k - round(delay/dt)]  (zero before the simulation started).

The expected trajectories are computed with an independent numpy recurrence (no PyRates code involved).
Prints PASS / exits 0 when all trajectories match, prints FAIL / exits 1 otherwise.
"""
import os
import sys
import tempfile

ROOT = os.path.dirname(os.path.dirname(os.path.abspath(__file__)))
sys.path.insert(0, ROOT)

import numpy as np
import pyrates
from pyrates import OperatorTemplate, NodeTemplate, CircuitTemplate
from pyrates.backend import PyRatesException
from pyrates.frontend.template.population import PopulationTemplate, Connectivity
from pyrates.ir.node import clear_ir_caches

assert os.path.abspath(pyrates.__file__).startswith(ROOT + os.sep), pyrates.__file__

scratch = os.path.join(ROOT, '.scratch')
os.chdir(tempfile.mkdtemp(dir=scratch))

DT = 0.1
T = 2.0
N_STEPS = int(round(T / DT))
CA = np.array([1.0, 2.0])      # slopes of source variable a
CB = np.array([-3.0, 5.0])     # slopes of source variable b
W1 = np.array([[1.0, 0.5], [0.0, 2.0]])
W2 = np.array([[0.0, 1.0], [3.0, -1.0]])


def reference(conns):
    """conns: list of (source slopes, W, delay in time units or None). Returns list of target trajectories."""
    out = []
    for slopes, W, delay in conns:
        d = 0 if delay is None else int(round(delay / DT))
        src = np.zeros((N_STEPS, 2))
        for k in range(1, N_STEPS):
            src[k] = src[k - 1] + DT * slopes          # explicit Euler of  src' = slopes
        x = np.zeros((N_STEPS, 2))
        for k in range(N_STEPS - 1):
            delayed = src[k - d] if k - d >= 0 else np.zeros(2)
            x[k + 1] = x[k] + DT * (W @ delayed)       # explicit Euler of  x' = u,  u = W @ src[k-d]
        out.append(x)
    return out


def simulate(conn_specs):
    """conn_specs: list of (source variable name, W, delay). Target i is population q<i>."""
    clear_ir_caches()
    src = OperatorTemplate(name='src', equations=["a' = ca", "b' = cb"],
                           variables={'a': 'output(0.0)', 'b': 'variable(0.0)', 'ca': 1.0, 'cb': 1.0})
    pops = {'p': PopulationTemplate(name='p', node=NodeTemplate(name='ps', operators=[src]), n=2,
                                    params={'src/ca': list(CA), 'src/cb': list(CB)})}
    conns, outputs = [], {}
    for i, (svar, W, delay) in enumerate(conn_specs):
        tgt = OperatorTemplate(name=f'tgt{i}', equations=["x' = u - k*x"],
                               variables={'x': 'output(0.0)', 'u': 'input', 'k': 0.0})
        pops[f'q{i}'] = PopulationTemplate(name=f'q{i}', node=NodeTemplate(name=f'pt{i}', operators=[tgt]), n=2)
        conns.append(Connectivity(f'p/src/{svar}', f'q{i}/tgt{i}/u', weights=W, delays=delay))
        outputs[f'x{i}'] = f'q{i}/tgt{i}/x'
    net = CircuitTemplate(name='net', populations=pops, connections=conns)
    res = net.run(simulation_time=T, step_size=DT, solver='euler', outputs=outputs, backend='default',
                  clear=True, verbose=False)
    return [np.asarray(res[f'x{i}'].values, dtype=float).reshape(N_STEPS, 2) for i in range(len(conn_specs))]


def check(name, conn_specs, optional=False):
    slopes = {'a': CA, 'b': CB}
    try:
        got = simulate(conn_specs)
    except PyRatesException as e:
        if optional:
            print(f"  [{name}] not supported by this version ({str(e)[:60]}...) - skipped")
            return True
        raise
    exp = reference([(slopes[v], W, d) for v, W, d in conn_specs])
    ok = True
    for i, (g, e) in enumerate(zip(got, exp)):
        good = np.allclose(g, e, rtol=1e-5, atol=1e-5)
        print(f"  [{name}] target q{i} (source {conn_specs[i][0]}, delay {conn_specs[i][2]}): "
              f"{'ok' if good else 'MISMATCH, max abs err %.4g' % np.max(np.abs(g - e))}")
        ok = ok and good
    return ok


results = [
    # two variables of the same source operator, each with its own delayed Connectivity
    check("a:3 steps, b:5 steps", [('a', W1, 0.3), ('b', W2, 0.5)]),
    check("a:4 steps, b:4 steps", [('a', W1, 0.4), ('b', W2, 0.4)]),
    # delayed + undelayed connection from different variables
    check("a:3 steps, b:none", [('a', W1, 0.3), ('b', W2, None)]),
    # several delays on ONE source variable (raises a name collision in older versions -> optional)
    check("a:2 steps, a:6 steps, a:2 steps", [('a', W1, 0.2), ('a', W2, 0.6), ('a', W2, 0.2)], optional=True),
    check("a:6 steps, a:3 steps, b:4 steps", [('a', W1, 0.6), ('a', W2, 0.3), ('b', W1, 0.4)], optional=True),
]

if all(results):
    print("PASS")
    sys.exit(0)
print("FAIL")
sys.exit(1)
