"""Demo for property C13 (results do not depend on what the process did before).

Model under test: a single population of QIF neurons with spike-frequency adaptation, built from the library
operator `qif_sfa_op`, which is loaded from its YAML file via the slash (file path) notation. The model is simulated

  (A) after the process has already used the library circuit `qif_sfa` (loaded via the dot/module notation, simulated
      and cleared) - i.e. "what the process did before",
  (B) after `clear_frontend_caches()`, as a control.

Both results must coincide with an independent explicit-Euler integration of the mean-field equations
(Gast et al. 2020), written out by hand below.
"""
import os
import sys
import warnings

ROOT = os.path.dirname(os.path.dirname(os.path.abspath(__file__)))
sys.path.insert(0, ROOT)
os.chdir(ROOT)
warnings.filterwarnings("ignore")

import numpy as np
import pyrates
from pyrates import CircuitTemplate, NodeTemplate, OperatorTemplate, clear_frontend_caches

assert os.path.abspath(pyrates.__file__).startswith(ROOT + os.sep), pyrates.__file__

T, dt = 40.0, 1e-3
I_ext = 8.0     # constant extrinsic drive (set via update_var), brings the population into the active regime
J = 15.0


def reference():
    """Independent explicit Euler integration of the QIF-SFA mean-field equations."""
    Delta, tau, eta, alpha, tau_a = 1.0, 1.0, -5.0, 0.5, 10.0
    r, v, a, x = 0.01, -2.0, 0.0, 0.0
    n = int(round(T / dt))
    rs = np.zeros(n)
    for i in range(n):
        rs[i] = r
        dr = (Delta / (np.pi * tau) + 2.0 * r * v) / tau
        dv = (v ** 2 + eta - a + I_ext + tau * J * r - (np.pi * tau * r) ** 2) / tau
        da = x / tau_a
        dx = alpha * r - 2.0 * x / tau_a - a / tau_a
        r, v, a, x = r + dt * dr, v + dt * dv, a + dt * da, x + dt * dx
    return rs


def model_under_test():
    """QIF-SFA population assembled by hand from the library operator (loaded by file path)."""
    op = OperatorTemplate.from_yaml(f"{ROOT}/model_templates/neural_mass_models/qif/qif_sfa_op")
    node = NodeTemplate(name="sfa_pop", operators=[op])
    net = CircuitTemplate(name="sfa_net", nodes={"p": node},
                          edges=[("p/qif_sfa_op/r", "p/qif_sfa_op/r_in", None, {"weight": J})])
    net.update_var(node_vars={"p/qif_sfa_op/I_ext": I_ext})
    res = net.run(simulation_time=T, step_size=dt, sampling_step_size=dt, outputs={"r": "p/qif_sfa_op/r"},
                  solver="euler", vectorize=False, verbose=False, clear=True, float_precision="float64",
                  file_name="c13_demo_model")
    return np.asarray(res["r"].values).squeeze()


def check(label, r, r_ref):
    n = min(len(r), len(r_ref))
    err = float(np.max(np.abs(r[:n] - r_ref[:n])))
    ok = err < 1e-6
    print(f"  {label}: max |r - r_ref| = {err:.3e}   (r(T) = {r[n-1]:.6f}, reference {r_ref[n-1]:.6f})"
          f"  -> {'ok' if ok else 'MISMATCH'}")
    return ok


def main():
    r_ref = reference()
    results = []

    # what the process did before: work with the library circuit that contains the same operator
    earlier = CircuitTemplate.from_yaml("model_templates.neural_mass_models.qif.qif_sfa")
    earlier.run(simulation_time=1.0, step_size=dt, outputs={"r": "p/qif_sfa_op/r"}, solver="euler",
                vectorize=False, verbose=False, clear=True, file_name="c13_demo_earlier")

    # (A) model under test, handled after the earlier model
    try:
        results.append(check("after an earlier model ", model_under_test(), r_ref))
    except Exception as e:
        print(f"  after an earlier model : raised {type(e).__name__}: {e}")
        results.append(False)

    # (B) control: same model with all frontend caches dropped first
    clear_frontend_caches()
    try:
        results.append(check("after clearing caches  ", model_under_test(), r_ref))
    except Exception as e:
        print(f"  after clearing caches  : raised {type(e).__name__}: {e}")
        results.append(False)

    if all(results):
        print("PASS")
        return 0
    print("FAIL")
    return 1


if __name__ == "__main__":
    sys.exit(main())
