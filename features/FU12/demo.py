"""Property C12 demo: the matrices returned by the function from get_jacobian_func are the partial
derivatives of the vector field from get_run_func -- w.r.t. the state (J0) and w.r.t. the state delayed
by each distinct delay (J_hist) -- at every time, state and parameter value.

Model: two nodes with scalar states (u, w); the delayed variable is `w` (NOT the first state variable),
the delayed input enters the equations non-linearly (tanh(k*w)*inp, sigmoid(inp2 + u)), so that both the
instantaneous entries and the history entries contain delayed factors.  Adaptive solver ('scipy'),
default (numpy) backend, float64.

The expected matrices are computed independently by central finite differences of the run function:
  J0[:, j]      = d f / d y_j
  J_tau[:, j]   = d f / d (hist(t - tau))_j     (the history callable is perturbed at t - tau only)
for a smooth, non-constant history and several (t, y, parameter) samples with t > 0.
"""
import os
import sys
import warnings

ROOT = '/tmp/seed/C12h'
sys.path.insert(0, ROOT)
os.makedirs(os.path.join(ROOT, '.scratch', 'demo_build'), exist_ok=True)
os.chdir(os.path.join(ROOT, '.scratch', 'demo_build'))
warnings.filterwarnings('ignore')

import numpy as np
import pyrates
assert os.path.abspath(pyrates.__file__).startswith(ROOT + os.sep), pyrates.__file__

from pyrates import CircuitTemplate, OperatorTemplate, NodeTemplate
from pyrates.ir.node import clear_ir_caches

DELAYS = (0.3, 0.5)


def build(tag):
    op = OperatorTemplate(
        name=f'op_{tag}',
        equations=["u' = -u/tau + tanh(k*w)*inp",
                   "w' = -w + sigmoid(inp2 + u)"],
        variables={'u': 'variable(0.3)', 'w': 'output(0.2)', 'tau': 2.0, 'k': 1.5,
                   'inp': 'input(0.0)', 'inp2': 'input(0.0)'})
    node = NodeTemplate(name=f'n_{tag}', operators=[op])
    return CircuitTemplate(
        name=f'c_{tag}', nodes={'p': node, 'q': node},
        edges=[(f'p/op_{tag}/w', f'q/op_{tag}/inp', None, {'weight': 0.7, 'delay': 0.3}),
               (f'q/op_{tag}/w', f'p/op_{tag}/inp', None, {'weight': 1.1, 'delay': 0.5}),
               (f'q/op_{tag}/w', f'p/op_{tag}/inp2', None, {'weight': 1.3, 'delay': 0.5}),
               (f'p/op_{tag}/w', f'q/op_{tag}/inp2', None, {'weight': 0.4, 'delay': 0.5})])


kw = dict(step_size=1e-3, solver='scipy', in_place=False, clear=False, vectorize=False,
          backend='default', verbose=False, float_precision='float64')
jac, jargs, jnames, jidx = build('jac').get_jacobian_func(func_name='demo_jac', file_name='demo_jac_f', **kw)
clear_ir_caches()
run, rargs, rnames, ridx = build('run').get_run_func(func_name='demo_run', file_name='demo_run_f', **kw)
clear_ir_caches()

assert jnames[:3] == ('t', 'y', 'hist') and rnames[:4] == ('t', 'y', 'hist', 'dy')
assert [k.replace('op_jac', 'op') for k in jidx] == [k.replace('op_run', 'op') for k in ridx], (jidx, ridx)
assert list(jidx.values()) == list(ridx.values()) == [0, 1, 2, 3]
n = 4

jpar = {k: float(v) for k, v in zip(jnames[3:], jargs[3:])}
rpar = {k: float(v) for k, v in zip(rnames[4:], rargs[4:])}
OP_PARAMS = ['p/op_X/k', 'p/op_X/tau', 'q/op_X/k', 'q/op_X/tau']


def history(s):
    """smooth, non-constant history of the four state variables"""
    s = float(s)
    return np.array([0.3 + 0.20 * np.sin(1.3 * s + 0.1),
                     0.2 + 0.50 * np.cos(0.9 * s - 0.4),
                     -0.1 + 0.30 * np.sin(2.1 * s + 1.0),
                     0.4 + 0.60 * np.sin(0.7 * s - 0.8)])


def f(t, y, hist, par):
    dy = np.zeros(n)
    return np.array(run(t, np.array(y, dtype=float), hist, dy, *[par[k] for k in rnames[4:]]), dtype=float).copy()


def expected(t, y, par, eps=1e-6):
    J0 = np.zeros((n, n))
    for j in range(n):
        e = np.zeros(n); e[j] = eps
        J0[:, j] = (f(t, y + e, history, par) - f(t, y - e, history, par)) / (2 * eps)
    Jh = {}
    for tau in DELAYS:
        M = np.zeros((n, n))
        for j in range(n):
            def hp(s, sign, j=j, tau=tau):
                h = history(s).copy()
                if abs(float(s) - (t - tau)) < 1e-9:
                    h[j] += sign * eps
                return h
            M[:, j] = (f(t, y, lambda s: hp(s, 1.0), par) - f(t, y, lambda s: hp(s, -1.0), par)) / (2 * eps)
        Jh[tau] = M
    return J0, Jh


rng = np.random.default_rng(12)
ok, worst = True, 0.0
for t in (0.0, 0.9, 2.35, 7.0):
    y = rng.uniform(-1.0, 1.0, size=n)
    vals = {'p/op_X/k': rng.uniform(0.5, 2.0), 'p/op_X/tau': rng.uniform(0.5, 3.0),
            'q/op_X/k': rng.uniform(0.5, 2.0), 'q/op_X/tau': rng.uniform(0.5, 3.0)}
    jp, rp = dict(jpar), dict(rpar)
    for k, v in vals.items():
        jp[k.replace('op_X', 'op_jac')] = v
        rp[k.replace('op_X', 'op_run')] = v
    assert set(jp) == set(jpar) and set(rp) == set(rpar)

    J0_exp, Jh_exp = expected(t, y, rp)
    res = jac(t, y.copy(), history, *[jp[k] for k in jnames[3:]])
    assert isinstance(res, tuple) and len(res) == 2 and len(res[1]) == len(DELAYS), res
    J0 = np.asarray(res[0], dtype=float)
    Jh = [np.asarray(m, dtype=float) for m in res[1]]

    err0 = np.max(np.abs(J0 - J0_exp))
    # the order of the history matrices is not part of the property: match them as a set
    remaining, errh = dict(Jh_exp), 0.0
    for M in Jh:
        tau_best = min(remaining, key=lambda tau: np.max(np.abs(M - remaining[tau])))
        errh = max(errh, np.max(np.abs(M - remaining.pop(tau_best))))
    worst = max(worst, err0, errh)
    good = err0 < 1e-5 and errh < 1e-5
    ok = ok and good
    print(f"t={t:5.2f}: max|J0 - dF/dy| = {err0:.2e}, max|J_tau - dF/dy(t-tau)| = {errh:.2e} -> {'ok' if good else 'MISMATCH'}")
    # sanity: the finite-difference reference is not trivially zero
    assert np.count_nonzero(np.abs(J0_exp) > 1e-3) >= 8 and all(np.abs(M).max() > 1e-2 for M in Jh_exp.values())

if ok:
    print("PASS")
    sys.exit(0)
print(f"FAIL: Jacobian from get_jacobian_func differs from the derivative of get_run_func (max abs error {worst:.3e})")
sys.exit(1)
