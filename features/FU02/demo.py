"""Demo for property C02 (all backends compute the same function for the same model).

Model (legal in the equation language, number operands of `maxi` / `mini` on either side):

    x' = -x + mini(0.7, g*x) + maxi(v - x, 0.1)
    v' = (maxi(0.3, x) - v) / tau

Every backend that ACCEPTS the model must produce the vector field

    dx = -x + min(0.7, g*x) + max(v - x, 0.1)
    dv = (max(0.3, x) - v) / tau

to working precision (float64: ~1e-15, float32: ~1e-7), for every state, with arguments matched by name, and the
same Euler trajectory.  The expected values are computed here with plain numpy/Python floats, independently of PyRates.

A backend that rejects the model (raises when the model is compiled or the vector field is first called) is outside
the quantifier of the property ("for all models in the feature set a backend accepts") and is reported as `rejected`.
A second model that uses only tensor/tensor operands (`mini(c, g*x)` with a parameter c) is accepted by every backend
in every version and is checked the same way, so the script never passes vacuously.

Run:  cd /tmp/seed/C02h && /venv/bin/python .scratch/demo.py
"""
import os
import sys
import tempfile

ROOT = os.path.dirname(os.path.dirname(os.path.abspath(__file__)))
sys.path.insert(0, ROOT)

import numpy as np
import pyrates
assert os.path.abspath(pyrates.__file__).startswith(ROOT + os.sep), pyrates.__file__
from pyrates import CircuitTemplate, NodeTemplate, OperatorTemplate, clear

os.makedirs(os.path.join(ROOT, '.scratch', 'work'), exist_ok=True)
os.chdir(tempfile.mkdtemp(prefix='demo_', dir=os.path.join(ROOT, '.scratch', 'work')))

G, TAU, C = 2.0, 0.8, 0.7
X0, V0 = 0.2, 0.5
DT, T = 1e-3, 1.5

MODELS = {
    # name: (equations, variables, reference vector field)
    'numbers': (["x' = -x + mini(0.7, g*x) + maxi(v - x, 0.1)", "v' = (maxi(0.3, x) - v)/tau"],
                {'x': f'output({X0})', 'v': f'variable({V0})', 'g': G, 'tau': TAU},
                lambda x, v: (-x + min(0.7, G * x) + max(v - x, 0.1), (max(0.3, x) - v) / TAU)),
    'tensors': (["x' = -x + mini(c, g*x) + maxi(v - x, c2)", "v' = (maxi(c3, x) - v)/tau"],
                {'x': f'output({X0})', 'v': f'variable({V0})', 'g': G, 'tau': TAU, 'c': C, 'c2': 0.1, 'c3': 0.3},
                lambda x, v: (-x + min(C, G * x) + max(v - x, 0.1), (max(0.3, x) - v) / TAU)),
}

# states that visit every branch of the three extrema (x < 0.3, 0.3 < x < 0.35, x > 0.35 where 0.7 is selected, ...)
STATES = [(0.2, 0.5), (0.31, 0.2), (0.4, 0.45), (0.9, 1.3), (1.7, 0.1), (-0.4, -0.2), (0.35, 0.45)]


def circuit(name):
    eqs, variables, _ = MODELS[name]
    op = OperatorTemplate(name='op', path=None, equations=eqs, variables=dict(variables))
    node = NodeTemplate(name='n', path=None, operators=[op])
    return CircuitTemplate(name='c', path=None, nodes={'p': node})


def to_backend(backend, arr, like):
    if backend == 'torch':
        import torch
        return torch.as_tensor(np.asarray(arr), dtype=like.dtype)
    if backend == 'jax':
        import jax.numpy as jnp
        return jnp.asarray(arr, dtype=like.dtype)
    return np.asarray(arr, dtype=like.dtype)


def check(name, backend, precision):
    """Returns a list of failure messages (empty: fine) or None if the backend rejects the model."""
    ref = MODELS[name][2]
    tol = 1e-12 if precision == 'float64' else 2e-6
    failures = []

    # (1) vector field, arguments matched by their names
    c = circuit(name)
    try:
        func, args, arg_names, idx = c.get_run_func('vf', step_size=DT, backend=backend, solver='euler',
                                                    vectorize=False, float_precision=precision, verbose=False,
                                                    clear=False, file_name=f'vf_{name}_{backend}_{precision}')
        args = list(args)
        iy = arg_names.index('y')
        ix, iv = idx['p/op/x'], idx['p/op/v']
        for x, v in STATES:
            y = np.zeros(2)
            y[ix], y[iv] = x, v
            args[iy] = to_backend(backend, y, args[iy])
            try:
                out = np.asarray(func(*args), dtype=np.float64)
            except TypeError as e:
                if 'must be Tensor' in str(e):
                    return None      # backend does not accept number operands: outside the property's quantifier
                raise
            xs, vs = np.float64(y[ix]), np.float64(y[iv])
            if precision == 'float32':
                xs, vs = np.float64(np.float32(x)), np.float64(np.float32(v))
            exp = ref(float(xs), float(vs))
            err = max(abs(out[ix] - exp[0]), abs(out[iv] - exp[1]))
            if not err <= tol * max(1.0, abs(exp[0]), abs(exp[1])):
                failures.append(f"vector field at (x={x}, v={v}): got ({out[ix]!r}, {out[iv]!r}), "
                                f"expected ({exp[0]!r}, {exp[1]!r}), err={err:.3e}")
    finally:
        clear(c)

    # (2) Euler trajectory against a hand-written Euler loop in float64
    c = circuit(name)
    try:
        res = c.run(simulation_time=T, step_size=DT, backend=backend, solver='euler', vectorize=False,
                    outputs={'x': 'p/op/x', 'v': 'p/op/v'}, float_precision=precision, verbose=False, clear=False,
                    file_name=f'run_{name}_{backend}_{precision}')
    finally:
        clear(c)
    n = int(round(T / DT))
    traj = np.zeros((n, 2))
    x, v = X0, V0
    for i in range(n):
        traj[i] = x, v
        dx, dv = ref(x, v)
        x, v = x + DT * dx, v + DT * dv
    got = np.stack([res['x'].values.squeeze(), res['v'].values.squeeze()], axis=1)
    ttol = 1e-11 if precision == 'float64' else 5e-4
    terr = np.max(np.abs(got - traj))
    if not terr <= ttol:
        failures.append(f"euler trajectory: max abs deviation {terr:.3e} (tolerance {ttol:.0e})")
    return failures


def main():
    ok = True
    accepted = 0
    for name in ['tensors', 'numbers']:
        for backend in ['default', 'jax', 'torch']:
            for precision in ['float32', 'float64']:
                fails = check(name, backend, precision)
                label = f"model={name:8s} backend={backend:8s} {precision}"
                if fails is None:
                    print(f"{label}: rejected by the backend (not in the accepted feature set) - skipped")
                    assert name == 'numbers' and backend == 'torch', "only torch may reject, and only number operands"
                elif fails:
                    ok = False
                    print(f"{label}: DISAGREES with the reference")
                    for f in fails[:4]:
                        print("     ", f)
                else:
                    accepted += 1
                    print(f"{label}: agrees with the reference")
    assert accepted >= 10 or not ok
    print("PASS" if ok else "FAIL")
    return 0 if ok else 1


if __name__ == '__main__':
    sys.exit(main())
