"""Readers for the backend function registries (`*_funcs` dicts) and their embedded helper code (K6)."""
from __future__ import annotations

import ast
import re
from typing import Dict, List, Optional, Tuple

import sympy as sp

from engine import AnalysisError, symx
from engine.srcmodel import Module, walk_shallow, norm
from engine.util import fstring_template, call_name

REGISTRY_MODULES = {
    "base": ("pyrates/backend/base/base_funcs.py", "base_funcs"),
    "torch": ("pyrates/backend/torch/torch_funcs.py", "torch_funcs"),
    "jax": ("pyrates/backend/jax/jax_funcs.py", "jax_funcs"),
    "fortran": ("pyrates/backend/fortran/fortran_funcs.py", "fortran_funcs"),
    "julia": ("pyrates/backend/julia/julia_funcs.py", "julia_funcs"),
    "matlab": ("pyrates/backend/matlab/matlab_funcs.py", "matlab_funcs"),
}


class Registry:
    def __init__(self, ctx, backend: str):
        rel, name = REGISTRY_MODULES[backend]
        self.backend = backend
        self.module: Module = ctx.repo.get_module(rel)
        self.name = name
        sts = self.module.assigns.get(name)
        if not sts or not isinstance(sts[-1], ast.Assign) or not isinstance(sts[-1].value, ast.Dict):
            raise AnalysisError(f"anchor vanished: registry dict {name} in {rel}")
        self.node: ast.Dict = sts[-1].value
        self.stmt = sts[-1]
        self.entries: Dict[str, Dict[str, ast.AST]] = {}
        for k, v in zip(self.node.keys, self.node.values):
            if isinstance(k, ast.Constant) and isinstance(v, ast.Dict):
                self.entries[k.value] = {kk.value: vv for kk, vv in zip(v.keys, v.values) if isinstance(kk, ast.Constant)}

    def module_string(self, name: str) -> Optional[Tuple[str, ast.stmt]]:
        sts = self.module.assigns.get(name)
        if sts and isinstance(sts[-1], ast.Assign) and isinstance(sts[-1].value, ast.Constant) and isinstance(sts[-1].value.value, str):
            return sts[-1].value.value, sts[-1]
        return None

    def module_lambda(self, name: str) -> Optional[Tuple[ast.Lambda, ast.stmt]]:
        sts = self.module.assigns.get(name)
        if sts and isinstance(sts[-1], ast.Assign) and isinstance(sts[-1].value, ast.Lambda):
            return sts[-1].value, sts[-1]
        return None

    def def_source(self, key: str) -> Optional[Tuple[str, ast.stmt, str]]:
        """(source text, defining statement, kind) of the helper for `key`.

        kind: 'pydef' (python def string), 'template' (function returning an f-string template, Fortran),
        'foreign' (non-python def string), None if the entry only binds a library callable."""
        e = self.entries.get(key)
        if e is None:
            return None
        d = e.get("def")
        if isinstance(d, ast.Name):
            s = self.module_string(d.id)
            if s is not None:
                text, st = s
                try:
                    ast.parse(text)
                    return text, st, "pydef"
                except SyntaxError:
                    return text, st, "foreign"
        c = e.get("call")
        if isinstance(c, ast.Name) and c.id in self.module.functions:
            f = self.module.functions[c.id]
            # the template is the f-string assigned to `func` (or returned)
            for n in walk_shallow(f.node):
                if isinstance(n, ast.Assign) and isinstance(n.value, ast.JoinedStr) and len(ast.unparse(n.value)) > 80:
                    return fstring_template(n.value), n, "template"
        return None

    def library_binding(self, key: str) -> Optional[str]:
        e = self.entries.get(key)
        if e is None:
            return None
        call = e.get("call")
        imps = e.get("imports")
        callname = call.value if isinstance(call, ast.Constant) else None
        if isinstance(imps, ast.List):
            for i in imps.elts:
                if isinstance(i, ast.Constant) and callname and i.value.endswith("." + callname):
                    return i.value
        return None


def parse_pydef(text: str) -> ast.FunctionDef:
    tree = ast.parse(text)
    fns = [n for n in tree.body if isinstance(n, ast.FunctionDef)]
    if len(fns) != 1:
        raise AnalysisError("helper string does not define exactly one function")
    from engine.srcmodel import set_parents
    set_parents(tree)
    return fns[0]


def unused_locals(fn: ast.FunctionDef) -> List[str]:
    assigned, read = {}, set()
    for n in ast.walk(fn):
        if isinstance(n, ast.Name):
            if isinstance(n.ctx, ast.Store):
                assigned.setdefault(n.id, n)
            else:
                read.add(n.id)
    return sorted(a for a in assigned if a not in read)


def unread_params(fn: ast.FunctionDef) -> List[str]:
    read = {n.id for n in ast.walk(fn) if isinstance(n, ast.Name) and isinstance(n.ctx, ast.Load)}
    return [a.arg for a in fn.args.args if a.arg not in read]


# ------------------------------------------------------------------------------------------------
# linear-interpolation helper, python form
# ------------------------------------------------------------------------------------------------

def check_py_interp(fn: ast.FunctionDef) -> Tuple[bool, str, dict]:
    """Is the python helper `interp(x_new, x, y)` the linear interpolant between two adjacent samples?"""
    params = [a.arg for a in fn.args.args]
    if len(params) != 3:
        raise AnalysisError(f"interp helper has {len(params)} parameters, expected (x_new, x, y)")
    q, X, Yn = params
    facts = {"params": params}
    ul = unused_locals(fn)
    if ul:
        return False, f"local(s) {ul} are assigned but never read (an index of the bracketing pair is dropped)", facts
    up = unread_params(fn)
    if up:
        return False, f"parameter(s) {up} are never read", facts
    # bracketing pairs: tuple assignments `i1, i2 = a, b`
    pairs = []
    for n in ast.walk(fn):
        if isinstance(n, ast.Assign) and isinstance(n.targets[0], ast.Tuple) and isinstance(n.value, ast.Tuple) \
                and len(n.targets[0].elts) == 2 and len(n.value.elts) == 2:
            pairs.append(n)
    returns = sorted([n for n in ast.walk(fn) if isinstance(n, ast.Return)], key=lambda n: n.lineno)
    if not returns:
        return False, "helper has no return", facts
    main = returns[-1]
    lo_name = hi_name = None
    if pairs:
        names = {tuple(e.id for e in p.targets[0].elts) for p in pairs}
        if len(names) != 1:
            raise AnalysisError("interp helper: bracketing pair assigned to different names in different branches")
        lo_name, hi_name = names.pop()
        for p in pairs:
            a, b = (symx.to_sympy(e) for e in p.value.elts)
            if sp.simplify(b - a - 1) != 0:
                return False, f"bracketing pair `{ast.unparse(p)}` is not two adjacent samples (hi != lo + 1)", facts
    else:
        raise AnalysisError("interp helper: no bracketing pair assignment found (unrecognised form)")
    # inline plain local definitions (w = (x_new - x[i1]) / ...) into the returned expression
    env = {}
    for st in fn.body:
        if isinstance(st, ast.Assign) and len(st.targets) == 1 and isinstance(st.targets[0], ast.Name) \
                and st.targets[0].id not in (lo_name, hi_name):
            try:
                env[st.targets[0].id] = symx.to_sympy(st.value, env=env)
            except symx.Unsupported:
                pass
    try:
        expr = symx.to_sympy(main.value, env=env)
    except symx.Unsupported as e:
        raise AnalysisError(f"interp helper: unsupported return expression: {e}")
    facts["return"] = ast.unparse(main.value)
    lo, hi = sp.Symbol(lo_name), sp.Symbol(hi_name)
    if sp.Symbol(q) not in expr.free_symbols:
        return False, f"the returned value does not depend on the query point `{q}`", facts
    if not symx.is_linear_interpolant(expr, q=sp.Symbol(q), Y=Yn, X=X, lo=lo, hi=hi):
        return False, (f"the returned value is not {Yn}[lo] + ({q}-{X}[lo])/({X}[hi]-{X}[lo])*({Yn}[hi]-{Yn}[lo]) for the "
                       f"bracketing pair (lo={lo_name}, hi={hi_name})"), facts
    # other returns must be clamps: y[<something>]
    for r in returns[:-1]:
        if not (isinstance(r.value, ast.Subscript) and isinstance(r.value.value, ast.Name) and r.value.value.id == Yn):
            return False, f"early return `{ast.unparse(r)}` is not a sample of `{Yn}`", facts
    # branch condition: which side of x[idx] the query lies on
    for n in ast.walk(fn):
        if isinstance(n, ast.If) and any(p in ast.walk(n) for p in pairs):
            facts["branch"] = ast.unparse(n.test)
    return True, "linear interpolant between two adjacent samples", facts


# ------------------------------------------------------------------------------------------------
# linear-interpolation helper, Fortran template form
# ------------------------------------------------------------------------------------------------

_ASSIGN = re.compile(r"^\s*([A-Za-z_⟨⟩][\w⟨⟩]*)\s*=\s*(.+?)\s*$")


def check_fortran_interp(template: str) -> Tuple[bool, str, dict]:
    text = template.replace("⟨fname⟩", "FNAME")
    facts = {}
    lines = [l.strip() for l in text.splitlines()]
    # search loop: `if (x(n) > x_new) exit` => after the loop x(n-1) <= x_new < x(n)
    m = None
    for l in lines:
        m = re.match(r"if \(x\((\w+)\)\s*(>|>=)\s*x_new\)\s*exit", l)
        if m:
            break
    if not m:
        raise AnalysisError("fortran interp: search loop `if (x(n) > x_new) exit` not found (unrecognised form)")
    nvar = m.group(1)
    assigns = []
    for l in lines:
        ma = _ASSIGN.match(l)
        if ma and not l.startswith(("if", "do", "else", "end", "function", "integer", "implicit")) and "::" not in l:
            assigns.append((ma.group(1), ma.group(2)))
    env: Dict[str, sp.Expr] = {}
    finals = []
    for lhs, rhs in assigns:
        try:
            node = ast.parse(rhs, mode="eval").body
        except SyntaxError:
            continue
        try:
            val = symx.to_sympy(node, env=env)
        except symx.Unsupported:
            continue
        if lhs == "FNAME":
            finals.append((rhs, val))
        else:
            env[lhs] = val
    interior = [(r, v) for r, v in finals if sp.Symbol("x_new") in v.free_symbols]
    clamps = [(r, v) for r, v in finals if (r, v) not in interior]
    facts["interior"] = [r for r, _ in interior]
    facts["clamps"] = [r for r, _ in clamps]
    if len(interior) != 1:
        return False, f"expected exactly one interior assignment depending on x_new, found {len(interior)}", facts
    rhs, val = interior[0]
    n = sp.Symbol(nvar)
    facts["normalised"] = str(sp.simplify(val))
    if symx.is_linear_interpolant(val, q=sp.Symbol("x_new"), Y="y", X="x", lo=n - 1, hi=n):
        return True, "interior branch is the linear interpolant between samples n-1 and n", facts
    return False, (f"interior branch `FNAME = {rhs}` is not y(n-1) + (x_new-x(n-1))/(x(n)-x(n-1))*(y(n)-y(n-1)) "
                   f"(the loop leaves x(n-1) <= x_new < x(n))"), facts
