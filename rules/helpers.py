"""Readers for the backend function registries (`*_funcs` dicts) and their embedded helper code (K6)."""
from __future__ import annotations

import ast
import re
from typing import Dict, List, Optional, Tuple

import sympy as sp

from engine import AnalysisError, symx
from engine.srcmodel import Module, walk_shallow, norm
from engine.util import fstring_template, call_name

REGISTRY_MODULES = {
    "base": ("pyrates/backend/base/base_funcs.py", "base_funcs"),
    "torch": ("pyrates/backend/torch/torch_funcs.py", "torch_funcs"),
    "jax": ("pyrates/backend/jax/jax_funcs.py", "jax_funcs"),
    "fortran": ("pyrates/backend/fortran/fortran_funcs.py", "fortran_funcs"),
    "julia": ("pyrates/backend/julia/julia_funcs.py", "julia_funcs"),
    "matlab": ("pyrates/backend/matlab/matlab_funcs.py", "matlab_funcs"),
}


class Registry:
    def __init__(self, ctx, backend: str):
        rel, name = REGISTRY_MODULES[backend]
        self.ctx = ctx
        self.backend = backend
        self.module: Module = ctx.repo.get_module(rel)
        self.name = name
        sts = self.module.assigns.get(name)
        if not sts or not isinstance(sts[-1], ast.Assign) or not isinstance(sts[-1].value, ast.Dict):
            raise AnalysisError(f"anchor vanished: registry dict {name} in {rel}")
        self.node: ast.Dict = sts[-1].value
        self.stmt = sts[-1]
        self.entries: Dict[str, Dict[str, ast.AST]] = {}
        for k, v in zip(self.node.keys, self.node.values):
            if isinstance(k, ast.Constant) and isinstance(v, ast.Dict):
                self.entries[k.value] = {kk.value: vv for kk, vv in zip(v.keys, v.values) if isinstance(kk, ast.Constant)}

    def module_string(self, name: str) -> Optional[Tuple[str, ast.stmt]]:
        sts = self.module.assigns.get(name)
        if sts and isinstance(sts[-1], ast.Assign) and isinstance(sts[-1].value, ast.Constant) and isinstance(sts[-1].value.value, str):
            return sts[-1].value.value, sts[-1]
        return None

    def module_lambda(self, name: str) -> Optional[Tuple[ast.Lambda, ast.stmt]]:
        sts = self.module.assigns.get(name)
        if sts and isinstance(sts[-1], ast.Assign) and isinstance(sts[-1].value, ast.Lambda):
            return sts[-1].value, sts[-1]
        return None

    def def_source(self, key: str) -> Optional[Tuple[str, ast.stmt, str]]:
        """(source text, defining statement, kind) of the helper for `key`.

        kind: 'pydef' (python def string), 'template' (function returning an f-string template, Fortran),
        'foreign' (non-python def string), None if the entry only binds a library callable."""
        e = self.entries.get(key)
        if e is None:
            return None
        d = e.get("def")
        if isinstance(d, ast.Name):
            s = self.module_string(d.id)
            if s is not None:
                text, st = s
                try:
                    ast.parse(text)
                    return text, st, "pydef"
                except SyntaxError:
                    return text, st, "foreign"
        c = e.get("call")
        if isinstance(c, ast.Name) and c.id in self.module.functions:
            f = self.module.functions[c.id]
            # the template is the text returned as second element of `(name, definition)`, assembled from f-strings in any way
            # (one literal, head + body parts, concatenation); evaluated per path with local string variables spliced in
            from engine.templates import template_text, emissions
            texts = []
            for decisions, lines, ps in emissions(self.ctx, f, sinks=(), returns=True):
                for em in lines:
                    v = em.arg
                    if isinstance(v, ast.Tuple) and len(v.elts) == 2:
                        t = template_text(v.elts[1], em.env)
                        if t is not None and len(t) > 80:
                            texts.append((t, em.stmt))
            if texts and len({t for t, _ in texts}) == 1:
                return texts[0][0], texts[0][1], "template"
            for n in walk_shallow(f.node):
                if isinstance(n, ast.Assign) and isinstance(n.value, ast.JoinedStr) and len(ast.unparse(n.value)) > 80:
                    return fstring_template(n.value), n, "template"
        return None

    def library_binding(self, key: str) -> Optional[str]:
        e = self.entries.get(key)
        if e is None:
            return None
        call = e.get("call")
        imps = e.get("imports")
        callname = call.value if isinstance(call, ast.Constant) else None
        if isinstance(imps, ast.List):
            for i in imps.elts:
                if isinstance(i, ast.Constant) and callname and i.value.endswith("." + callname):
                    return i.value
        return None


def parse_pydef(text: str) -> ast.FunctionDef:
    tree = ast.parse(text)
    fns = [n for n in tree.body if isinstance(n, ast.FunctionDef)]
    if len(fns) != 1:
        raise AnalysisError("helper string does not define exactly one function")
    from engine.srcmodel import set_parents
    set_parents(tree)
    return fns[0]


def unused_locals(fn: ast.FunctionDef) -> List[str]:
    assigned, read = {}, set()
    for n in ast.walk(fn):
        if isinstance(n, ast.Name):
            if isinstance(n.ctx, ast.Store):
                assigned.setdefault(n.id, n)
            else:
                read.add(n.id)
    return sorted(a for a in assigned if a not in read)


def unread_params(fn: ast.FunctionDef) -> List[str]:
    read = {n.id for n in ast.walk(fn) if isinstance(n, ast.Name) and isinstance(n.ctx, ast.Load)}
    return [a.arg for a in fn.args.args if a.arg not in read]


# ------------------------------------------------------------------------------------------------
# linear-interpolation helper, python form
# ------------------------------------------------------------------------------------------------

def check_py_interp(fn: ast.FunctionDef) -> Tuple[bool, str, dict]:
    """Is the python helper `interp(x_new, x, y)` the linear interpolant between two adjacent samples?

    Every path through the helper is executed symbolically (assignments, incl. tuple assignments, update an environment of sympy
    values); the value returned on a path must be either a sample `y[...]` (clamp) or normalise to
    y[lo] + (q - x[lo]) / (x[hi] - x[lo]) * (y[hi] - y[lo]) with hi == lo + 1, where lo is read off the returned expression."""
    from engine.cfg import CFG
    from engine.util import enumerate_paths
    params = [a.arg for a in fn.args.args]
    if len(params) != 3:
        raise AnalysisError(f"interp helper has {len(params)} parameters, expected (x_new, x, y)")
    q, X, Yn = params
    facts = {"params": params}
    ul = unused_locals(fn)
    if ul:
        return False, f"local(s) {ul} are assigned but never read (an index of the bracketing pair is dropped)", facts
    up = unread_params(fn)
    if up:
        return False, f"parameter(s) {up} are never read", facts
    cfg = CFG(fn)
    paths = [p for p in enumerate_paths(cfg) if p[-1] is cfg.EXIT]
    Yf, Xf, qs = sp.Function(Yn), sp.Function(X), sp.Symbol(q)
    n_interior = 0
    results = []
    for path in paths:
        env: Dict[str, sp.Expr] = {}
        ret = None
        for st in path:
            if isinstance(st, ast.Assign) and len(st.targets) == 1:
                t, v = st.targets[0], st.value
                try:
                    if isinstance(t, ast.Name):
                        env[t.id] = symx.to_sympy(v, env=env)
                    elif isinstance(t, ast.Tuple) and isinstance(v, ast.Tuple) and len(t.elts) == len(v.elts) \
                            and all(isinstance(e, ast.Name) for e in t.elts):
                        vals = [symx.to_sympy(e, env=env) for e in v.elts]
                        for e, val in zip(t.elts, vals):
                            env[e.id] = val
                    else:
                        raise AnalysisError(f"interp helper: unrecognised assignment `{ast.unparse(st)}`")
                except symx.Unsupported:
                    if isinstance(t, ast.Name):
                        env.pop(t.id, None)
            elif isinstance(st, ast.AugAssign):
                raise AnalysisError(f"interp helper: unrecognised statement `{ast.unparse(st)}`")
            elif isinstance(st, ast.Return):
                ret = st
        if ret is None or ret.value is None:
            return False, "a path through the helper returns nothing", facts
        try:
            expr = symx.to_sympy(ret.value, env=env)
        except symx.Unsupported as e:
            raise AnalysisError(f"interp helper: unsupported return expression: {e}")
        results.append((ret, expr))
    seen = set()
    for ret, expr in results:
        key = (id(ret), str(expr))
        if key in seen:
            continue
        seen.add(key)
        if expr.func == Yf and len(expr.args) == 1:
            continue                                  # clamp: a sample of y
        if qs not in expr.free_symbols:
            return False, f"the value returned by `{ast.unparse(ret)}` is neither a sample of `{Yn}` nor depends on the query point `{q}`", facts
        cands = sorted({a.args[0] for a in expr.atoms(sp.Function) if a.func == Yf and len(a.args) == 1}, key=str)
        facts["return"] = ast.unparse(ret.value)
        lo = next((c for c in cands if symx.is_linear_interpolant(expr, q=qs, Y=Yn, X=X, lo=c, hi=c + 1)), None)
        if lo is None:
            pair = next(((a_, b_) for a_ in cands for b_ in cands if a_ != b_ and symx.is_linear_interpolant(expr, q=qs, Y=Yn, X=X, lo=a_, hi=b_)), None)
            if pair is not None:
                return False, f"the bracketing pair ({pair[0]}, {pair[1]}) is not two adjacent samples (hi != lo + 1)", facts
            return False, (f"the returned value is not {Yn}[lo] + ({q}-{X}[lo])/({X}[hi]-{X}[lo])*({Yn}[hi]-{Yn}[lo]) for a "
                           f"bracketing pair of adjacent samples"), facts
        n_interior += 1
        facts.setdefault("brackets", []).append(f"({lo}, {lo + 1})")
    if n_interior == 0:
        return False, "no path returns an interpolated value", facts
    for n in ast.walk(fn):
        if isinstance(n, ast.If):
            facts.setdefault("branch", ast.unparse(n.test))
    return True, "linear interpolant between two adjacent samples", facts


# ------------------------------------------------------------------------------------------------
# linear-interpolation helper, Fortran template form
# ------------------------------------------------------------------------------------------------

_ASSIGN = re.compile(r"^\s*([A-Za-z_⟨⟩][\w⟨⟩]*)\s*=\s*(.+?)\s*$")


def check_fortran_interp(template: str) -> Tuple[bool, str, dict]:
    mh = re.search(r"function\s+([\w⟨⟩]*⟨\w+⟩[\w⟨⟩]*)\s*\(", template)
    if not mh:
        raise AnalysisError("fortran interp: `function <name>(...)` header with a name hole not found (unrecognised form)")
    text = template.replace(mh.group(1), "FNAME")
    facts = {}
    lines = [l.strip() for l in text.splitlines()]
    # search loop: `if (x(n) > x_new) exit` => after the loop x(n-1) <= x_new < x(n)
    m = None
    for l in lines:
        m = re.match(r"if \(x\((\w+)\)\s*(>|>=)\s*x_new\)\s*exit", l)
        if m:
            break
    if not m:
        raise AnalysisError("fortran interp: search loop `if (x(n) > x_new) exit` not found (unrecognised form)")
    nvar = m.group(1)
    assigns = []
    for l in lines:
        ma = _ASSIGN.match(l)
        if ma and not l.startswith(("if", "do", "else", "end", "function", "integer", "implicit")) and "::" not in l:
            assigns.append((ma.group(1), ma.group(2)))
    env: Dict[str, sp.Expr] = {}
    finals = []
    for lhs, rhs in assigns:
        try:
            node = ast.parse(rhs, mode="eval").body
        except SyntaxError:
            continue
        try:
            val = symx.to_sympy(node, env=env)
        except symx.Unsupported:
            continue
        if lhs == "FNAME":
            finals.append((rhs, val))
        else:
            env[lhs] = val
    interior = [(r, v) for r, v in finals if sp.Symbol("x_new") in v.free_symbols]
    clamps = [(r, v) for r, v in finals if (r, v) not in interior]
    facts["interior"] = [r for r, _ in interior]
    facts["clamps"] = [r for r, _ in clamps]
    if len(interior) != 1:
        return False, f"expected exactly one interior assignment depending on x_new, found {len(interior)}", facts
    rhs, val = interior[0]
    n = sp.Symbol(nvar)
    facts["normalised"] = str(sp.simplify(val))
    if symx.is_linear_interpolant(val, q=sp.Symbol("x_new"), Y="y", X="x", lo=n - 1, hi=n):
        return True, "interior branch is the linear interpolant between samples n-1 and n", facts
    return False, (f"interior branch `FNAME = {rhs}` is not y(n-1) + (x_new-x(n-1))/(x(n)-x(n-1))*(y(n)-y(n-1)) "
                   f"(the loop leaves x(n-1) <= x_new < x(n))"), facts
