"""Readers for the backend function registries (`*_funcs` dicts) and their embedded helper code (K6)."""
from __future__ import annotations

import ast
import re
from typing import Dict, List, Optional, Tuple

import sympy as sp

from engine import AnalysisError, symx
from engine.srcmodel import Module, walk_shallow, norm
from engine.util import fstring_template, call_name

REGISTRY_MODULES = {
    "base": ("pyrates/backend/base/base_funcs.py", "base_funcs"),
    "torch": ("pyrates/backend/torch/torch_funcs.py", "torch_funcs"),
    "jax": ("pyrates/backend/jax/jax_funcs.py", "jax_funcs"),
    "fortran": ("pyrates/backend/fortran/fortran_funcs.py", "fortran_funcs"),
    "julia": ("pyrates/backend/julia/julia_funcs.py", "julia_funcs"),
    "matlab": ("pyrates/backend/matlab/matlab_funcs.py", "matlab_funcs"),
}


class Registry:
    def __init__(self, ctx, backend: str):
        rel, name = REGISTRY_MODULES[backend]
        self.ctx = ctx
        self.backend = backend
        self.module: Module = ctx.repo.get_module(rel)
        self.name = name
        sts = self.module.assigns.get(name)
        if not sts or not isinstance(sts[-1], (ast.Assign, ast.AnnAssign)) or not isinstance(sts[-1].value, ast.Dict):
            raise AnalysisError(f"anchor vanished: registry dict {name} in {rel}")
        self.node: ast.Dict = sts[-1].value
        self.stmt = sts[-1]
        self.entries: Dict[str, Dict[str, ast.AST]] = {}
        for k, v in zip(self.node.keys, self.node.values):
            if isinstance(k, ast.Constant) and isinstance(v, ast.Dict):
                self.entries[k.value] = {kk.value: vv for kk, vv in zip(v.keys, v.values) if isinstance(kk, ast.Constant)}

    def module_string(self, name: str) -> Optional[Tuple[str, ast.stmt]]:
        """The string constant bound to `name` in the registry module, followed through `from <module> import <name>` chains
        (a backend may share a def string with the base registry instead of repeating it)."""
        m, nm = self.module, name
        for _ in range(4):
            sts = m.assigns.get(nm)
            if sts and isinstance(sts[-1], (ast.Assign, ast.AnnAssign)) and isinstance(sts[-1].value, ast.Constant) and isinstance(sts[-1].value.value, str):
                return sts[-1].value.value, sts[-1]
            # `name = TEMPLATE.format(a='x', b='y')` with a module-level string TEMPLATE and constant string keywords: folded
            v = sts[-1].value if sts and isinstance(sts[-1], (ast.Assign, ast.AnnAssign)) else None
            if isinstance(v, ast.Call) and isinstance(v.func, ast.Attribute) and v.func.attr == "format" and isinstance(v.func.value, ast.Name) \
                    and not v.args and v.keywords and all(k.arg and isinstance(k.value, ast.Constant) and isinstance(k.value.value, str) for k in v.keywords):
                base = self.module_string(v.func.value.id) if v.func.value.id != name else None
                if base is not None:
                    try:
                        return base[0].format(**{k.arg: k.value.value for k in v.keywords}), sts[-1]
                    except (KeyError, IndexError, ValueError):
                        return None
            imp = m.imports.get(nm)
            if not imp or imp[1] in (None, "*"):
                return None
            m2 = self.ctx.repo.modules.get(imp[0])
            if m2 is None:
                return None
            m, nm = m2, imp[1]
        return None

    def module_lambda(self, name: str) -> Optional[Tuple[ast.Lambda, ast.stmt]]:
        sts = self.module.assigns.get(name)
        if sts and isinstance(sts[-1], (ast.Assign, ast.AnnAssign)) and isinstance(sts[-1].value, ast.Lambda):
            return sts[-1].value, sts[-1]
        return None

    def def_source(self, key: str) -> Optional[Tuple[str, ast.stmt, str]]:
        """(source text, defining statement, kind) of the helper for `key`.

        kind: 'pydef' (python def string), 'template' (function returning an f-string template, Fortran),
        'foreign' (non-python def string), None if the entry only binds a library callable."""
        e = self.entries.get(key)
        if e is None:
            return None
        d = e.get("def")
        if isinstance(d, ast.Name):
            s = self.module_string(d.id)
            if s is not None:
                text, st = s
                try:
                    ast.parse(text)
                    return text, st, "pydef"
                except SyntaxError:
                    return text, st, "foreign"
        c = e.get("call")
        if isinstance(c, ast.Name) and c.id in self.module.functions:
            f = self.module.functions[c.id]
            # the template is the text returned as second element of `(name, definition)`, assembled from f-strings in any way
            # (one literal, head + body parts, concatenation); evaluated per path with local string variables spliced in
            from engine.templates import template_text, emissions
            texts = []
            for decisions, lines, ps in emissions(self.ctx, f, sinks=(), returns=True):
                for em in lines:
                    v = em.arg
                    if isinstance(v, ast.Tuple) and len(v.elts) == 2:
                        t = template_text(v.elts[1], em.env)
                        if t is not None and len(t) > 80:
                            texts.append((t, em.stmt))
            if texts and len({t for t, _ in texts}) == 1:
                return texts[0][0], texts[0][1], "template"
            for n in walk_shallow(f.node):
                if isinstance(n, ast.Assign) and isinstance(n.value, ast.JoinedStr) and len(ast.unparse(n.value)) > 80:
                    return fstring_template(n.value), n, "template"
        return None

    def library_binding(self, key: str) -> Optional[str]:
        e = self.entries.get(key)
        if e is None:
            return None
        call = e.get("call")
        imps = e.get("imports")
        callname = call.value if isinstance(call, ast.Constant) else None
        if isinstance(imps, ast.List):
            for i in imps.elts:
                if isinstance(i, ast.Constant) and callname and i.value.endswith("." + callname):
                    return i.value
        return None


def parse_pydef(text: str) -> ast.FunctionDef:
    tree = ast.parse(text)
    fns = [n for n in tree.body if isinstance(n, ast.FunctionDef)]
    if len(fns) != 1:
        raise AnalysisError("helper string does not define exactly one function")
    from engine.srcmodel import set_parents
    set_parents(tree)
    return fns[0]


def unused_locals(fn: ast.FunctionDef) -> List[str]:
    assigned, read = {}, set()
    for n in ast.walk(fn):
        if isinstance(n, ast.Name):
            if isinstance(n.ctx, ast.Store):
                assigned.setdefault(n.id, n)
            else:
                read.add(n.id)
    return sorted(a for a in assigned if a not in read)


def unread_params(fn: ast.FunctionDef) -> List[str]:
    read = {n.id for n in ast.walk(fn) if isinstance(n, ast.Name) and isinstance(n.ctx, ast.Load)}
    return [a.arg for a in fn.args.args if a.arg not in read]


# ------------------------------------------------------------------------------------------------
# linear-interpolation helper, python form
# ------------------------------------------------------------------------------------------------

def check_py_interp(fn: ast.FunctionDef) -> Tuple[bool, str, dict]:
    """Is the python helper `interp(x_new, x, y)` the linear interpolant between two adjacent samples?

    Every path through the helper is executed symbolically (assignments, incl. tuple assignments, update an environment of sympy
    values); the value returned on a path must be either a sample `y[...]` (clamp) or normalise to
    y[lo] + (q - x[lo]) / (x[hi] - x[lo]) * (y[hi] - y[lo]) with hi == lo + 1, where lo is read off the returned expression."""
    from engine.cfg import CFG
    from engine.util import enumerate_paths
    params = [a.arg for a in fn.args.args]
    if len(params) != 3:
        raise AnalysisError(f"interp helper has {len(params)} parameters, expected (x_new, x, y)")
    q, X, Yn = params
    facts = {"params": params}
    ul = unused_locals(fn)
    if ul:
        return False, f"local(s) {ul} are assigned but never read (an index of the bracketing pair is dropped)", facts
    up = unread_params(fn)
    if up:
        return False, f"parameter(s) {up} are never read", facts
    cfg = CFG(fn)
    paths = [p for p in enumerate_paths(cfg) if p[-1] is cfg.EXIT]
    Yf, Xf, qs = sp.Function(Yn), sp.Function(X), sp.Symbol(q)
    LEN = sp.Symbol("LEN", integer=True)

    def leaf(n):
        if isinstance(n, ast.Call) and isinstance(n.func, ast.Name) and n.func.id == "len" and len(n.args) == 1 \
                and isinstance(n.args[0], ast.Name) and n.args[0].id in (X, Yn):
            return LEN
        if isinstance(n, ast.Subscript) and isinstance(n.value, ast.Attribute) and n.value.attr == "shape" and isinstance(n.value.value, ast.Name) \
                and n.value.value.id in (X, Yn) and isinstance(n.slice, ast.Constant) and n.slice.value == 0:
            return LEN
        return None

    def formula(t, env, pol=True):
        """('atom', sympy relational) | ('and'|'or', [...]) | ('opaque',) with negation pushed to the atoms."""
        if isinstance(t, ast.UnaryOp) and isinstance(t.op, ast.Not):
            return formula(t.operand, env, not pol)
        if isinstance(t, ast.BoolOp):
            parts = [formula(v, env, pol) for v in t.values]
            conj = isinstance(t.op, ast.And) == pol
            return ("and" if conj else "or", parts)
        if isinstance(t, ast.Compare) and len(t.ops) == 1:
            ops = {ast.Lt: sp.Lt, ast.LtE: sp.Le, ast.Gt: sp.Gt, ast.GtE: sp.Ge, ast.Eq: sp.Eq, ast.NotEq: sp.Ne}
            neg = {sp.Lt: sp.Ge, sp.Le: sp.Gt, sp.Gt: sp.Le, sp.Ge: sp.Lt, sp.Eq: sp.Ne, sp.Ne: sp.Eq}
            o = ops.get(type(t.ops[0]))
            if o is not None:
                try:
                    l = symx.to_sympy(t.left, env=env, leaf=leaf)
                    r = symx.to_sympy(t.comparators[0], env=env, leaf=leaf)
                    return ("atom", (o if pol else neg[o])(l, r, evaluate=False) if o in (sp.Eq, sp.Ne) else (o if pol else neg[o])(l - r, 0, evaluate=False))
                except (symx.Unsupported, TypeError):
                    pass
        return ("opaque",)
    n_interior = 0
    results = []
    pathinfo = []          # (path, decisions [(if-node, taken_true, formula)], return stmt, returned sympy expr)
    for path in paths:
        env: Dict[str, sp.Expr] = {}
        ret = None
        decisions = []
        for k, st in enumerate(path):
            if isinstance(st, ast.If) and k + 1 < len(path):
                taken = "true" in cfg.g[st][path[k + 1]]["labels"]
                decisions.append((st, taken, formula(st.test, env, taken)))
            if isinstance(st, ast.Assign) and len(st.targets) == 1:
                t, v = st.targets[0], st.value
                try:
                    if isinstance(t, ast.Name):
                        env[t.id] = symx.to_sympy(v, env=env, leaf=leaf)
                    elif isinstance(t, ast.Tuple) and isinstance(v, ast.Tuple) and len(t.elts) == len(v.elts) \
                            and all(isinstance(e, ast.Name) for e in t.elts):
                        vals = [symx.to_sympy(e, env=env, leaf=leaf) for e in v.elts]
                        for e, val in zip(t.elts, vals):
                            env[e.id] = val
                    else:
                        raise AnalysisError(f"interp helper: unrecognised assignment `{ast.unparse(st)}`")
                except symx.Unsupported:
                    if isinstance(t, ast.Name):
                        env.pop(t.id, None)
            elif isinstance(st, ast.AugAssign):
                raise AnalysisError(f"interp helper: unrecognised statement `{ast.unparse(st)}`")
            elif isinstance(st, ast.Return):
                ret = st
        if ret is None or ret.value is None:
            return False, "a path through the helper returns nothing", facts
        try:
            expr = symx.to_sympy(ret.value, env=env, leaf=leaf)
        except symx.Unsupported as e:
            raise AnalysisError(f"interp helper: unsupported return expression: {e}")
        results.append((ret, expr))
        pathinfo.append((path, decisions, ret, expr))
    seen = set()
    for ret, expr in results:
        key = (id(ret), str(expr))
        if key in seen:
            continue
        seen.add(key)
        if expr.func == Yf and len(expr.args) == 1:
            continue                                  # clamp: a sample of y
        if qs not in expr.free_symbols:
            return False, f"the value returned by `{ast.unparse(ret)}` is neither a sample of `{Yn}` nor depends on the query point `{q}`", facts
        cands = sorted({a.args[0] for a in expr.atoms(sp.Function) if a.func == Yf and len(a.args) == 1}, key=str)
        facts["return"] = ast.unparse(ret.value)
        lo = next((c for c in cands if symx.is_linear_interpolant(expr, q=qs, Y=Yn, X=X, lo=c, hi=c + 1)), None)
        if lo is None:
            pair = next(((a_, b_) for a_ in cands for b_ in cands if a_ != b_ and symx.is_linear_interpolant(expr, q=qs, Y=Yn, X=X, lo=a_, hi=b_)), None)
            if pair is not None:
                return False, f"the bracketing pair ({pair[0]}, {pair[1]}) is not two adjacent samples (hi != lo + 1)", facts
            return False, (f"the returned value is not {Yn}[lo] + ({q}-{X}[lo])/({X}[hi]-{X}[lo])*({Yn}[hi]-{Yn}[lo]) for a "
                           f"bracketing pair of adjacent samples"), facts
        n_interior += 1
        facts.setdefault("brackets", []).append(f"({lo}, {lo + 1})")
    if n_interior == 0:
        return False, "no path returns an interpolated value", facts
    for n in ast.walk(fn):
        if isinstance(n, ast.If):
            facts.setdefault("branch", ast.unparse(n.test))
    bad = _range_guard_defect(pathinfo, Yf, Xf, qs, LEN, Yn, X)
    if bad is not None:
        return False, bad, facts
    return True, "linear interpolant between two adjacent samples", facts


def _range_guard_defect(pathinfo, Yf, Xf, qs, LEN, Yn, X) -> Optional[str]:
    """The index-range guard of the helper: a path interpolates only with both bracket indices inside 0..len-1, and a path falls
    back to a single sample *because of the bracket's position* only when the bracket really leaves that range.  Decided for
    guards that compare the bracket indices with 0 / len(x) (unit coefficients): each guard is read as a formula of linear integer
    atoms; implication is decided exactly on a small integer box (small-model property of unit difference constraints).
    Guards on anything else (the query against x[0]/x[-1], opaque tests) are not judged."""
    import itertools

    def bracket(expr):
        if expr.func == Yf and len(expr.args) == 1:
            return None
        cands = sorted({a.args[0] for a in expr.atoms(sp.Function) if a.func == Yf and len(a.args) == 1}, key=str)
        return next((c for c in cands if symx.is_linear_interpolant(expr, q=qs, Y=Yn, X=X, lo=c, hi=c + 1)), None)

    def dnf(f):
        k = f[0]
        if k == "atom":
            return [[f[1]]]
        if k == "opaque":
            return [[None]]
        parts = [dnf(x) for x in f[1]]
        if k == "or":
            return [c for p in parts for c in p]
        out = [[]]
        for p in parts:
            out = [a + b for a in out for b in p]
        return out

    def abstract(e, table):
        """replace non-arithmetic function applications (argmin(...), searchsorted(...)) by integer symbols"""
        def rep(x):
            if x not in table:
                table[x] = sp.Symbol(f"I{len(table)}", integer=True)
            return table[x]
        return e.replace(lambda x: isinstance(x, sp.core.function.AppliedUndef), rep)

    def sat(cons, syms):
        """exact satisfiability over the integers for unit-coefficient constraints with small constants"""
        import operator
        syms = sorted(syms, key=str)
        OPS = {sp.Lt: operator.lt, sp.Le: operator.le, sp.Gt: operator.gt, sp.Ge: operator.ge, sp.Eq: operator.eq, sp.Ne: operator.ne,
               sp.StrictLessThan: operator.lt, sp.LessThan: operator.le, sp.StrictGreaterThan: operator.gt, sp.GreaterThan: operator.ge}
        lin = []
        for c in cons:
            lhs = sp.expand(c.lhs - c.rhs)
            try:
                poly = sp.Poly(lhs, *syms)
            except sp.PolynomialError:
                raise AnalysisError(f"interp helper: index-range guard `{c}` is not a linear comparison (unrecognised form)")
            coefs = [int(poly.coeff_monomial(s_)) if poly.coeff_monomial(s_).is_Integer else None for s_ in syms]
            const = poly.coeff_monomial(1)
            if poly.total_degree() > 1 or any(co is None or abs(co) > 1 for co in coefs) or not const.is_Integer or abs(const) > 4:
                raise AnalysisError(f"interp helper: index-range guard `{c}` is not a unit-coefficient comparison (unrecognised form)")
            lin.append((coefs, int(const), OPS[type(c)]))
        dom = [range(1, 10) if s_ == LEN else range(-5, 14) for s_ in syms]
        for vals in itertools.product(*dom):
            if all(op(sum(co * v for co, v in zip(coefs, vals)) + const, 0) for coefs, const, op in lin):
                return dict(zip(syms, vals))
        return None

    interior = [(p, d, r, e, bracket(e)) for p, d, r, e in pathinfo]
    interior_paths = [x for x in interior if x[4] is not None]
    for path, decisions, ret, expr, lo in interior:
        table = {}
        if lo is not None:
            # interpolating path: its conditions must confine the bracket to the grid
            lo_a = abstract(lo, table)
            for conj in itertools.product(*[dnf(f) for _, _, f in decisions]) if decisions else [()]:
                atoms = [abstract(a, table) for c in conj for a in c if a is not None]
                atoms = [a for a in atoms if a.free_symbols <= (set(table.values()) | {LEN})]
                syms = set().union(*[a.free_symbols for a in atoms], lo_a.free_symbols, {LEN})
                for viol, what in ((sp.Lt(lo_a, 0), "a negative index (wraps around to the end of the array)"),
                                   (sp.Gt(lo_a + 1, LEN - 1), "an index past the last sample")):
                    w = sat(atoms + [viol], syms)
                    if w is not None:
                        return (f"the path returning `{ast.unparse(ret.value)[:60]}` interpolates with the bracket ({lo}, {lo + 1}) although its "
                                f"conditions allow {what} (e.g. {w})")
            continue
        # fallback path: pair it with the interpolating path that shares the longest prefix of decisions
        best, best_k = None, -1
        for ip in interior_paths:
            k = 0
            while k < len(decisions) and k < len(ip[1]) and decisions[k][0] is ip[1][k][0] and decisions[k][1] == ip[1][k][1]:
                k += 1
            if k < len(decisions) and k < len(ip[1]) and decisions[k][0] is ip[1][k][0] and k > best_k:
                best, best_k = ip, k
        if best is None:
            continue
        div = decisions[best_k][2]
        lo_i = best[4]
        lo_a = abstract(lo_i, table)
        for conj in dnf(div):
            if any(a is None for a in conj):
                continue                    # guard on something that is not an index comparison: not judged
            atoms = [abstract(a, table) for a in conj]
            if not all(a.free_symbols <= (set(table.values()) | {LEN}) for a in atoms):
                continue
            syms = set().union(*[a.free_symbols for a in atoms], lo_a.free_symbols, {LEN})
            w = sat(atoms + [sp.Ge(lo_a, 0), sp.Le(lo_a + 1, LEN - 1), sp.Ge(LEN, 2)], syms)
            if w is not None:
                return (f"the fall-back `{ast.unparse(ret)[:40]}` is taken under `{' and '.join(str(a) for a in atoms)}` although the bracket "
                        f"({lo_i}, {lo_i + 1}) lies inside the grid (e.g. {w}): queries in that interval get a sample instead of the interpolant")
    return None


# ------------------------------------------------------------------------------------------------
# linear-interpolation helper, Fortran template form
# ------------------------------------------------------------------------------------------------

_ASSIGN = re.compile(r"^\s*([A-Za-z_⟨⟩][\w⟨⟩]*)\s*=\s*(.+?)\s*$")


def check_fortran_interp(template: str) -> Tuple[bool, str, dict]:
    mh = re.search(r"function\s+((?:\w|⟨[^⟩]*⟩)*⟨[^⟩]*⟩(?:\w|⟨[^⟩]*⟩)*)\s*\(", template)
    if not mh:
        raise AnalysisError("fortran interp: `function <name>(...)` header with a name hole not found (unrecognised form)")
    text = template.replace(mh.group(1), "FNAME")
    facts = {}
    lines = [l.strip() for l in text.splitlines()]
    # search loop: `if (x(n) > x_new) exit` => after the loop x(n-1) <= x_new < x(n)
    m = None
    for l in lines:
        m = re.match(r"if \(x\((\w+)\)\s*(>|>=)\s*x_new\)\s*exit", l)
        if m:
            break
    if not m:
        raise AnalysisError("fortran interp: search loop `if (x(n) > x_new) exit` not found (unrecognised form)")
    nvar = m.group(1)
    assigns = []
    for l in lines:
        ma = _ASSIGN.match(l)
        if ma and not l.startswith(("if", "do", "else", "end", "function", "integer", "implicit")) and "::" not in l:
            assigns.append((ma.group(1), ma.group(2)))
    env: Dict[str, sp.Expr] = {}
    finals = []
    for lhs, rhs in assigns:
        try:
            node = ast.parse(rhs, mode="eval").body
        except SyntaxError:
            continue
        try:
            val = symx.to_sympy(node, env=env)
        except symx.Unsupported:
            continue
        if lhs == "FNAME":
            finals.append((rhs, val))
        else:
            env[lhs] = val
    interior = [(r, v) for r, v in finals if sp.Symbol("x_new") in v.free_symbols]
    clamps = [(r, v) for r, v in finals if (r, v) not in interior]
    facts["interior"] = [r for r, _ in interior]
    facts["clamps"] = [r for r, _ in clamps]
    if len(interior) != 1:
        return False, f"expected exactly one interior assignment depending on x_new, found {len(interior)}", facts
    rhs, val = interior[0]
    n = sp.Symbol(nvar)
    facts["normalised"] = str(sp.simplify(val))
    if symx.is_linear_interpolant(val, q=sp.Symbol("x_new"), Y="y", X="x", lo=n - 1, hi=n):
        return True, "interior branch is the linear interpolant between samples n-1 and n", facts
    return False, (f"interior branch `FNAME = {rhs}` is not y(n-1) + (x_new-x(n-1))/(x(n)-x(n-1))*(y(n)-y(n-1)) "
                   f"(the loop leaves x(n-1) <= x_new < x(n))"), facts
