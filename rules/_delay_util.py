"""Readers shared by C09 and C11: the delay machinery of NetworkGraph (pyrates/ir/circuit.py).

The equations that implement edge delays are emitted as f-strings into a list that is finally added to the
source operator's `equations`.  This module

* renders such an f-string as a *template* (holes written ⟨expr⟩, exactly like `engine.util.fstring_template`, but a hole
  that is a local whose only reaching definitions are themselves strings is inlined, so `{buf}` and
  `{var}_buffer{buffer_id}` denote the same variable),
* parses the template as an equation `lhs = rhs` / `d/dt * lhs = rhs` of the PyRates equation sub-language (which is
  Python expression syntax once every hole is replaced by an identifier fragment),
* enumerates the emission sites of a function and the variable-definition dicts (`{'vtype': ..., 'shape': ...}`),
* offers small provenance helpers on top of the engine's reaching definitions.
"""
from __future__ import annotations

import ast
import re
from dataclasses import dataclass, field
from typing import Dict, List, Optional, Set, Tuple

import sympy as sp

from engine import AnalysisError, symx
from engine.srcmodel import walk_shallow, norm, parent, const_str
from engine.util import call_name, fstring_template
from engine.dataflow import assigned_value, header_exprs

REL = "pyrates/ir/circuit.py"
CLS = "NetworkGraph"

HOLE = re.compile(r"⟨(.*?)⟩")
ROUNDERS = {"round", "rint", "around", "round_"}
TRUNCATORS = {"floor", "ceil", "trunc", "fix"}


def graph_class(ctx):
    return ctx.repo.get_class(REL, CLS)


def method(ctx, name):
    cls = graph_class(ctx)
    f = cls.methods.get(name)
    if f is None:
        raise AnalysisError(f"anchor vanished: {CLS}.{name} in {REL}")
    return f


# ---------------------------------------------------------------------------------------------
# templates
# ---------------------------------------------------------------------------------------------

def _is_strish(node) -> bool:
    if isinstance(node, ast.JoinedStr):
        return True
    if isinstance(node, ast.Constant) and isinstance(node.value, str):
        return True
    if isinstance(node, ast.BinOp) and isinstance(node.op, ast.Add):
        # `var + '_buffer' + buffer_id`: concatenation with at least one string literal is a string
        return _is_strish(node.left) or _is_strish(node.right)
    return False


def render(ctx, f, node, _depth=0) -> Optional[str]:
    """Template text of a string-valued expression (None if `node` is not a string literal / f-string)."""
    if isinstance(node, ast.Constant) and isinstance(node.value, str):
        return node.value
    if isinstance(node, ast.JoinedStr):
        parts = []
        for v in node.values:
            if isinstance(v, ast.Constant):
                parts.append(str(v.value))
            elif isinstance(v, ast.FormattedValue):
                if v.conversion == -1 and v.format_spec is None:
                    parts.append(render_expr(ctx, f, v.value, _depth + 1))
                else:
                    parts.append("⟨" + ast.unparse(v) + "⟩")
        return "".join(parts)
    if isinstance(node, ast.BinOp) and isinstance(node.op, ast.Add) and _is_strish(node):
        return render_expr(ctx, f, node.left, _depth + 1) + render_expr(ctx, f, node.right, _depth + 1)
    return None


def render_expr(ctx, f, e, _depth=0) -> str:
    """Template text of any expression used as (part of) a name: strings are rendered, a local whose reaching definitions are
    all strings with one common template is inlined, everything else is the hole ⟨source text⟩."""
    t = render(ctx, f, e, _depth)
    if t is not None:
        return t
    if isinstance(e, ast.Name) and _depth < 8:
        defs = ctx.rd(f).defs_reaching(e)
        vals = [assigned_value(d, e.id) if isinstance(d, ast.stmt) else None for d in defs]
        if vals and all(v is not None and (_is_strish(v) or isinstance(v, ast.Name)) for v in vals):
            # plain aliases (`buf = ring`) are followed; strings are rendered
            ts = {render_expr(ctx, f, v, _depth + 1) for v in vals}
            if len(ts) == 1 and not (len(vals) == 1 and isinstance(vals[0], ast.Name) and ts == {"⟨" + vals[0].id + "⟩"}):
                return ts.pop()
        elif vals and len(vals) > 1 and any(v is not None and _is_strish(v) for v in vals) and _depth <= 2:
            # `name = f"..."` on one path, `name = registry_entry['field']` on another, where the entry was filed with this very name
            try:
                t = trace(ctx, Scope(f), e)
            except RecursionError:
                t = None
            if t is not None and not t.opaque():
                leaves = [l for l in t.leaves if not (l.kind == "const" and l.node.value is None)]
                if leaves and all(l.scope.parent is None and _is_strish(l.node) for l in leaves):
                    ts = {render(ctx, f, l.node, _depth + 1) for l in leaves}
                    if len(ts) == 1 and None not in ts:
                        return ts.pop()
    return "⟨" + ast.unparse(e) + "⟩"


@dataclass
class Eq:
    text: str                    # template with ⟨holes⟩
    ode: bool                    # `d/dt * lhs = rhs`
    lhs: ast.AST
    rhs: ast.AST
    holes: List[str]

    def canon(self, ident: str) -> str:
        return re.sub(r"_H(\d+)_", lambda m: "⟨" + self.holes[int(m.group(1))] + "⟩", ident)

    def name(self, node) -> Optional[str]:
        """Template of a bare variable reference (None for anything that is not a plain name)."""
        return self.canon(node.id) if isinstance(node, ast.Name) else None

    def show(self, node) -> str:
        return self.canon(ast.unparse(node))

    def sym(self, node) -> sp.Expr:
        def leaf(n):
            if isinstance(n, ast.Name):
                return sp.Symbol(self.canon(n.id))
            return None
        return symx.to_sympy(node, leaf=leaf)

    def const_int(self, node) -> Optional[int]:
        if isinstance(node, ast.UnaryOp) and isinstance(node.op, ast.USub):
            v = self.const_int(node.operand)
            return -v if v is not None else None
        if isinstance(node, ast.Constant) and isinstance(node.value, int) and not isinstance(node.value, bool):
            return node.value
        return None


def parse_eq(text: str) -> Eq:
    holes: List[str] = []

    def sub(m):
        h = m.group(1)
        if h not in holes:
            holes.append(h)
        return f"_H{holes.index(h)}_"
    s = HOLE.sub(sub, text)
    m = re.match(r"^(.*?)(?<![=!<>])=(?!=)(.*)$", s, re.S)
    if not m:
        raise AnalysisError(f"emitted text `{text}` is not an equation `lhs = rhs`")
    lhs, rhs = m.group(1).strip(), m.group(2).strip()
    ode = False
    m2 = re.match(r"^d\s*/\s*dt\s*\*\s*(.*)$", lhs, re.S)
    if m2:
        ode, lhs = True, m2.group(1).strip()
    try:
        L = ast.parse(lhs, mode="eval").body
        R = ast.parse(rhs, mode="eval").body
    except SyntaxError:
        raise AnalysisError(f"emitted equation `{text}` does not parse as `name(args)`/arithmetic syntax")
    return Eq(text=text, ode=ode, lhs=L, rhs=R, holes=holes)


# ---------------------------------------------------------------------------------------------
# emission sites
# ---------------------------------------------------------------------------------------------

@dataclass
class Emission:
    f: object
    stmt: ast.stmt               # the statement that emits
    node: ast.AST                # the string expression
    text: str
    eq: Eq
    group: Optional[ast.List]    # the list literal it is an element of (None: .append / +=)
    listname: str


def _eq_sink_nodes(f) -> List[ast.Name]:
    out = []
    for n in walk_shallow(f.node):
        if isinstance(n, ast.AugAssign) and isinstance(n.op, ast.Add) and isinstance(n.target, ast.Subscript) \
                and const_str(n.target.slice) == "equations" and isinstance(n.value, ast.Name):
            out.append(n.value)
        if isinstance(n, ast.Call) and isinstance(n.func, ast.Attribute) and n.func.attr == "extend" and len(n.args) == 1 \
                and isinstance(n.args[0], ast.Name) and isinstance(n.func.value, ast.Subscript) \
                and const_str(n.func.value.slice) == "equations":
            out.append(n.args[0])
    return out


def eq_list_names(f, ctx=None, _depth=0) -> Set[str]:
    """Names of the local lists that are added to an operator's `equations` (`op_info['equations'] += L`, `.extend(L)`), directly
    or by a helper the list is handed to (`self._attach(node, op, L, ...)` whose parameter, unchanged, is added to `['equations']`)."""
    out = {n.id for n in _eq_sink_nodes(f)}
    if ctx is not None and _depth < 2:
        for call, g, binding in helper_calls(ctx, f):
            # parameters of the helper that reach an `equations` sink unchanged (in the helper, or one level further down)
            sinks = eq_list_names(g, ctx, _depth + 1) & {p_ for p_ in g.params if param_never_rebound(ctx, g, p_)}
            for p_ in sinks:
                a_ = binding.get(p_)
                if isinstance(a_, ast.Name):
                    out.add(a_.id)
    return out


def helper_calls(ctx, f):
    """(call, callee, {parameter: argument}) for every call in `f` that resolves to one same-module repository function."""
    out = []
    for n in walk_shallow(f.node):
        if isinstance(n, ast.Call):
            g = resolve_single(ctx, f, n)
            if g is not None and g is not f and g.module is f.module and not any(isinstance(a, ast.Starred) for a in n.args) \
                    and all(k.arg for k in n.keywords):
                out.append((n, g, bind_args(g, n)))
    return out


def param_never_rebound(ctx, g, name: str) -> bool:
    """every read of parameter `name` in g sees the value passed in"""
    for x in walk_shallow(g.node):
        if isinstance(x, ast.Name) and x.id == name and isinstance(x.ctx, ast.Load) and not is_param(ctx, g, x):
            return False
    return True


def emissions(ctx, f) -> List[Emission]:
    names = eq_list_names(f, ctx)
    out: List[Emission] = []
    if not names:
        return out

    def add(st, node, group, nm):
        t = render(ctx, f, node)
        if t is None:
            raise AnalysisError(f"{f.qual}: equation emitted by `{norm(st)}` is not a string literal / f-string (unrecognised form)")
        out.append(Emission(f, st, node, t, parse_eq(t), group, nm))

    stmts = sorted((n for n in walk_shallow(f.node) if isinstance(n, ast.stmt)), key=lambda s: (s.lineno, s.col_offset))
    for st in stmts:
        if isinstance(st, (ast.Assign, ast.AnnAssign)):
            tg = st.targets if isinstance(st, ast.Assign) else [st.target]
            hit = [t.id for t in tg if isinstance(t, ast.Name) and t.id in names]
            if hit and st.value is not None:
                if isinstance(st.value, ast.List):
                    for e in st.value.elts:
                        add(st, e, st.value, hit[0])
                elif isinstance(st.value, ast.Tuple) and all(isinstance(x, ast.List) and not x.elts for x in st.value.elts):
                    pass
                else:
                    raise AnalysisError(f"{f.qual}: equation list `{hit[0]}` is bound to something that is not a list literal: {norm(st)}")
            elif isinstance(st, ast.Assign):
                # `buffer_eqs, var_dict = [], {}`
                for t in tg:
                    if isinstance(t, (ast.Tuple, ast.List)) and isinstance(st.value, (ast.Tuple, ast.List)) and len(t.elts) == len(st.value.elts):
                        for te, ve in zip(t.elts, st.value.elts):
                            if isinstance(te, ast.Name) and te.id in names:
                                if not isinstance(ve, ast.List):
                                    raise AnalysisError(f"{f.qual}: equation list `{te.id}` bound to a non-list: {norm(st)}")
                                for e in ve.elts:
                                    add(st, e, ve, te.id)
        elif isinstance(st, ast.Expr) and isinstance(st.value, ast.Call) and isinstance(st.value.func, ast.Attribute) \
                and isinstance(st.value.func.value, ast.Name) and st.value.func.value.id in names:
            c = st.value
            if c.func.attr == "append" and len(c.args) == 1:
                add(st, c.args[0], None, c.func.value.id)
            else:
                raise AnalysisError(f"{f.qual}: unrecognised mutation of the equation list: {norm(st)}")
        elif isinstance(st, ast.AugAssign) and isinstance(st.target, ast.Name) and st.target.id in names:
            if isinstance(st.value, ast.List):
                for e in st.value.elts:
                    add(st, e, None, st.target.id)
            else:
                raise AnalysisError(f"{f.qual}: unrecognised extension of the equation list: {norm(st)}")
    return out


def stray_equation_strings(ctx, f, known_nodes, needle) -> List[ast.AST]:
    """String expressions of `f` whose template satisfies `needle` but which are not recognised emissions."""
    out = []
    known = {id(n) for n in known_nodes}
    for n in walk_shallow(f.node):
        if isinstance(n, (ast.JoinedStr, ast.Constant)) and id(n) not in known:
            if isinstance(parent(n), (ast.JoinedStr, ast.FormattedValue)):
                continue
            if isinstance(n, ast.Constant) and isinstance(parent(n), ast.Expr):
                continue            # docstring
            t = fstring_template(n)
            if t is not None and needle(t):
                out.append(n)
    return out


# ---------------------------------------------------------------------------------------------
# variable definitions
# ---------------------------------------------------------------------------------------------

@dataclass
class VarDef:
    name: str                    # template of the variable's name
    node: ast.Dict
    stmt: ast.stmt
    fields: Dict[str, ast.AST]


def _dict_fields(ctx, f, n, _depth=0) -> Optional[Dict[str, ast.AST]]:
    """Constant-keyed fields of a mapping built by `n`: a dict literal, `dict(k=v, ...)`, or a call of a repository helper whose
    only statement returns such a mapping of its parameters (`def _var_def(vtype, dtype, **fields): return dict(vtype=vtype,
    dtype=dtype, **fields)`); the helper's parameters are replaced by the call's arguments, so the values are expressions of
    `f`.  None if `n` is none of these."""
    if isinstance(n, ast.Dict):
        out = {}
        for k, v in zip(n.keys, n.values):
            if k is None:
                return None if not isinstance(v, ast.Dict) else out        # `**other`: unknown fields
            if isinstance(k, ast.Constant) and isinstance(k.value, str):
                out[k.value] = v
        return out
    if not isinstance(n, ast.Call):
        return None
    if isinstance(n.func, ast.Name) and n.func.id == "dict" and not n.args:
        if any(k.arg is None for k in n.keywords):
            return None
        return {k.arg: k.value for k in n.keywords}
    if _depth >= 2:
        return None
    g = resolve_single(ctx, f, n)
    if g is None:
        return None
    body = [st for st in g.node.body if not (isinstance(st, ast.Expr) and isinstance(st.value, ast.Constant))]
    if len(body) != 1 or not isinstance(body[0], ast.Return) or body[0].value is None:
        return None
    r = body[0].value
    # fields of the returned mapping, as expressions of the helper
    kwparam = g.node.args.kwarg.arg if g.node.args.kwarg is not None else None
    inner: Dict[str, ast.AST] = {}
    spread_kw = False
    if isinstance(r, ast.Call) and isinstance(r.func, ast.Name) and r.func.id == "dict" and not r.args:
        for k in r.keywords:
            if k.arg is None:
                if isinstance(k.value, ast.Name) and k.value.id == kwparam:
                    spread_kw = True
                else:
                    return None
            else:
                inner[k.arg] = k.value
    elif isinstance(r, ast.Dict):
        for k, v in zip(r.keys, r.values):
            if k is None:
                if isinstance(v, ast.Name) and v.id == kwparam:
                    spread_kw = True
                else:
                    return None
            elif isinstance(k, ast.Constant) and isinstance(k.value, str):
                inner[k.value] = v
            else:
                return None
    else:
        return None
    if any(isinstance(a, ast.Starred) for a in n.args) or any(k.arg is None for k in n.keywords):
        return None
    binding = bind_args(g, n)
    pos = [a.arg for a in g.node.args.posonlyargs + g.node.args.args + g.node.args.kwonlyargs]
    dflt = {}
    a_ = g.node.args
    plain = [x.arg for x in a_.posonlyargs + a_.args]
    for i, dv in enumerate(a_.defaults):
        dflt[plain[len(plain) - len(a_.defaults) + i]] = dv
    for x, dv in zip(a_.kwonlyargs, a_.kw_defaults):
        if dv is not None:
            dflt[x.arg] = dv
    out = {}
    for k, v in inner.items():
        if isinstance(v, ast.Constant):
            out[k] = v
        elif isinstance(v, ast.Name) and v.id in pos:
            if v.id in binding:
                out[k] = binding[v.id]
            elif v.id in dflt and isinstance(dflt[v.id], ast.Constant):
                out[k] = dflt[v.id]
            else:
                return None
        else:
            return None         # the helper computes a field: not a plain constructor
    if spread_kw:
        for k in n.keywords:
            if k.arg not in pos:
                out[k.arg] = k.value
    return out


def var_defs(ctx, f) -> List[VarDef]:
    """Variable definitions (`{'vtype': ..., 'shape': ...}` mappings, see _dict_fields for the accepted spellings) that `f`
    files under a name: as a value of an enclosing dict literal or by `D[name] = <definition>`."""
    out = []
    for n in walk_shallow(f.node):
        if not isinstance(n, (ast.Dict, ast.Call)):
            continue
        p = parent(n)
        key = None
        if isinstance(p, ast.Dict):
            for k, v in zip(p.keys, p.values):
                if v is n:
                    key = k
        elif isinstance(p, ast.Assign) and p.value is n and len(p.targets) == 1 and isinstance(p.targets[0], ast.Subscript):
            key = p.targets[0].slice
        if key is None:
            continue
        fields = _dict_fields(ctx, f, n)
        if not fields or "vtype" not in fields:
            continue
        st = n
        while not isinstance(st, ast.stmt):
            st = parent(st)
        out.append(VarDef(render_expr(ctx, f, key), n, st, fields))
    return out


# ---------------------------------------------------------------------------------------------
# branches
# ---------------------------------------------------------------------------------------------

def branch_chain(node, stop=None) -> List[Tuple[ast.If, bool]]:
    """(If, arm) pairs enclosing `node`, innermost first; arm True = body, False = orelse."""
    out = []
    child, a = node, parent(node)
    while a is not None and a is not stop and not isinstance(a, (ast.FunctionDef, ast.AsyncFunctionDef)):
        if isinstance(a, ast.If):
            if any(child is b for b in a.body):
                out.append((a, True))
            elif any(child is b for b in a.orelse):
                out.append((a, False))
        child, a = a, parent(a)
    return out


def _strip_not(t):
    neg = False
    while isinstance(t, ast.UnaryOp) and isinstance(t.op, ast.Not):
        t, neg = t.operand, not neg
    return t, neg


def _resolve_flag(ctx, f, t, depth=0):
    """A test that is a local with one definition stands for that definition (`scalar = pred(x)` ... `if scalar:`)."""
    t, neg = _strip_not(t)
    if isinstance(t, ast.Name) and depth < 3:
        v = single_value(ctx, f, t)
        if v is not None and not isinstance(v, (ast.Constant, ast.Name)) and _names_stable(ctx, f, v, t):
            t2, n2 = _resolve_flag(ctx, f, v, depth + 1)
            return t2, neg != n2
    return t, neg


def _names_stable(ctx, f, value, use) -> bool:
    """Every local read by `value` (the right-hand side of the single definition of `use`) has the same reaching definitions
    where it is defined and where `use` is read."""
    rd = ctx.rd(f)
    defs = rd.defs_reaching(use)
    if len(defs) != 1 or not isinstance(defs[0], ast.stmt):
        return False
    use_st = stmt_of_expr(use)
    for x in ast.walk(value):
        if isinstance(x, ast.Name) and isinstance(x.ctx, ast.Load):
            a = {id(d) for d in rd.defs_reaching(x)}
            b = {id(d) for d in rd.defs_reaching_at(use_st, x.id)}
            if a != b:
                return False
    return True


def condition_relation(ctx, f, if1: ast.If, if2: ast.If) -> int:
    """+1: the two tests always have the same truth value; -1: always opposite; 0: unrelated/unknown.  Tests are compared after
    stripping `not` and looking through flag locals; texts must agree and every name must have the same reaching definitions."""
    if if1 is if2:
        return 1
    return test_relation(ctx, f, if1.test, if2.test)


def test_relation(ctx, f, test1, test2) -> int:
    """condition_relation for two test expressions (of `if` statements or conditional expressions) of `f`."""
    t1, n1 = _resolve_flag(ctx, f, test1)
    t2, n2 = _resolve_flag(ctx, f, test2)
    if norm(t1) != norm(t2):
        return 0
    a = [n for n in ast.walk(t1) if isinstance(n, ast.Name)]
    b = [n for n in ast.walk(t2) if isinstance(n, ast.Name)]
    rd = ctx.rd(f)
    for x, y in zip(a, b):
        if {id(d) for d in rd.defs_reaching(x)} != {id(d) for d in rd.defs_reaching(y)}:
            return 0
    return 1 if n1 == n2 else -1


def same_condition(ctx, f, if1: ast.If, if2: ast.If) -> bool:
    return condition_relation(ctx, f, if1, if2) == 1


def compatible(ctx, f, chain_a, chain_b) -> bool:
    for ia, arm_a in chain_a:
        for ib, arm_b in chain_b:
            rel = condition_relation(ctx, f, ia, ib)
            if rel == 1 and arm_a != arm_b:
                return False
            if rel == -1 and arm_a == arm_b:
                return False
    return True


# ---------------------------------------------------------------------------------------------
# provenance
# ---------------------------------------------------------------------------------------------

def is_param(ctx, f, name_node: ast.Name) -> bool:
    defs = ctx.rd(f).defs_reaching(name_node)
    return len(defs) == 1 and defs[0] is f.node.args


def single_value(ctx, f, name_node: ast.Name) -> Optional[ast.AST]:
    defs = ctx.rd(f).defs_reaching(name_node)
    if len(defs) != 1 or not isinstance(defs[0], ast.stmt):
        return None
    return assigned_value(defs[0], name_node.id)


def mutations_of(f, name: str) -> List[ast.Call]:
    """`name.append(x)` / `name.extend(x)` calls in f."""
    out = []
    for n in walk_shallow(f.node):
        if isinstance(n, ast.Call) and isinstance(n.func, ast.Attribute) and isinstance(n.func.value, ast.Name) \
                and n.func.value.id == name and n.func.attr in ("append", "extend", "insert"):
            out.append(n)
    return out


def value_roots(ctx, f, expr, *, through_len=False, follow_calls=False, _depth=0) -> Dict[str, Set[str]]:
    """Where the *values* of `expr` come from: {'params': names of parameters, 'keys': constant string subscripts / .pop / .get
    keys met on the way, 'calls': callee names}.  Follows reaching definitions (assignment values, loop iterables, list
    mutations by append/extend); does not follow control dependence, and does not look inside `len(...)` (a length carries
    no element values).  With `follow_calls`, a call that resolves to one repository function is looked through: the roots of
    what the callee returns (component i of a returned tuple when the call's result is unpacked into a tuple target) are added,
    the callee's parameters being traced back to the call's arguments."""
    res = {"params": set(), "keys": set(), "calls": set()}
    seen: Set[int] = set()
    rd = ctx.rd(f)

    def walk_expr(e):
        stack = [e]
        while stack:
            n = stack.pop()
            if isinstance(n, ast.Compare) or (isinstance(n, ast.UnaryOp) and isinstance(n.op, ast.Not)):
                continue            # a truth value carries no element values (e.g. a flag computed from another attribute)
            if isinstance(n, ast.Call):
                cn = call_name(n)
                if cn == "len" and not through_len:
                    continue
                if cn:
                    res["calls"].add(cn)
                if cn in ("pop", "get") and n.args and const_str(n.args[0]) is not None:
                    res["keys"].add(const_str(n.args[0]))
                if follow_calls:
                    into_callee(n, None)
            if isinstance(n, ast.Subscript) and const_str(n.slice) is not None:
                res["keys"].add(const_str(n.slice))
            if isinstance(n, ast.Name) and isinstance(n.ctx, ast.Load):
                visit_name(n)
            stack.extend(ast.iter_child_nodes(n))

    def visit_name(n):
        visit_defs(n.id, rd.defs_reaching(n))

    def visit_defs(name, defs):
        n = ast.Name(id=name)
        for d in defs:
            if d is f.node.args:
                res["params"].add(n.id)
                continue
            if (id(d), name) in seen:
                continue
            seen.add((id(d), name))
            if isinstance(d, ast.stmt):
                v = assigned_value(d, n.id)
                if isinstance(d, ast.AugAssign):
                    visit_defs(name, rd.defs_reaching_at(d, name))      # the value before the augmentation
                if v is not None:
                    walk_expr(v)
                elif follow_calls and unpack_position(d, name) is not None and into_callee(d.value, unpack_position(d, name)):
                    for a in list(d.value.args) + [k.value for k in d.value.keywords]:
                        walk_expr(a)        # conservative: whatever is handed to the callee may reach the result
                else:
                    for h in header_exprs(d):
                        if isinstance(h, ast.stmt):
                            for c in ast.iter_child_nodes(h):
                                if not (isinstance(c, ast.Name) and isinstance(c.ctx, ast.Store)):
                                    walk_expr(c)
                        else:
                            walk_expr(h)
        key = ("mut", n.id)
        if key not in seen_mut:
            seen_mut.add(key)
            for c in mutations_of(f, n.id):
                for a in c.args:
                    walk_expr(a)

    def unpack_position(d, name):
        """`a, b, c = call(...)`: position of `name` among the targets."""
        if isinstance(d, ast.Assign) and len(d.targets) == 1 and isinstance(d.targets[0], (ast.Tuple, ast.List)) \
                and isinstance(d.value, ast.Call):
            for i, t in enumerate(d.targets[0].elts):
                if isinstance(t, ast.Name) and t.id == name:
                    return i
        return None

    def into_callee(call, pos) -> bool:
        if _depth >= 2:
            return False
        g = resolve_single(ctx, f, call)
        if g is None:
            return False
        rets = returns_of(g)
        if not rets:
            return False
        binding = bind_args(g, call)
        for r in rets:
            e = r.value
            if pos is not None:
                if not (isinstance(e, ast.Tuple) and pos < len(e.elts)):
                    return False
                e = e.elts[pos]
            sub = value_roots(ctx, g, e, through_len=through_len, follow_calls=True, _depth=_depth + 1)
            res["keys"] |= sub["keys"]
            res["calls"] |= sub["calls"]
            for p_ in sub["params"]:
                if p_ in binding:
                    walk_expr(binding[p_])
        return True

    seen_mut: Set[Tuple[str, str]] = set()
    walk_expr(expr)
    return res


def unwrap_enumerate(it):
    """`enumerate(x)` -> (x, True); x -> (x, False)."""
    if isinstance(it, ast.Call) and call_name(it) == "enumerate" and it.args:
        return it.args[0], True
    return it, False


def loop_of(node, stop=None) -> Optional[ast.For]:
    a = parent(node)
    while a is not None and a is not stop and not isinstance(a, (ast.FunctionDef, ast.AsyncFunctionDef)):
        if isinstance(a, ast.For):
            return a
        a = parent(a)
    return None


def rounding_call(e) -> Optional[Tuple[str, ast.AST]]:
    """`round(x)`, `np.round(x, ...)`, `np.rint(x)`, `np.around(x)` -> ('round', x); floor/ceil/trunc -> ('trunc', x)."""
    if isinstance(e, ast.Call) and e.args:
        cn = call_name(e)
        if cn in ROUNDERS:
            # a decimals argument other than 0 is not an integer rounding
            dec = None
            if len(e.args) > 1:
                dec = e.args[1]
            for k in e.keywords:
                if k.arg in ("decimals", "ndigits"):
                    dec = k.value
            if dec is not None and not (isinstance(dec, ast.Constant) and dec.value in (0, None)):
                return None
            return "round", e.args[0]
        if cn in TRUNCATORS:
            return "trunc", e.args[0]
    return None


def iter_source(target, it, name: str):
    """The iterable whose *elements* the loop variable `name` takes, matched positionally through enumerate/zip.
    Returns the iterable expression, the string 'index' for an enumerate counter, or None."""
    if isinstance(target, ast.Name):
        return it if target.id == name else None
    if isinstance(target, (ast.Tuple, ast.List)):
        if isinstance(it, ast.Call) and call_name(it) == "enumerate" and len(target.elts) == 2 and it.args:
            if isinstance(target.elts[0], ast.Name) and target.elts[0].id == name:
                return "index"
            return iter_source(target.elts[1], it.args[0], name)
        if isinstance(it, ast.Call) and call_name(it) == "zip" and len(it.args) == len(target.elts):
            for te, a in zip(target.elts, it.args):
                r = iter_source(te, a, name)
                if r is not None:
                    return r
    return None


def element_source(ctx, f, name_node: ast.Name, _depth=0):
    """If `name_node` is (only) a loop / comprehension variable: the iterable it runs over (see iter_source)."""
    # comprehension variable?
    a = parent(name_node)
    while a is not None and not isinstance(a, ast.stmt):
        if isinstance(a, (ast.ListComp, ast.GeneratorExp, ast.SetComp, ast.DictComp)):
            for g in a.generators:
                r = iter_source(g.target, g.iter, name_node.id)
                if r is not None:
                    return r
        a = parent(a)
    defs = ctx.rd(f).defs_reaching(name_node)
    if len(defs) == 1 and isinstance(defs[0], ast.For):
        return iter_source(defs[0].target, defs[0].iter, name_node.id)
    # `a, b, c = row[:3]` / `a, b, c = row` where `row` runs over zip(A, B, C, ...) or zip(*cols) with cols = [A, B, C] (+ appends)
    if len(defs) == 1 and isinstance(defs[0], ast.Assign) and len(defs[0].targets) == 1 and isinstance(defs[0].targets[0], (ast.Tuple, ast.List)) \
            and _depth < 2:
        tg = defs[0].targets[0]
        pos = [i for i, t in enumerate(tg.elts) if isinstance(t, ast.Name) and t.id == name_node.id]
        v = defs[0].value
        if len(pos) == 1 and not any(isinstance(t, ast.Starred) for t in tg.elts):
            return _row_component(ctx, f, v, pos[0], len(tg.elts), _depth)
    if len(defs) == 1 and isinstance(defs[0], ast.Assign) and isinstance(assigned_value(defs[0], name_node.id), ast.Subscript) and _depth < 2:
        v = assigned_value(defs[0], name_node.id)
        if isinstance(v.slice, ast.Constant) and isinstance(v.slice.value, int) and v.slice.value >= 0:
            return _row_component(ctx, f, v.value, v.slice.value, None, _depth)
    return None


def _row_component(ctx, f, row, i: int, width, _depth):
    """The iterable whose elements component `i` of `row` takes, when `row` (possibly a prefix slice `row[:k]`) is the loop
    variable of a loop over zip(...)."""
    if isinstance(row, ast.Subscript) and isinstance(row.slice, ast.Slice):
        sl = row.slice
        lower_ok = sl.lower is None or (isinstance(sl.lower, ast.Constant) and sl.lower.value == 0)
        upper_ok = sl.upper is None or (isinstance(sl.upper, ast.Constant) and isinstance(sl.upper.value, int) and sl.upper.value > i)
        if not (lower_ok and upper_ok and sl.step is None):
            return None
        row = row.value
    if not isinstance(row, ast.Name):
        return None
    z = element_source(ctx, f, row, _depth + 1)
    if not (isinstance(z, ast.Call) and call_name(z) == "zip") or z.keywords:
        return None
    if len(z.args) == 1 and isinstance(z.args[0], ast.Starred) and isinstance(z.args[0].value, ast.Name):
        cols = z.args[0].value
        v = single_value(ctx, f, cols)
        # later `cols.append(x)` only adds columns behind the literal's
        if isinstance(v, ast.List) and i < len(v.elts) and all(c.func.attr == "append" for c in mutations_of(f, cols.id)) \
                and not any(isinstance(e, ast.Starred) for e in v.elts):
            return v.elts[i]
        return None
    if not any(isinstance(a, ast.Starred) for a in z.args) and i < len(z.args):
        return z.args[i]
    return None


# ---------------------------------------------------------------------------------------------
# roles that survive refactoring: extracted helpers, De-Morgan'd tests, flags that hold a test
# ---------------------------------------------------------------------------------------------

def stmt_of_expr(n):
    while n is not None and not isinstance(n, ast.stmt):
        n = parent(n)
    return n


def resolve_single(ctx, f, call: ast.Call):
    """The one repository function a call resolves to (not through the unique-name fallback), else None."""
    try:
        targets, how = ctx.cg.resolve_call(f, call)
    except Exception:
        return None
    if how == "by-name" or len(targets) != 1:
        return None
    return targets[0]


def helper_scopes(ctx, f, exclude=(), depth=2) -> List[object]:
    """`f` followed by the helpers of the same module it calls (transitively, `depth` levels): the functions over which the body
    of `f` may have been distributed by an extract-method refactoring.  `exclude`: functions that are anchors of their own."""
    out, seen = [f], {f.qual} | {e.qual for e in exclude}
    frontier = [f]
    for _ in range(depth):
        nxt = []
        for g in frontier:
            for n in walk_shallow(g.node):
                if isinstance(n, ast.Call):
                    t = resolve_single(ctx, g, n)
                    if t is not None and t.qual not in seen and t.module is f.module:
                        seen.add(t.qual)
                        out.append(t)
                        nxt.append(t)
        frontier = nxt
    return out


def bind_args(g, call: ast.Call) -> Dict[str, ast.AST]:
    """parameter name of `g` -> argument expression of `call` (positional and keyword; `self` of a method is skipped)."""
    params = list(g.params)
    if g.cls is not None and not g.is_static and params and params[0] == g.self_name:
        params = params[1:]
    out = {}
    for i, a in enumerate(call.args):
        if isinstance(a, ast.Starred):
            break
        if i < len(params):
            out[params[i]] = a
    for k in call.keywords:
        if k.arg is not None:
            out[k.arg] = k.value
    return out


def returns_of(g) -> List[ast.Return]:
    return [s for s in walk_shallow(g.node) if isinstance(s, ast.Return) and s.value is not None]


def attr_readers(g, key: str) -> Set[str]:
    """Locals of `g` that receive the attribute `key` of a mapping: `x = m['key']`, `x = m.get('key'[, d])`, `x = m.pop('key'[, d])`."""
    out = set()
    for n in walk_shallow(g.node):
        if isinstance(n, (ast.Assign, ast.AnnAssign)):
            tg = n.targets if isinstance(n, ast.Assign) else [n.target]
            v = n.value
            if v is None or len(tg) != 1 or not isinstance(tg[0], ast.Name):
                continue
            if isinstance(v, ast.Subscript) and const_str(v.slice) == key:
                out.add(tg[0].id)
            elif isinstance(v, ast.Call) and call_name(v) in ("get", "pop") and v.args and const_str(v.args[0]) == key:
                out.add(tg[0].id)
    return out


def edge_attr_scope(ctx, coll, keys, exclude=()):
    """(function, {key: local}) - the function (the collector itself or a helper extracted from it) in which the edge attributes
    `keys` are read into locals.  AnalysisError unless exactly one scope reads them, each into exactly one local."""
    found = []
    for g in helper_scopes(ctx, coll, exclude=exclude):
        got = {k: attr_readers(g, k) for k in keys}
        if any(got.values()):
            found.append((g, got))
    if len(found) != 1:
        raise AnalysisError(f"{coll.qual}: cannot identify the scope that reads the edge attribute(s) {list(keys)} into locals "
                            f"(candidates: {[g.qualname for g, _ in found]})")
    g, got = found[0]
    bad = {k: sorted(v) for k, v in got.items() if len(v) != 1}
    if bad:
        raise AnalysisError(f"{g.qual}: cannot identify the local(s) that hold the edge attribute(s) {bad}")
    return g, {k: next(iter(v)) for k, v in got.items()}


def _is_none(e) -> bool:
    return isinstance(e, ast.Constant) and e.value is None


def truth_when_none(ctx, f, test, name: str, _depth=0) -> Optional[bool]:
    """Truth value of `test` when the local `name` is None, if that alone decides it (short-circuit semantics), else None.
    Understands `x is None`, `x is not None`, `x == None`, `not ...`, `or`/`and`, bare `x`, and a flag local whose single
    definition is such a test."""
    if isinstance(test, ast.Compare) and len(test.ops) == 1:
        l, op, r = test.left, test.ops[0], test.comparators[0]
        if _is_none(l):
            l, r = r, l
        if isinstance(l, ast.Name) and l.id == name and _is_none(r):
            if isinstance(op, (ast.Is, ast.Eq)):
                return True
            if isinstance(op, (ast.IsNot, ast.NotEq)):
                return False
        return None
    if isinstance(test, ast.UnaryOp) and isinstance(test.op, ast.Not):
        v = truth_when_none(ctx, f, test.operand, name, _depth)
        return None if v is None else not v
    if isinstance(test, ast.BoolOp):
        # evaluation is left to right: only the parts before the first undecided one count, unless a later part cannot raise/alter
        vals = [truth_when_none(ctx, f, p, name, _depth) for p in test.values]
        if isinstance(test.op, ast.Or):
            if any(v is True for v in vals):
                return True
            return False if all(v is False for v in vals) else None
        if any(v is False for v in vals):
            return False
        return True if all(v is True for v in vals) else None
    if isinstance(test, ast.Name):
        if test.id == name:
            return False
        if _depth < 3 and f is not None:
            v = single_value(ctx, f, test)
            if v is not None and not isinstance(v, ast.Name):
                return truth_when_none(ctx, f, v, name, _depth + 1)
    return None


def mentions(e, name: str) -> bool:
    return any(isinstance(x, ast.Name) and x.id == name for x in ast.walk(e))


def flag_arm_when_false(test, flag: str) -> Optional[bool]:
    """The arm (True = body, False = orelse) of `if test` that is certainly taken when the boolean local `flag` is False:
    `flag`, `flag and X` -> orelse; `not flag`, `not flag or X`, `not (flag and X)` -> body.  None: the flag alone does not decide."""
    def val(t) -> Optional[bool]:
        # value of t when flag is False, if decided
        if isinstance(t, ast.Name) and t.id == flag:
            return False
        if isinstance(t, ast.UnaryOp) and isinstance(t.op, ast.Not):
            v = val(t.operand)
            return None if v is None else not v
        if isinstance(t, ast.BoolOp):
            vs = [val(p) for p in t.values]
            if isinstance(t.op, ast.And):
                return False if any(v is False for v in vs) else None
            return True if any(v is True for v in vs) else None
        if isinstance(t, ast.Compare) and len(t.ops) == 1 and isinstance(t.left, ast.Name) and t.left.id == flag \
                and isinstance(t.comparators[0], ast.Constant) and isinstance(t.comparators[0].value, bool):
            c = t.comparators[0].value
            if isinstance(t.ops[0], (ast.Is, ast.Eq)):
                return c is False
            if isinstance(t.ops[0], (ast.IsNot, ast.NotEq)):
                return c is True
        return None
    return val(test)


REORDERERS = {"sorted", "reversed", "set", "frozenset", "shuffle", "permutation", "unique", "flip"}


def iterates_in_order(ctx, f, it, pname: str) -> Optional[bool]:
    """Does a loop over `it` visit the elements of the parameter `pname` front to back?  True: `p`, `enumerate(p)`,
    `zip(p, ...)`, `range(len(p))` (index loop), `list(p)`, `p[:]`; False: a re-ordering wrapper (sorted/reversed/set/..., a
    slice with bounds or step); None: unrecognised."""
    if isinstance(it, ast.Name):
        if it.id == pname and is_param(ctx, f, it):
            return True
        v = single_value(ctx, f, it)
        return iterates_in_order(ctx, f, v, pname) if v is not None and not isinstance(v, ast.Name) else None
    if isinstance(it, ast.Call):
        cn = call_name(it)
        if cn == "enumerate" and it.args:
            return iterates_in_order(ctx, f, it.args[0], pname)
        if cn == "zip" and it.args:
            rs = [iterates_in_order(ctx, f, a, pname) for a in it.args]
            return True if any(r is True for r in rs) else (False if any(r is False for r in rs) else None)
        if cn == "range" and len(it.args) == 1 and isinstance(it.args[0], ast.Call) and call_name(it.args[0]) == "len" \
                and len(it.args[0].args) == 1:
            return iterates_in_order(ctx, f, it.args[0].args[0], pname)
        if cn in ("list", "tuple", "iter") and len(it.args) == 1:
            return iterates_in_order(ctx, f, it.args[0], pname)
        if cn in REORDERERS and it.args and iterates_in_order(ctx, f, it.args[0], pname) is not None:
            return False
    if isinstance(it, ast.Subscript) and isinstance(it.slice, ast.Slice) and iterates_in_order(ctx, f, it.value, pname) is not None:
        sl = it.slice
        return sl.lower is None and sl.upper is None and sl.step is None
    return None


# ---------------------------------------------------------------------------------------------
# provenance tracer: where does a value come from, through containers, loops and helpers
# ---------------------------------------------------------------------------------------------

@dataclass(eq=False)
class Scope:
    """A function being looked at, and (for a helper) the call through which it was entered."""
    f: object
    parent: Optional["Scope"] = None
    call: Optional[ast.Call] = None

    def key(self):
        return (self.f.qual, id(self.call) if self.call is not None else 0, self.parent.key() if self.parent is not None else None)

    def root(self) -> "Scope":
        return self if self.parent is None else self.parent.root()


@dataclass
class Leaf:
    scope: Scope
    node: ast.AST
    sel: tuple              # selectors that could not be applied (the value is a component of what `node` denotes)
    kind: str               # 'const' | 'param' | 'expr' | 'counter' | 'opaque'


@dataclass
class Trace:
    leaves: List[Leaf] = field(default_factory=list)
    waypoints: List[Tuple[Scope, ast.Name, tuple]] = field(default_factory=list)   # names the value passed through, with the pending selectors
    containers: List[str] = field(default_factory=list)         # locals passed as containers (pending selector 'elem'/'key'/'dkey')
    binders: List[ast.AST] = field(default_factory=list)         # loops / comprehensions whose variable the value passed through
    indexed: List[ast.Subscript] = field(default_factory=list)   # `x[i]` with a computed index that the value was read through

    def values(self):
        return [l for l in self.leaves if l.kind != "const"]

    def stops(self):
        return [l for l in self.leaves if l.kind == "stop"]

    def opaque(self):
        return [l for l in self.leaves if l.kind == "opaque" or (l.sel and l.kind != "param")]


VALUE_WRAPPERS = {"float", "int", "round", "abs", "str"}
CONTAINER_WRAPPERS = {"list", "tuple", "asarray", "array", "flatten", "squeeze", "copy", "deepcopy", "atleast_1d"}


def pattern_path(target, name: str) -> Optional[tuple]:
    """Selectors that lead from the value bound to `target` (a Name or a nested tuple pattern) to the variable `name`."""
    if isinstance(target, ast.Name):
        return () if target.id == name else None
    if isinstance(target, (ast.Tuple, ast.List)):
        if any(isinstance(t, ast.Starred) for t in target.elts):
            return None
        for i, t in enumerate(target.elts):
            p = pattern_path(t, name)
            if p is not None:
                return (("idx", i),) + p
    return None


def _comp_binding(name_node: ast.Name):
    """(comprehension generator, path) if `name_node` is a variable of an enclosing comprehension."""
    child, a = name_node, parent(name_node)
    while a is not None and not isinstance(a, ast.stmt):
        if isinstance(a, (ast.ListComp, ast.GeneratorExp, ast.SetComp, ast.DictComp)):
            for gi, g in enumerate(a.generators):
                p = pattern_path(g.target, name_node.id)
                if p is not None:
                    # the first generator's iterable is evaluated outside the comprehension's scope
                    if not (gi == 0 and contains(g.iter, name_node)):
                        return g, p
        child, a = a, parent(a)
    return None


def contains(outer, inner) -> bool:
    n = inner
    while n is not None:
        if n is outer:
            return True
        n = parent(n)
    return False


def trace(ctx, scope: Scope, expr, sel: tuple = (), max_depth: int = 60, stop=None) -> Trace:
    """Follow the value of `expr` (or, with `sel`, a component of it) back to the expressions that produce it.
    Passes through: locals (all reaching definitions), tuple packing/unpacking, loop and comprehension variables over
    zip/enumerate/dict.items(), list literals/comprehensions/append/extend/`+=`, dict literals and stores with constant keys,
    `D.setdefault(k, v)`, conditional expressions, `x or default`, value wrappers (float/int/round), container wrappers
    (list/asarray/...), and calls of repository helpers (every `return`, parameters mapped back to the arguments).
    Ends at constants, parameters of the root function, arithmetic and anything else (leaf kind 'opaque' when selectors are left).
    `stop`: identities (name_ident) of names at which the trace ends with a leaf of kind 'stop' when the value passes through
    them unchanged."""
    res = Trace()
    seen = set()

    def leaf(sc, node, s, kind=None):
        if kind is None:
            if isinstance(node, ast.Constant):
                kind = "const"
            elif s:
                kind = "opaque"
            else:
                kind = "expr"
        res.leaves.append(Leaf(sc, node, s, kind))

    def go_defs(sc, name_node, name, defs, s, depth):
        f = sc.f
        rd = ctx.rd(f)
        if not defs:
            leaf(sc, name_node, s, "opaque")
            return
        for d in defs:
            k = (sc.key(), id(d), name, s)
            if k in seen:
                continue
            seen.add(k)
            if d is f.node.args:
                if sc.parent is not None and sc.call is not None:
                    b = bind_args(f, sc.call)
                    if name in b:
                        go(sc.parent, b[name], s, depth + 1)
                        continue
                    dv = _default_of(f, name)
                    if dv is not None:
                        go(sc, dv, s, depth + 1)
                        continue
                    leaf(sc, name_node, s, "opaque")
                else:
                    leaf(sc, name_node, s, "param")
            elif isinstance(d, (ast.For, ast.AsyncFor)):
                p = pattern_path(d.target, name)
                if p is None:
                    leaf(sc, name_node, s, "opaque")
                else:
                    res.binders.append(d)
                    go(sc, d.iter, (("elem",),) + p + s, depth + 1)
            elif isinstance(d, ast.Assign):
                v = assigned_value(d, name)
                if v is not None:
                    go(sc, v, s, depth + 1)
                else:
                    p = None
                    for t in d.targets:
                        p = p or pattern_path(t, name)
                    if p is None:
                        leaf(sc, name_node, s, "opaque")
                    else:
                        go(sc, d.value, p + s, depth + 1)
            elif isinstance(d, ast.AnnAssign) and d.value is not None:
                go(sc, d.value, s, depth + 1)
            elif isinstance(d, ast.AugAssign):
                go_defs(sc, name_node, name, rd.defs_reaching_at(d, name), s, depth + 1)
                if s and s[0][0] == "elem" and isinstance(d.op, ast.Add):
                    go(sc, d.value, s, depth + 1)
                elif not s:
                    leaf(sc, d.value, s, "opaque")
            else:
                leaf(sc, name_node, s, "opaque")

    def container_stores(sc, name, s, depth):
        """what is put into the local container `name` elsewhere in the function"""
        f = sc.f
        head = s[0][0]
        for n in walk_shallow(f.node):
            if isinstance(n, ast.Call) and isinstance(n.func, ast.Attribute) and isinstance(n.func.value, ast.Name) and n.func.value.id == name:
                m = n.func.attr
                if head in ("elem", "idx"):         # a position in a list that is built up element by element: any of its elements
                    if m == "append" and len(n.args) == 1:
                        go(sc, n.args[0], s[1:], depth + 1)
                    elif m == "extend" and len(n.args) == 1:
                        go(sc, n.args[0], (("elem",),) + s[1:], depth + 1)
                    elif m == "insert" and len(n.args) == 2:
                        go(sc, n.args[1], s[1:], depth + 1)
                    elif m == "setdefault" and len(n.args) == 2:
                        go(sc, n.args[1], s[1:], depth + 1)
                elif head == "dkey" and m == "setdefault" and n.args:
                    go(sc, n.args[0], s[1:], depth + 1)
                elif head == "key" and m == "setdefault" and len(n.args) == 2 and const_str(n.args[0]) == s[0][1]:
                    go(sc, n.args[1], s[1:], depth + 1)
            elif isinstance(n, ast.Assign):
                for t in n.targets:
                    if isinstance(t, ast.Subscript) and isinstance(t.value, ast.Name) and t.value.id == name:
                        if head == "elem":
                            go(sc, n.value, s[1:], depth + 1)
                        elif head == "dkey":
                            go(sc, t.slice, s[1:], depth + 1)
                        elif head == "key" and const_str(t.slice) == s[0][1]:
                            go(sc, n.value, s[1:], depth + 1)
                        elif head == "idx" and isinstance(t.slice, ast.Constant) and t.slice.value == s[0][1]:
                            go(sc, n.value, s[1:], depth + 1)

    def go(sc, e, s, depth):
        if depth > max_depth:
            leaf(sc, e, s, "opaque")
            return
        f = sc.f
        if isinstance(e, ast.Constant):
            leaf(sc, e, s, "const")
            return
        if isinstance(e, ast.IfExp):
            go(sc, e.body, s, depth + 1)
            go(sc, e.orelse, s, depth + 1)
            return
        if isinstance(e, ast.BoolOp) and isinstance(e.op, ast.Or):
            for v in e.values:
                go(sc, v, s, depth + 1)
            return
        if isinstance(e, ast.Starred):
            leaf(sc, e, s, "opaque")
            return
        if isinstance(e, ast.Subscript):
            k = e.slice
            if isinstance(k, ast.Constant) and isinstance(k.value, int) and not isinstance(k.value, bool):
                go(sc, e.value, (("idx", k.value),) + s, depth + 1)
            elif isinstance(k, ast.Constant) and isinstance(k.value, str):
                go(sc, e.value, (("key", k.value),) + s, depth + 1)
            elif isinstance(k, ast.Slice):
                prefix = k.lower is None or (isinstance(k.lower, ast.Constant) and k.lower.value == 0)
                if (not s) or s[0][0] == "elem" or (s[0][0] == "idx" and prefix and k.step is None):
                    go(sc, e.value, s, depth + 1)
                else:
                    leaf(sc, e, s, "opaque")
            else:
                res.indexed.append(e)
                go(sc, e.value, (("elem",),) + s, depth + 1)
            return
        if isinstance(e, (ast.Tuple, ast.List)):
            if not s:
                leaf(sc, e, s, "expr")
            elif any(isinstance(x, ast.Starred) for x in e.elts):
                leaf(sc, e, s, "opaque")
            elif s[0][0] == "idx":
                i = s[0][1]
                if -len(e.elts) <= i < len(e.elts):
                    go(sc, e.elts[i], s[1:], depth + 1)
                elif isinstance(e, ast.Tuple):
                    leaf(sc, e, s, "opaque")
                # an index beyond a list literal: filled in later by append (handled at the name)
            elif s[0][0] == "elem":
                for x in e.elts:
                    go(sc, x, s[1:], depth + 1)
            else:
                leaf(sc, e, s, "opaque")
            return
        if isinstance(e, ast.Dict):
            if not s:
                leaf(sc, e, s, "expr")
            elif any(k is None for k in e.keys):
                leaf(sc, e, s, "opaque")
            elif s[0][0] == "key":
                for k, v in zip(e.keys, e.values):
                    if const_str(k) == s[0][1]:
                        go(sc, v, s[1:], depth + 1)
            elif s[0][0] == "elem":
                for v in e.values:
                    go(sc, v, s[1:], depth + 1)
            elif s[0][0] == "dkey":
                for k in e.keys:
                    go(sc, k, s[1:], depth + 1)
            else:
                leaf(sc, e, s, "opaque")
            return
        if isinstance(e, (ast.ListComp, ast.GeneratorExp, ast.SetComp)):
            if s and s[0][0] in ("elem", "idx"):
                res.binders.append(e)
                go(sc, e.elt, s[1:], depth + 1)
            else:
                leaf(sc, e, s, "opaque" if s else "expr")
            return
        if isinstance(e, ast.BinOp):
            if s and s[0][0] in ("elem", "idx") and isinstance(e.op, ast.Mult) and (isinstance(e.left, ast.List) or isinstance(e.right, ast.List)):
                go(sc, e.left if isinstance(e.left, ast.List) else e.right, (("elem",),) + s[1:], depth + 1)
            elif s and s[0][0] == "elem" and isinstance(e.op, ast.Add):
                go(sc, e.left, s, depth + 1)
                go(sc, e.right, s, depth + 1)
            else:
                leaf(sc, e, s)
            return
        if isinstance(e, ast.Call):
            cn = call_name(e)
            recv = e.func.value if isinstance(e.func, ast.Attribute) else None
            two = len(s) >= 2 and s[0][0] == "elem" and s[1][0] == "idx"
            if cn in ("list", "dict", "set", "tuple") and recv is None and not e.args and not e.keywords:
                pass                        # an empty container: nothing in it yet
            elif cn in VALUE_WRAPPERS and recv is None and e.args:
                go(sc, e.args[0], s, depth + 1)
            elif cn in CONTAINER_WRAPPERS and e.args and not (recv is not None and isinstance(recv, ast.Name) and recv.id == f.self_name):
                go(sc, e.args[0], s, depth + 1)
            elif cn in CONTAINER_WRAPPERS and recv is not None and not e.args:
                go(sc, recv, s, depth + 1)
            elif cn == "zip" and two and not any(isinstance(a, ast.Starred) for a in e.args) and s[1][1] < len(e.args):
                go(sc, e.args[s[1][1]], (("elem",),) + s[2:], depth + 1)
            elif cn == "enumerate" and two and e.args:
                if s[1][1] == 1:
                    go(sc, e.args[0], (("elem",),) + s[2:], depth + 1)
                else:
                    leaf(sc, e, s[2:], "counter")
            elif cn == "items" and recv is not None and two:
                go(sc, recv, (("dkey",) if s[1][1] == 0 else ("elem",),) + s[2:], depth + 1)
            elif cn == "values" and recv is not None:
                go(sc, recv, s, depth + 1)
            elif cn == "keys" and recv is not None and s and s[0][0] == "elem":
                go(sc, recv, (("dkey",),) + s[1:], depth + 1)
            elif cn == "setdefault" and recv is not None and len(e.args) == 2:
                go(sc, recv, (("elem",),) + s, depth + 1)
            elif cn in ("get", "pop") and recv is not None and e.args and const_str(e.args[0]) is not None:
                go(sc, recv, (("key", const_str(e.args[0])),) + s, depth + 1)
                if len(e.args) > 1:
                    go(sc, e.args[1], s, depth + 1)
            elif cn in ("get", "pop") and recv is not None and 1 <= len(e.args) <= 2 and not e.keywords \
                    and isinstance(recv, (ast.Name, ast.Attribute)) and not (isinstance(recv, ast.Name) and recv.id in ("np", "os")):
                res.indexed.append(e)
                go(sc, recv, (("elem",),) + s, depth + 1)
                if len(e.args) > 1:
                    go(sc, e.args[1], s, depth + 1)
            else:
                g = resolve_single(ctx, f, e)
                rets = returns_of(g) if g is not None else []
                if g is not None and rets and not any(isinstance(a, ast.Starred) for a in e.args) and all(k.arg for k in e.keywords):
                    sub = Scope(g, sc, e)
                    for r in rets:
                        go(sub, r.value, s, depth + 1)
                else:
                    leaf(sc, e, s)
            return
        if isinstance(e, ast.Name):
            res.waypoints.append((sc, e, s))
            if stop and not s and name_ident(ctx, sc, e) in stop:
                leaf(sc, e, s, "stop")
                return
            cb = _comp_binding(e)
            if cb is not None:
                g, p = cb
                res.binders.append(g)
                go(sc, g.iter, (("elem",),) + p + s, depth + 1)
                return
            rd = ctx.rd(f)
            defs = rd.defs_reaching(e)
            go_defs(sc, e, e.id, defs, s, depth)
            if s and s[0][0] in ("elem", "key", "dkey", "idx") and not (len(defs) == 1 and defs[0] is f.node.args):
                res.containers.append(e.id)
                k = (sc.key(), "stores", e.id, s)
                if k not in seen:
                    seen.add(k)
                    container_stores(sc, e.id, s, depth)
            return
        if isinstance(e, ast.Attribute) and isinstance(e.value, ast.Name) and e.value.id == f.self_name and s and s[0][0] in ("elem", "key"):
            # a container kept on the object (`self.registry[k] = v` ... `self.registry.get(k)`): what this function files in it
            k = (sc.key(), "attr-stores", e.attr, s)
            found = False
            if k not in seen:
                seen.add(k)
                for n in walk_shallow(f.node):
                    if isinstance(n, ast.Assign):
                        for t in n.targets:
                            if isinstance(t, ast.Subscript) and isinstance(t.value, ast.Attribute) and t.value.attr == e.attr \
                                    and isinstance(t.value.value, ast.Name) and t.value.value.id == f.self_name:
                                if s[0][0] == "elem" or const_str(t.slice) == s[0][1]:
                                    found = True
                                    res.containers.append("self." + e.attr)
                                    go(sc, n.value, s[1:], depth + 1)
                if not found:
                    leaf(sc, e, s, "opaque")
            return
        leaf(sc, e, s)

    go(scope, expr, tuple(sel), 0)
    return res


def _default_of(g, name: str) -> Optional[ast.AST]:
    a = g.node.args
    plain = [x.arg for x in a.posonlyargs + a.args]
    for i, dv in enumerate(a.defaults):
        if plain[len(plain) - len(a.defaults) + i] == name:
            return dv
    for x, dv in zip(a.kwonlyargs, a.kw_defaults):
        if x.arg == name and dv is not None:
            return dv
    return None


def name_ident(ctx, sc: Scope, n: ast.Name):
    """Identity of the value a name holds at a place: scope + name + its reaching definitions."""
    return (sc.key(), n.id, frozenset(id(d) for d in ctx.rd(sc.f).defs_reaching(n)))


def helper_scope_tree(ctx, root: Scope, depth=2) -> List[Scope]:
    """`root` and one scope per call of a same-module helper (transitively): the places where code of the root function may live
    after extract-method refactorings."""
    out, frontier = [root], [root]
    for _ in range(depth):
        nxt = []
        for sc in frontier:
            for n in ast.walk(sc.f.node):
                if isinstance(n, ast.Call) and n is not sc.f.node:
                    g = resolve_single(ctx, sc.f, n)
                    if g is not None and g.module is sc.f.module and g is not sc.f and not any(g is s.f for s in _chain(sc)):
                        sub = Scope(g, sc, n)
                        out.append(sub)
                        nxt.append(sub)
        frontier = nxt
    return out


def _chain(sc: Scope):
    while sc is not None:
        yield sc
        sc = sc.parent


def selection_of_param(ctx, f, name_node: ast.Name) -> Optional[str]:
    """The parameter p if `name_node` is p itself, or a local (possibly re-binding p) whose elements are all elements of p:
    `[p[j] for j in keep]`, `p[keep]`, `np.asarray(p)[keep]`, the result of a helper that returns such a selection.  None otherwise."""
    if is_param(ctx, f, name_node):
        return name_node.id
    ps = element_params(ctx, f, name_node)
    return next(iter(ps)) if ps is not None and len(ps) == 1 else None


def element_params(ctx, f, expr) -> Optional[Set[str]]:
    """Names of the parameters of `f` whose elements (at any depth) the elements of the sequence `expr` are - through
    selections, flattening loops/comprehensions, array wrappers and helper returns; index expressions do not count (they
    choose, they do not provide values).  None if some element has another or an untraceable origin."""
    t = trace(ctx, Scope(f), expr, (("elem",),))
    ps = set()
    for l in t.values():
        if l.kind == "param" and isinstance(l.node, ast.Name) and l.scope.parent is None:
            ps.add(l.node.id)
        else:
            return None
    return ps
