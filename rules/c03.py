"""C03 — run() returns the numerical solution of the compiled system (DESIGN §4 C03)."""
from __future__ import annotations

import ast

import sympy as sp

from engine import AnalysisError
from engine.srcmodel import walk_shallow, norm, dotted
from engine.util import normalise, call_name, contains
from engine.cfg import stmt_of
from . import solvers as S

PROPERTY = "C03"
EXPLANATION = (
    "Decides structural necessary conditions of C03 on every fixed-step solver implementation found through the class table "
    "(all overrides of _solve_euler/_solve_heun in subclasses of BaseBackend; loop form and jax.lax.scan form), on BaseBackend.run "
    "and on CircuitTemplate.run.  R1 borrowed-buffer lifetime: the generated vector field returns the buffer it was given "
    "(decided per backend class from its add_var_update template), so a bare reference to one call's result must not be read "
    "after a later call; the step is executed symbolically under that aliasing and must equal the alias-free step.  R0 the "
    "alias-free step equals the Euler (y+dt*F(t,y)) resp. Heun (y+dt/2*(F(t,y)+F(t',y+dt*F(t,y)))) update exactly (sympy).  "
    "R2 sample-then-step: the record store precedes the update, is guarded by iteration-counter %% stride == 0, advances its "
    "cursor exactly once per store (scan form: the outer scan emits the block's start state).  R3 one formula for the number of "
    "rows: every solver's row count and the num= of the time axis normalise to round(T/dts); the axis is linspace(0, T, num, "
    "endpoint=False).  R4 cutoff flows only into a label slice .loc[cutoff:] of the frame indexed by the time vector.  R5 the history "
    "of a delayed model is fed with the step's result; R6 its lookup (DDEHistory.__call__) clamps and interpolates between the records "
    "around the query for any order of reads (the C19-R5 analysis, reused).  R7 run() never reads the end-state record of the previous "
    "simulation on its way to the solver (row 0 is the declared initial state).  R8 (= C08-R3) an extrinsic input array reaches create_input_node with every sample at the time it was given for, under the fixed-step and the adaptive reading alike.  NOT decided: "
    "accuracy of adaptive solvers, correctness of the vector field itself (C01), pandas/numpy semantics."
)
RULE_TEXT = ("instances = solver overrides resolved through the MRO; each is summarised by symbolic execution of one step; "
             "distinct non-trivial = (rule, function) pairs decided by algebra, ordering or dataflow.")
ASSUMPTIONS = ["The callable handed to the solvers is the generated vector field; whether it borrows its output buffer is decided from "
               "the backend class's add_var_update/_format_assignment template (in-place indexed store vs functional .at[].set).",
               "numpy/torch in-place `y += expr` evaluates expr completely before updating y."]


def r0_step_formula(ctx, rid):
    for s in S.solver_instances(ctx):
        ref_a = S.reference_update(s.solver, S.TAU)
        ref_b = S.reference_update(s.solver, S.TAU + 1)
        facts = {"step": str(s.update_naive), "stage_times": [str(t) for t in s.stage_times], "form": s.form,
                 "reference": str(ref_a)}
        good = sp.simplify(s.update_naive - ref_a) == 0 or (s.solver == "_solve_heun" and sp.simplify(s.update_naive - ref_b) == 0)
        if good:
            ctx.ok(rid, s.f, s.update_stmt, f"one step normalises to the {s.solver[7:]} update", facts)
        else:
            ctx.violation(rid, s.f, s.update_stmt, f"one step of {s.f.qualname} is not the {s.solver[7:]} update of the vector field", facts)
        if s.stage_times and sp.simplify(s.stage_times[0] - S.TAU) != 0:
            ctx.violation(rid, s.f, s.call_nodes[0], "stage 1 is not evaluated at the current step counter t0 + i",
                          {"time": str(s.stage_times[0])}, label="stage-1 time")
        elif s.stage_times:
            ctx.ok(rid, s.f, s.call_nodes[0], "stage 1 is evaluated at step counter t0 + i and at the current state",
                   {"time": str(s.stage_times[0])}, label="stage-1 time")
        if s.stage_states and sp.simplify(s.stage_states[0] - S.Y) != 0:
            ctx.violation(rid, s.f, s.call_nodes[0], "stage 1 is not evaluated at the current state", label="stage-1 state")


def r1_borrowed_buffer(ctx, rid):
    insts = S.solver_instances(ctx)
    analysed = {s.orig for s in insts}
    # every function of a backend class that calls its callable parameter `func` twice on one path must be an analysed solver
    n_callers = 0
    for cls in S.backend_classes(ctx):
        for f in cls.methods.values():
            fs = [f] + list(f.nested.values())
            for g in fs:
                if "func" not in f.params:
                    continue
                calls = [n for n in walk_shallow(g.node) if isinstance(n, ast.Call) and isinstance(n.func, ast.Name) and n.func.id == "func"]
                if calls:
                    n_callers += 1
                if len(calls) >= 2 and f not in analysed:
                    raise AnalysisError(f"{rid}: {g.qual} calls `func` {len(calls)} times but is not a recognised solver form")
    ctx.notes.append(f"{rid}: {n_callers} functions call their callable parameter `func`")
    for s in insts:
        facts = {"borrowing_backend": s.borrowing, "calls_per_step": s.n_calls, "stale_reads": s.stale_reads,
                 "step_with_aliasing": str(s.update_true), "step_without": str(s.update_naive)}
        if not s.borrowing:
            ctx.ok(rid, s.f, s.update_stmt, "functional backend: every call returns a fresh array (not armed)", facts, nontrivial=False)
            continue
        if sp.simplify(s.update_true - s.update_naive) == 0:
            ctx.ok(rid, s.f, s.update_stmt, "no reference to a borrowed result is read after a later call", facts)
        else:
            ctx.violation(rid, s.f, s.update_stmt,
                          f"`{s.stale_reads[0]['name'] if s.stale_reads else '?'}` is a bare reference to the buffer returned by the first "
                          f"func(...) call and is read after the second call overwrote it: the step computes {s.update_true} instead of "
                          f"{s.update_naive}", facts)


def r2_sample_then_step(ctx, rid):
    for s in S.solver_instances(ctx):
        st = s.store
        node = st.get("node") or s.f.node
        facts = {k: v for k, v in st.items() if k != "node"}
        bad = S.cadence_defects(s, rid)
        if bad:
            ctx.violation(rid, s.f, node, f"sample-then-step cadence broken ({', '.join(bad)}): row 0 must be the initial state and row k the "
                                          f"state after k*stride updates", facts)
        else:
            ctx.ok(rid, s.f, node, "record store precedes the update, counter-modulo-stride guarded, cursor advances once per store", facts)


def r3_rows_and_time_axis(ctx, rid):
    exprs = []
    for s in S.solver_instances(ctx):
        if s.rows_expr is None:
            raise AnalysisError(f"{rid}: cannot find the row-count expression of {s.f.qual}")
        exprs.append((s.f, s.rows_node, s.rows_expr))
    run = ctx.repo.get_func(S.BASE_REL, "BaseBackend.run")
    lin = [n for n in walk_shallow(run.node) if isinstance(n, ast.Call) and call_name(n) == "linspace"]
    if len(lin) != 1:
        raise AnalysisError(f"{rid}: BaseBackend.run no longer builds its time axis with one linspace call")
    lin = lin[0]
    kw = {k.arg: k.value for k in lin.keywords}
    num = kw.get("num") or (lin.args[2] if len(lin.args) > 2 else None)
    if num is None or len(lin.args) < 2:
        raise AnalysisError(f"{rid}: unrecognised linspace form {ast.unparse(lin)}")
    # the axis uses dts when given, dt otherwise: `dts if dts else dt` (any spelling) stands for the sampling step dts
    num_n = normalise(ctx, run, num)

    def sampling_step(e):
        if isinstance(e, ast.IfExp):
            t, a, b = e.test, e.body, e.orelse
            if isinstance(t, ast.UnaryOp) and isinstance(t.op, ast.Not):
                t, a, b = t.operand, b, a
            if isinstance(t, ast.Compare) and len(t.ops) == 1 and isinstance(t.comparators[0], ast.Constant) and t.comparators[0].value is None:
                if isinstance(t.ops[0], ast.IsNot):
                    t = t.left
                elif isinstance(t.ops[0], ast.Is):
                    t, a, b = t.left, b, a
            return all(isinstance(x, ast.Name) for x in (t, a, b)) and (t.id, a.id, b.id) == ("dts", "dts", "dt")
        if isinstance(e, ast.BoolOp) and isinstance(e.op, ast.Or) and len(e.values) == 2:
            return [getattr(v, "id", None) for v in e.values] == ["dts", "dt"]
        return False

    class _R(ast.NodeTransformer):
        def visit_IfExp(self, n):
            return ast.Name(id="dts", ctx=ast.Load()) if sampling_step(n) else self.generic_visit(n)

        def visit_BoolOp(self, n):
            return ast.Name(id="dts", ctx=ast.Load()) if sampling_step(n) else self.generic_visit(n)
    num_nf = S.rows_normal_form(_R().visit(num_n), {})
    start_ok = isinstance(lin.args[0], ast.Constant) and float(lin.args[0].value) == 0.0
    stop_ok = isinstance(lin.args[1], ast.Name) and lin.args[1].id == "T"
    endpoint = kw.get("endpoint")
    endpoint_ok = isinstance(endpoint, ast.Constant) and endpoint.value is False
    facts = {"time_axis": ast.unparse(lin), "num": num_nf}
    if start_ok and stop_ok and endpoint_ok:
        ctx.ok(rid, run, lin, "time axis starts at 0, stops at T, excludes the end point (row k is time k*T/num)", facts, label="time axis form")
    else:
        ctx.violation(rid, run, lin, f"time axis is not linspace(0, T, num, endpoint=False) (start_ok={start_ok}, stop_ok={stop_ok}, "
                                     f"endpoint_false={endpoint_ok}): row k would not carry time k*sampling_step_size", facts, label="time axis form")
    exprs.append((run, lin, num_nf))
    ref = "round(T/dts)"
    for f, node, e in exprs:
        if e == ref:
            ctx.ok(rid, f, node, f"row count normalises to {ref}", {"expr": e}, label=f"rows {f.qualname}")
        else:
            ctx.violation(rid, f, node, f"row count `{e}` differs from {ref}: solver record and time axis would disagree in length "
                                        f"or the number of rows is not round(T/sampling_step_size)", {"expr": e}, label=f"rows {f.qualname}")
    # the result handed back by run() is (results-of-_solve, times) in that order, times passed to _solve unchanged
    ret = [n for n in walk_shallow(run.node) if isinstance(n, ast.Return)]
    good = False
    if len(ret) == 1:
        rv = normalise(ctx, run, ret[0].value)
        if isinstance(rv, ast.Tuple) and len(rv.elts) == 2:
            res, tm = rv.elts
            solve_call = isinstance(res, ast.Call) and call_name(res) == "_solve"
            same_axis = ast.dump(tm) == ast.dump(normalise(ctx, run, lin))
            tk = [k.value for k in res.keywords if k.arg == "times"] if solve_call else []
            axis_passed = bool(tk) and ast.dump(tk[0]) == ast.dump(tm)
            good = solve_call and same_axis and axis_passed
            if solve_call and not (same_axis and axis_passed):
                ctx.violation(rid, run, ret[0], "run does not return the time axis it handed to the solver (rows and times would not correspond)",
                              label="run returns (record, axis)")
                good = None
    if good:
        ctx.ok(rid, run, ret[0], "run returns (solver record, time axis)", nontrivial=False, label="run returns (record, axis)")
    elif good is False:
        raise AnalysisError(f"{rid}: unrecognised return of BaseBackend.run")


def r4_cutoff(ctx, rid):
    """Roles, found on CircuitTemplate.run with its private helpers spliced in and local aliases inlined:
    FRAME = the DataFrame(...) whose rows are returned; AXIS = its `index=`; cutoff may only appear as the lower bound of a row-label
    slice `FRAME.loc[cutoff:]`; AXIS must be the solver's 'time' entry (or the regular grid it was interpolated to)."""
    from engine.inline import inlined
    rel = "pyrates/frontend/template/circuit.py"
    f0 = ctx.repo.get_func(rel, "CircuitTemplate.run")
    if "cutoff" not in f0.params:
        raise AnalysisError(f"{rid}: parameter cutoff vanished")
    f = inlined(ctx, f0)
    uses = [n for n in walk_shallow(f.node) if isinstance(n, ast.Name) and n.id == "cutoff" and isinstance(n.ctx, ast.Load)]
    stores = [n for n in walk_shallow(f.node) if isinstance(n, ast.Name) and n.id == "cutoff" and isinstance(n.ctx, ast.Store)]
    if stores:
        ctx.violation(rid, f, stmt_of(ctx.cfg(f), stores[0]), "cutoff is re-bound before it is applied")
    if not uses:
        ctx.violation(rid, f, f.node, "cutoff is never applied: rows with time < cutoff are returned", label="cutoff unused")
    axes = []
    for u in uses:
        st = stmt_of(ctx.cfg(f), u)
        p = getattr(u, "_parent", None)
        good = False
        why = ""
        if isinstance(p, ast.Slice) and p.lower is u and p.upper is None:
            sub = getattr(p, "_parent", None)
            if isinstance(sub, ast.Tuple):
                first = sub.elts[0] is p
                sub = getattr(sub, "_parent", None)
            else:
                first = True
            if isinstance(sub, ast.Subscript) and isinstance(sub.value, ast.Attribute) and sub.value.attr == "loc" and first:
                frame = normalise(ctx, f, sub.value.value)
                if isinstance(frame, ast.Call) and call_name(frame) == "DataFrame":
                    idx = next((k.value for k in frame.keywords if k.arg == "index"), frame.args[1] if len(frame.args) > 1 else None)
                    if idx is None:
                        why = "the sliced DataFrame has no explicit index (row labels would be 0..n-1, not times)"
                    else:
                        good = True
                        axes.append((st, idx))
                else:
                    why = "the sliced object is not the DataFrame indexed by the time vector"
            else:
                why = "cutoff is not the row label slice of a .loc[...] access"
        else:
            why = "cutoff is used outside a `cutoff:` slice"
        if good:
            ctx.ok(rid, f0, st, "cutoff only selects rows by time label (>= cutoff) on the result frame", label="cutoff is a row-label lower bound")
        else:
            ctx.violation(rid, f0, st, f"cutoff misuse: {why}", label="cutoff is a row-label lower bound")
    # AXIS: every alternative is <solver outputs>.pop('time') / ['time'] or a regular grid linspace(0, simulation_time, n)
    def alternatives(e):
        if isinstance(e, ast.IfExp):
            return alternatives(e.body) + alternatives(e.orelse)
        return [e]
    for st, idx in axes:
        bad = []
        for alt in alternatives(idx):
            is_time_entry = (isinstance(alt, ast.Call) and call_name(alt) in ("pop", "get") and alt.args and isinstance(alt.args[0], ast.Constant)
                             and alt.args[0].value == "time") or \
                            (isinstance(alt, ast.Subscript) and isinstance(alt.slice, ast.Constant) and alt.slice.value == "time")
            if is_time_entry:
                src = alt.func.value if isinstance(alt, ast.Call) else alt.value
                if not (isinstance(src, ast.Call) and call_name(src) == "run" and isinstance(src.func, ast.Attribute)
                        and isinstance(src.func.value, ast.Attribute) and src.func.value.attr in ("_ir", "compute_graph")):
                    bad.append(f"'time' is read from `{ast.unparse(src)[:60]}`, not from the result of the compute graph's run()")
                continue
            if isinstance(alt, ast.Call) and call_name(alt) == "linspace" and len(alt.args) >= 2 \
                    and isinstance(alt.args[0], ast.Constant) and float(alt.args[0].value) == 0.0 and ast.unparse(alt.args[1]) == "simulation_time":
                continue
            bad.append(f"`{ast.unparse(alt)[:80]}` is neither the solver's 'time' entry nor the regular output grid")
        if bad:
            if any("neither" in b for b in bad) and not any(isinstance(a, ast.Call) and call_name(a) in ("pop", "get", "linspace") for a in alternatives(idx)):
                raise AnalysisError(f"{rid}: the index of the result frame has an unrecognised form: {ast.unparse(idx)[:120]}")
            ctx.violation(rid, f0, st, "the result frame is not indexed by the time axis of the simulation: " + "; ".join(bad), label="frame indexed by the time axis")
        else:
            ctx.ok(rid, f0, st, "the result frame is indexed by the solver's time axis (or the regular grid it was interpolated to)",
                   {"index": ast.unparse(idx)[:200]}, label="frame indexed by the time axis")
    if uses and not axes and not any(True for _ in ()):
        pass
    # ComputeGraph.run stores the backend's time axis under 'time'
    cgrun = ctx.repo.get_func("pyrates/backend/computegraph.py", "ComputeGraph.run")
    ok_time = False
    for n in walk_shallow(cgrun.node):
        if isinstance(n, ast.Assign) and len(n.targets) == 1 and isinstance(n.targets[0], ast.Subscript) \
                and isinstance(n.targets[0].slice, ast.Constant) and n.targets[0].slice.value == "time":
            v = normalise(ctx, cgrun, n.value)
            # the axis is the second element of the backend's run() result
            from_backend = isinstance(v, ast.Subscript) and isinstance(v.value, ast.Call) and call_name(v.value) == "run" \
                and isinstance(v.slice, ast.Constant) and v.slice.value == 1
            unpacked = isinstance(n.value, ast.Name) and _unpacked_from_run(cgrun, n.value.id) == 1
            if from_backend or unpacked:
                ok_time = True
                ctx.ok(rid, cgrun, n, "the solver's time axis is returned under key 'time' unchanged", nontrivial=False, label="time key")
            else:
                ctx.violation(rid, cgrun, n, f"ComputeGraph.run stores `{ast.unparse(n.value)[:60]}` under 'time', not the time axis returned by the backend",
                              label="time key")
                ok_time = True
    if not ok_time:
        ctx.violation(rid, cgrun, cgrun.node, "ComputeGraph.run no longer returns the backend's time axis under 'time'", label="time key")


def _unpacked_from_run(f, name):
    """Position of `name` in a tuple target unpacked from a `<backend>.run(...)` call in f, else None."""
    for st in walk_shallow(f.node):
        if isinstance(st, ast.Assign) and len(st.targets) == 1 and isinstance(st.targets[0], ast.Tuple) and isinstance(st.value, ast.Call) \
                and call_name(st.value) == "run":
            for i, e in enumerate(st.targets[0].elts):
                if isinstance(e, ast.Name) and e.id == name:
                    return i
    return None


def r5_history_fed_with_step_result(ctx, rid):
    """For delayed models the fixed-step iterates depend on what the solver files in the delay history: ((i+1)*dt, updated state)
    after every step (same rule as C10-R4)."""
    from .c10 import r4_history_time_units
    r4_history_time_units(ctx, rid)


def r7_run_starts_from_the_declared_state(ctx, rid):
    """`run` returns the iterates started at the DECLARED initial state: row 0 is what the template declares (or what the caller
    passes explicitly).  The template also keeps the END state of every simulation (`_state_var_values`, filled after the solver
    returns) so that get_run_func can continue from it; run() itself must not read that record on the way to the solver - a second
    run() of the same template would start where the first one stopped."""
    from engine.inline import inlined
    f0 = ctx.repo.get_func("pyrates/frontend/template/circuit.py", "CircuitTemplate.run")
    f = inlined(ctx, f0)
    selfn = f0.self_name
    # the end-state record: the self attribute that is filled from the compiled network's variables after the solver call
    stores = [st for st in walk_shallow(f.node) if isinstance(st, ast.Assign) and len(st.targets) == 1 and isinstance(st.targets[0], ast.Subscript)
              and isinstance(st.targets[0].value, ast.Attribute) and isinstance(st.targets[0].value.value, ast.Name)
              and st.targets[0].value.value.id == selfn and any(isinstance(c, ast.Call) and call_name(c) == "get_var" for c in ast.walk(st.value))]
    if not stores:
        raise AnalysisError(f"{rid}: run() no longer records the end state of the simulation on the template (anchor vanished)")
    rec = stores[0].targets[0].value.attr
    reads = [n for n in walk_shallow(f.node) if isinstance(n, ast.Attribute) and n.attr == rec and isinstance(n.value, ast.Name) and n.value.id == selfn
             and isinstance(n.ctx, ast.Load) and not any(n is st.targets[0].value for st in stores)]
    # reads that only serve the store itself (`self._rec[key] = ...`) are the targets above; `.clear()` is a reset, not a read
    from engine.srcmodel import parent as _parent
    reads = [n for n in reads if not (isinstance(_parent(n), ast.Attribute) and _parent(n).attr == "clear")]
    if reads:
        n = reads[0]
        ctx.violation(rid, f0, n, f"run() reads `self.{rec}` - the end state of the PREVIOUS simulation - before it integrates: a second run() of the "
                                  f"same template (in_place=False, clear=False, or after get_run_func) starts from where the first one stopped, so "
                                  f"row 0 is not the declared initial state", label="run() starts from the declared initial state")
    else:
        ctx.ok(rid, f0, stores[0], f"run() only writes the end-state record `self.{rec}`, it never starts from it",
               label="run() starts from the declared initial state")


def r6_history_lookup(ctx, rid):
    """For a delayed model the iterates are those of the compiled vector field only if the history object the fixed-step solvers
    feed (R5) answers every delayed read - several delays, any order of reads within a step - from the two records around the query
    time: the clamp/interpolation rule of C19-R5 on DDEHistory.__call__, reused here."""
    from .c19 import r5_query, r1_records_are_copies, r4_growth_keeps_records
    r5_query(ctx, rid)
    r1_records_are_copies(ctx, rid)
    r4_growth_keeps_records(ctx, rid)


def r8_input_samples_keep_their_time(ctx, rid):
    """"Time-dependent terms included": all solvers converge to one trajectory only if sample k of an extrinsic input array stands for
    the same time under every solver.  The fixed-step solvers index the array by step number, the adaptive ones interpolate it over
    [0, T] by its LENGTH - so between run(inputs=...) and create_input_node the array may change its number of samples only where the
    step-indexed reading applies.  The decision is C08-R3's (time grid and forwarding of the array), reused here."""
    from .c08 import r3_time_grid
    r3_time_grid(ctx, rid)


RULES = [
    ("C03-R0", r0_step_formula, 5),
    ("C03-R1", r1_borrowed_buffer, 5),
    ("C03-R2", r2_sample_then_step, 5),
    ("C03-R3", r3_rows_and_time_axis, 7),
    ("C03-R4", r4_cutoff, 2),
    ("C03-R5", r5_history_fed_with_step_result, 6),
    ("C03-R6", r6_history_lookup, 3),
    ("C03-R7", r7_run_starts_from_the_declared_state, 1),
    ("C03-R8", r8_input_samples_keep_their_time, 13),
]
