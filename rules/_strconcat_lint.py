"""Lint shared by the rules that read constant string tables (reserved names / name parts, SUPPORTED_SOLVERS, backend tuples):
no element of such a table may be an *implicit concatenation* of adjacent string literals.

    names = ['source_idx', 'target_idx'      # <- lost comma
             'pi', 'E']

parses, but `ast` has already folded `'target_idx' 'pi'` into ONE Constant 'target_idxpi': neither `target_idx` nor `pi` is in
the table any more.  The folded Constant still knows its extent in the source; if that extent holds more than one string token,
the element was written as several literals.  Message strings (arguments of exceptions, f-strings) are not table elements and
are never looked at.

    implicit_concats(source, collection_node) -> [(element Constant, [literal tokens])]
    self_check()                                -> raises AnalysisError if the detector does not see a synthetic positive control
"""
from __future__ import annotations

import ast
import io
import tokenize
from typing import List, Tuple

from engine import AnalysisError


def string_tokens(source: str, node: ast.AST) -> List[str]:
    """The string-literal tokens that make up the source text of `node` (a Constant)."""
    seg = ast.get_source_segment(source, node)
    if seg is None:
        return []
    toks = []
    try:
        for t in tokenize.generate_tokens(io.StringIO("(" + seg + "\n)").readline):
            if t.type == tokenize.STRING or tokenize.tok_name.get(t.type) == "FSTRING_START":
                toks.append(t.string)
    except (tokenize.TokenError, IndentationError, SyntaxError):
        return []
    return toks


def is_string_table(node: ast.AST) -> bool:
    return isinstance(node, (ast.List, ast.Tuple, ast.Set)) and bool(node.elts) \
        and all(isinstance(e, ast.Constant) and isinstance(e.value, str) for e in node.elts)


def implicit_concats(source: str, collection: ast.AST) -> List[Tuple[ast.Constant, List[str]]]:
    """Elements of the constant string collection `collection` (List/Tuple/Set display, possibly `a + b` of such displays) that
    were written as two or more adjacent string literals."""
    out = []
    if isinstance(collection, ast.BinOp) and isinstance(collection.op, ast.Add):
        return implicit_concats(source, collection.left) + implicit_concats(source, collection.right)
    if not isinstance(collection, (ast.List, ast.Tuple, ast.Set)):
        return out
    for e in collection.elts:
        if isinstance(e, ast.Constant) and isinstance(e.value, str) and hasattr(e, "end_col_offset"):
            toks = string_tokens(source, e)
            if len(toks) > 1:
                out.append((e, toks))
    return out


_CONTROL = "table = ['a', 'b'\n         # comment\n         'c', 'd']\nmsg = ('x ' 'y')\n"


def self_check(rid: str = "lint") -> None:
    tree = ast.parse(_CONTROL)
    hits = implicit_concats(_CONTROL, tree.body[0].value)
    if [e.value for e, _ in hits] != ["bc"] or implicit_concats(_CONTROL, tree.body[1].value):
        raise AnalysisError(f"{rid}: positive control failed: the implicit-concatenation detector does not see `'b' 'c'` in a table")
