"""C04 — vectorization does not change the model (DESIGN §4 C04)."""
from __future__ import annotations

import ast
import itertools
import re

from engine import AnalysisError
from engine.srcmodel import walk_shallow, norm, parent
from engine.util import (call_name, contains, enumerate_paths, fstring_holes, fstring_template, get_method, is_attr_of,
                         single_def_value, in_body, inline_locals, inline_helper_call, normalise)
from engine.cfg import stmt_of
from engine.dataflow import assigned_value
from engine.inline import inlined
from . import c16 as _c16
from . import _roles_util as _R

PROPERTY = "C04"
IR = "pyrates/ir/circuit.py"
FE = "pyrates/frontend/template/circuit.py"
OG = "pyrates/ir/operator_graph.py"
ND = "pyrates/ir/node.py"

EXPLANATION = (
    "Equivalence of the vectorized and the node-by-node compilation path is not decidable statically.  Decided: the index bookkeeping "
    "only the vectorized path has.  R1 CircuitIR._finalize_var_def: every store that replaces a variable's value/shape by its first "
    "element is reached only under the path condition (computed from the dominating guards, as clauses) 'one distinct value' and "
    "'constant or not vectorized' and 'dtype float' and 'no shape or size <= 1'.  R2 VectorizedOperatorGraph.append_values: the old "
    "extent is read before the shape is recomputed, the shape is recomputed after the value list grew, the recorded pair is "
    "(old extent, new extent) of the variable named by the key it is stored under; VectorizedNodeIR.extend returns that result and "
    "advances its length once; cache_func returns the ranges of the extension on a cache hit and (0, length) on a miss.  "
    "R3 CircuitTemplate._group_edges: on the merging path source_idx, target_idx and every edge attribute list are extended exactly "
    "once per merged edge and in lock-step (attributes replicated len(source indices) times), on the creating path each is initialised "
    "once, the index lists are fresh copies (not aliases of _vectorization_indices) and are stored after the attribute replication; "
    "merge test and registration use the same key.  R4 the index ranges stored under '<node>/<op>/<var>' in _vectorization_indices "
    "(_apply_nodes, _apply_populations_and_connections) are range(start, stop) of the (start, stop) entries returned by the apply call "
    "of the same loop iteration, for the node named in the key.  R5 = C16-R1 (index roles: rows are targets, columns are sources).  "
    "R9 CircuitTemplate.apply: the slot indices an edge group hands over as source_idx/target_idx for the vectorized edge IR it obtained "
    "through the (shared, length-accumulating) node cache are [IR.length - n, IR.length), read after the group's own n extensions - "
    "not a range that starts at 0 or ignores IR.length.  "
    "R10 NetworkGraph._generate_edge_equation / _add_edge_buffer / _add_matrix_delay: every variable record registered under a key that "
    "varies with an enclosing loop owns its 'value' object (an immutable scalar, created inside that loop, or the loop's own element) - "
    "never one mutable allocation made outside the loop and stored under several names (reaching definitions on the inlined views).  "
    "R11 NetworkGraph._add_edge_buffer: when delayed projections are merged into shared buffer slots (first-occurrence registry), the slot "
    "key draws on every per-projection sequence that is then reduced to one entry per slot (source element, delay, spread).  "
    "R12 the edge-equation generator and its helpers never accumulate edge weights by `M[index arrays] += w` (buffered in numpy: parallel "
    "edges of one (target, source) pair would lose all but one weight); per-edge loops and np.add.at are fine (synthetic controls).  "
    "NOT decided: the choice of the sparseness threshold, equality of trajectories, user edge dictionaries that already contain "
    "source_idx/target_idx."
)
RULE_TEXT = ("one obligation per (rule, construct): guards as path conditions in clause form (R1), ordering by dominance and "
             "reachability inside the loop body (R2), exhaustive path enumeration with loops unrolled once (R3), reaching definitions "
             "and call-graph resolution of the apply chain (R4), role typing (R5).  Non-trivial = needed one of these arguments.  "
             "Constructs are found by role, not by spelling: R1 reads guards after inlining single-definition locals and one-expression "
             "private helpers; R2 follows local aliases of the value list, chained assignments, `x = x + 1`, growth inside a private helper "
             "and ranges filled by a loop or a comprehension; R3 takes the two branches of the membership test as control-flow regions "
             "(if/else, `not in` + continue, key held in a local, tuple assignment of the index lists, `+=`); R4 accepts any operator "
             "part computed from the entry's operator inside the ranges loop; R6 classifies every `return <var>` by its path condition "
             "and accepts an identity proof in the guard, in a flag loop or in a private helper.")
ASSUMPTIONS = [
    "numpy: np.unique, np.shape, np.prod have their documented meaning; list.extend/append grow a list in place.",
    "Edge dictionaries handed to _group_edges do not themselves contain the keys source_idx (beyond the popped one) / target_idx.",
]


# ------------------------------------------------------------------------------------------------
# R1  collapse only single-valued float constants
# ------------------------------------------------------------------------------------------------

def _cross(cl_lists):
    """CNF of a disjunction of CNFs."""
    out = []
    for combo in itertools.product(*cl_lists):
        c = frozenset().union(*combo)
        out.append(c)
    return out


def _cmp_multi(op, c):
    """`X op c` means 'more than one' (True) / 'at most one' (False) / None."""
    if not isinstance(c, ast.Constant) or not isinstance(c.value, (int, float)):
        return None
    v = c.value
    table = {(ast.Gt, 1): True, (ast.GtE, 2): True, (ast.NotEq, 1): True, (ast.Eq, 1): False, (ast.LtE, 1): False, (ast.Lt, 2): False}
    return table.get((type(op), v))


_FLIP = {ast.Gt: ast.Lt, ast.Lt: ast.Gt, ast.GtE: ast.LtE, ast.LtE: ast.GtE, ast.Eq: ast.Eq, ast.NotEq: ast.NotEq}


def _atom(e, v, allowed=None):
    """(name, polarity): e is true  <=>  name == polarity.  A bare name is an atom only when it is `v` or one of the `allowed` names
    (the function's parameters); a computed local that could not be inlined is unknown."""
    def is_v(x, key):
        return isinstance(x, ast.Subscript) and isinstance(x.value, ast.Name) and x.value.id == v \
            and isinstance(x.slice, ast.Constant) and x.slice.value == key
    if isinstance(e, ast.Name):
        if allowed is not None and e.id != v and e.id not in allowed:
            return None
        return ("nonempty" if e.id == v else e.id, True)
    if isinstance(e, ast.Compare) and len(e.ops) == 1:
        l, op, r = e.left, e.ops[0], e.comparators[0]
        if isinstance(l, ast.Constant) and not isinstance(r, ast.Constant) and type(op) in _FLIP:
            l, r, op = r, l, _FLIP[type(op)]()
        if isinstance(op, (ast.In, ast.NotIn)) and isinstance(l, ast.Constant) and l.value == "shape" and isinstance(r, ast.Name) and r.id == v:
            return ("has_shape", isinstance(op, ast.In))
        for key, lit in (("vtype", "constant"), ("dtype", "float")):
            if is_v(l, key) and isinstance(r, ast.Constant) and r.value == lit and isinstance(op, (ast.Eq, ast.NotEq)):
                return (f"{key}_{lit}", isinstance(op, ast.Eq))
        # extents
        x = l
        name = None
        if isinstance(x, ast.Attribute) and x.attr == "size":
            inner = x.value
            if isinstance(inner, ast.Call) and call_name(inner) == "unique" and inner.args and is_v(inner.args[0], "value"):
                name = "value_multi"
        if isinstance(x, ast.Call) and call_name(x) == "len" and len(x.args) == 1:
            a = x.args[0]
            if isinstance(a, ast.Call) and call_name(a) in ("unique", "set") and a.args and is_v(a.args[0], "value"):
                name = "value_multi"
            elif is_v(a, "shape"):
                name = "ndim_multi"
        if isinstance(x, ast.Call) and call_name(x) in ("prod", "sum") and x.args and is_v(x.args[0], "shape"):
            name = "size_multi"
        if name is not None:
            m = _cmp_multi(op, r)
            if m is not None:
                return (name, m)
    return None


def _cnf(e, val, v, allowed=None):
    if isinstance(e, ast.UnaryOp) and isinstance(e.op, ast.Not):
        return _cnf(e.operand, not val, v, allowed)
    if isinstance(e, ast.BoolOp):
        conj = isinstance(e.op, ast.And) == val          # And/True and Or/False are conjunctions of the parts
        parts = [_cnf(x, val, v, allowed) for x in e.values]
        if conj:
            return [c for p in parts for c in p]
        return _cross(parts)
    if isinstance(e, ast.Constant) and isinstance(e.value, bool):
        return [] if e.value == val else [frozenset()]
    if isinstance(e, ast.IfExp):
        # a guard-return predicate spliced in as `False if t1 else False if t2 else <last test>`
        T, A, B = e.test, e.body, e.orelse
        for const, other, t_pol in ((A, B, True), (B, A, False)):
            if isinstance(const, ast.Constant) and isinstance(const.value, bool):
                if const.value == val:          # holds when the test selects the constant arm, or the other arm holds
                    return _cross([_cnf(T, t_pol, v, allowed), _cnf(other, val, v, allowed)])
                return _cnf(T, not t_pol, v, allowed) + _cnf(other, val, v, allowed)
        return _cross([_cnf(T, False, v, allowed), _cnf(A, val, v, allowed)]) + _cross([_cnf(T, True, v, allowed), _cnf(B, val, v, allowed)])
    a = _atom(e, v, allowed)
    if a is None:
        return [frozenset({("?" + ast.unparse(e), val)})]
    return [frozenset({(a[0], a[1] == val)})]


R1_REQUIREMENTS = [
    # (id, key literal, literals allowed beside it, text)
    ("unique", ("value_multi", False), set(), "the value has exactly one distinct element"),
    ("vtype", ("vtype_constant", True), {("vectorized", False)}, "the variable is a constant (or the network is not vectorized)"),
    ("dtype", ("dtype_float", True), set(), "the dtype is float (index arrays keep their length)"),
    ("size", ("size_multi", False), {("has_shape", False)}, "the declared shape has at most one element"),
]


def r1_collapse_guard(ctx, rid):
    cls = ctx.repo.get_class(IR, "CircuitIR")
    f = get_method(ctx, cls, "_finalize_var_def")
    params = [p for p in f.params if p != f.self_name]
    ctx.require(params, f"{rid}: _finalize_var_def has no parameters")
    v = params[0]
    f_orig = f
    f = inlined(ctx, f_orig)             # predicate helpers holding the guard chain are spliced in; obligations name the original
    cfg = ctx.cfg(f)
    stores = []
    for s in cfg.stmts():
        if isinstance(s, (ast.Assign, ast.AugAssign)):
            tg = s.targets if isinstance(s, ast.Assign) else [s.target]
            for t in tg:
                if isinstance(t, ast.Subscript) and isinstance(t.value, ast.Name) and t.value.id == v and isinstance(t.slice, ast.Constant) \
                        and t.slice.value in ("value", "shape"):
                    stores.append((s, t.slice.value))
        if isinstance(s, ast.Expr) and isinstance(s.value, ast.Call) and call_name(s.value) in ("update", "pop", "clear", "setdefault") \
                and isinstance(s.value.func, ast.Attribute) and isinstance(s.value.func.value, ast.Name) and s.value.func.value.id == v:
            raise AnalysisError(f"{rid}: `{norm(s)}` modifies the variable definition in an unrecognised way")
    collapse = [s for s, k in stores if k == "value"]
    ctx.require(collapse, f"{rid}: no store to {v}['value'] found in _finalize_var_def (anchor vanished)")
    for s in collapse:
        val = _inline(ctx, f, s.value) if isinstance(s, ast.Assign) else None
        if not (isinstance(val, ast.Subscript) and isinstance(val.value, ast.Subscript) and isinstance(val.value.value, ast.Name)
                and val.value.value.id == v and isinstance(val.value.slice, ast.Constant) and val.value.slice.value == "value"):
            raise AnalysisError(f"{rid}: `{norm(s)}` is not the recognised collapse `{v}['value'] = {v}['value'][k]`")
    for s, key in stores:
        clauses = []
        guards = []
        for g in cfg.dominators(s):
            if not isinstance(g, ast.If) or g is s:
                continue
            t_reach = any(x is s or cfg.reachable(x, s) for x in cfg.successors(g, "true"))
            f_reach = any(x is s or cfg.reachable(x, s) for x in cfg.successors(g, "false"))
            if t_reach == f_reach:
                continue
            guards.append(norm(g))
            # the test as a function of the parameters: single-definition locals and one-expression private helpers inlined
            clauses += _cnf(normalise(ctx, f, g.test), t_reach, v, set(f.params))
        unknown = [l for c in clauses for l in c if l[0].startswith("?")]
        facts = {"path_condition": [sorted(f"{'' if pol else 'not '}{nm}" for nm, pol in c) for c in clauses], "guards": guards}
        for req, keylit, beside, text in R1_REQUIREMENTS:
            label = f"{req}: {norm(s)}"
            good = [c for c in clauses if keylit in c and c <= ({keylit} | beside)]
            if good:
                ctx.ok(rid, f_orig, s, f"the collapse `{norm(s)}` is reached only when {text}", facts, label=label)
                continue
            if unknown:
                raise AnalysisError(f"{rid}: cannot decide guard `{req}` of `{norm(s)}`: unrecognised test(s) {[u[0][1:] for u in unknown]}")
            inverted = [c for c in clauses if (keylit[0], not keylit[1]) in c]
            why = (f"the dominating test is inverted (the store is reached when NOT: {text})" if inverted else
                   f"no dominating guard establishes that {text}")
            ctx.violation(rid, f_orig, s, f"`{norm(s)}` replaces a vector by its first element although {why}: with vectorize=True the per-node values "
                                     f"of a merged variable would collapse to the first node's value", facts, label=label)


# ------------------------------------------------------------------------------------------------
# R2  appended range = (length before, length after)
# ------------------------------------------------------------------------------------------------

def _inline(ctx, f, e, depth=0):
    if isinstance(e, ast.Name) and depth < 5:
        v = single_def_value(ctx, f, e)
        if v is not None:
            return _inline(ctx, f, v, depth + 1)
    return e


def _def_stmt(ctx, f, e):
    """statement at which the value of Name e was computed (single definition), else the statement containing e"""
    if isinstance(e, ast.Name):
        defs = ctx.rd(f).defs_reaching(e)
        if len(defs) == 1 and isinstance(defs[0], ast.Assign) and assigned_value(defs[0], e.id) is not None:
            return defs[0]
    return None


def _is_var_item(ctx, f, x, var, key, depth=0):
    """x denotes var[key]: the subscript itself, or a local bound to it by its single reaching definition (`values = var['value']`;
    for the mutable value list an alias is the same object)."""
    if isinstance(x, ast.Subscript) and isinstance(x.value, ast.Name) and x.value.id == var and isinstance(x.slice, ast.Constant) \
            and x.slice.value == key:
        return True
    if isinstance(x, ast.Name) and depth < 3 and getattr(x, "_parent", None) is not None:
        v = single_def_value(ctx, f, x)
        return v is not None and _is_var_item(ctx, f, v, var, key, depth + 1)
    return False


def _extent_source(e, var, ctx=None, f=None):
    """classify an extent expression of dict `var`: 'shape' for var['shape'][0], 'value' for len(var['value']) / shape(var['value'])[0]"""
    def is_var(x, key):
        if ctx is not None and key == "value":
            return _is_var_item(ctx, f, x, var, key)
        return isinstance(x, ast.Subscript) and isinstance(x.value, ast.Name) and x.value.id == var \
            and isinstance(x.slice, ast.Constant) and x.slice.value == key
    if isinstance(e, ast.Subscript) and isinstance(e.slice, ast.Constant) and e.slice.value == 0:
        b = e.value
        if is_var(b, "shape"):
            return "shape"
        if isinstance(b, ast.Call) and call_name(b) == "shape" and b.args and is_var(b.args[0], "value"):
            return "value"
    if isinstance(e, ast.Call) and call_name(e) == "len" and e.args and is_var(e.args[0], "value"):
        return "value"
    return None


def r2_append_ranges(ctx, rid):
    cls = ctx.repo.get_class(OG, "VectorizedOperatorGraph")
    f = inlined(ctx, get_method(ctx, cls, "append_values"))     # per-variable helpers spliced in (same qualname, same construct keys)
    cfg = ctx.cfg(f)
    rets = [s for s in cfg.stmts() if isinstance(s, ast.Return)]
    ctx.require(len(rets) == 1 and isinstance(rets[0].value, ast.Name), f"{rid}: append_values no longer returns one named dictionary")
    rname = rets[0].value.id
    recs = [s for s in cfg.stmts() if isinstance(s, ast.Assign) and len(s.targets) == 1 and isinstance(s.targets[0], ast.Subscript)
            and isinstance(s.targets[0].value, ast.Name) and s.targets[0].value.id == rname]
    ctx.require(len(recs) == 1, f"{rid}: expected one store into the returned range dictionary, found {len(recs)}")
    rec = recs[0]
    if not (isinstance(rec.value, ast.Tuple) and len(rec.value.elts) == 2):
        raise AnalysisError(f"{rid}: recorded range `{norm(rec.value)}` is not a pair")
    loops = [a for a in _anc(rec) if isinstance(a, ast.For)]
    ctx.require(len(loops) == 2, f"{rid}: the range store is not inside the operator/variable double loop")
    inner, outer = loops[0], loops[1]
    # which dict is `var`?
    a_expr, b_expr = rec.value.elts
    ia, ib = _inline_keep(ctx, f, a_expr), _inline_keep(ctx, f, b_expr)
    varname = None
    for e in (ia[0], ib[0]):
        for n in ast.walk(e):
            if isinstance(n, ast.Name) and getattr(n, "_parent", None) is not None:
                n = single_def_value(ctx, f, n) or n            # values = var['value']
            if isinstance(n, ast.Subscript) and isinstance(n.value, ast.Name) and isinstance(n.slice, ast.Constant) and n.slice.value in ("shape", "value"):
                varname = varname or n.value.id
    if varname is None:
        if isinstance(ia[0], ast.Constant) or isinstance(ib[0], ast.Constant):
            ctx.violation(rid, f, rec, f"the recorded range `{norm(rec.value)}` is constant, not (extent before, extent after) of the extended variable")
            return
        raise AnalysisError(f"{rid}: cannot find the variable dictionary in `{norm(rec)}`")
    shape_stores = [s for s in cfg.stmts() if isinstance(s, ast.Assign) and any(
        isinstance(t, ast.Subscript) and isinstance(t.value, ast.Name) and t.value.id == varname and isinstance(t.slice, ast.Constant)
        and t.slice.value == "shape" for t in s.targets)]
    ctx.require(len(shape_stores) == 1, f"{rid}: expected one store of {varname}['shape'] in append_values, found {len(shape_stores)}")
    sst = shape_stores[0]

    def is_value_list(r):
        return _is_var_item(ctx, f, r, varname, "value")

    def is_grow(n):
        """statement n grows the value list of the variable: .append/.extend/.insert on it (or on a local alias of it), `+=`, or a call
        of a private helper that does so with the list it is handed"""
        if isinstance(n, ast.AugAssign) and isinstance(n.op, ast.Add) and is_value_list(n.target):
            return True
        if not isinstance(n, ast.Expr):
            return False
        for c in ast.walk(n):
            if not isinstance(c, ast.Call):
                continue
            if call_name(c) in ("append", "extend", "insert") and isinstance(c.func, ast.Attribute) and is_value_list(c.func.value):
                return True
            if any(is_value_list(a) for a in c.args) or any(is_value_list(k.value) for k in c.keywords):
                g = _R.private_helper(ctx, f, c)
                binding = _R.bind_args(c, g) if g is not None else None
                if binding:
                    handed = {p for p, a in binding.items() if is_value_list(a)}
                    for cc in walk_shallow(g.node):
                        if isinstance(cc, ast.Call) and call_name(cc) in ("append", "extend", "insert") and isinstance(cc.func, ast.Attribute) \
                                and isinstance(cc.func.value, ast.Name) and cc.func.value.id in handed:
                            return True
        return False
    grows = [s for s in cfg.stmts() if is_grow(s)]
    ctx.require(grows, f"{rid}: no growth of {varname}['value'] found in append_values")
    facts = {"record": norm(rec), "shape_store": norm(sst), "growth": [norm(g) for g in grows]}

    # (1) the shape is recomputed from the grown value list, after the growth on every path
    # the stored value may be held in a local first (new_shape = shape(var['value']); var['shape'] = new_shape): it is then the value
    # list as it was where that local was bound
    sval, s_at = _inline_keep(ctx, f, sst.value) if isinstance(sst.value, ast.Name) else (sst.value, sst)
    recomputed = isinstance(sval, ast.Call) and call_name(sval) == "shape" and sval.args and \
        _extent_source(ast.Subscript(value=sval, slice=ast.Constant(value=0), ctx=ast.Load()), varname, ctx, f) == "value"
    if not recomputed and not (isinstance(sval, ast.Tuple) and len(sval.elts) >= 1 and _extent_source(sval.elts[0], varname, ctx, f) == "value"):
        raise AnalysisError(f"{rid}: `{norm(sst)}` does not recompute the shape from {varname}['value'] (unrecognised form)")
    first_in_body = inner.body[0]
    skip = cfg.reachable_avoiding(inner, s_at, lambda n: is_grow(n))
    if skip is not None and len(skip) > 1:
        ctx.violation(rid, f, sst, f"the shape is recomputed on a path that did not grow {varname}['value'] first ({cfg.path_str(skip)}): the new "
                                   f"extent would equal the old one and the appended node would get an empty index range", facts, label="shape recomputed after growth")
    else:
        ctx.ok(rid, f, sst, "the shape is recomputed from the value list after it grew, on every path", facts, label="shape recomputed after growth")

    # (2) old extent
    def position(expr_pair, which):
        e, at = expr_pair
        src = _extent_source(e, varname, ctx, f)
        if src is None:
            return None, None, at
        if src == "shape":
            before = at is not sst and cfg.dominates(at, sst) and at is not rec or (at is not sst and at is not rec and cfg.dominates(at, sst))
            after = cfg.dominates(sst, at) and at is not sst
            return src, ("old" if before else "new" if after else "?"), at
        # from the value list: old iff before every growth
        before = all(cfg.dominates(at, g) and at is not g for g in grows)
        after = cfg.reachable_avoiding(inner, at, lambda n: is_grow(n)) is None
        return src, ("old" if before else "new" if after else "?"), at
    sa = position(ia, "a")
    sb = position(ib, "b")
    for nm, (src, when, at), want, e in (("first", sa, "old", a_expr), ("second", sb, "new", b_expr)):
        label = f"{nm} component of the range"
        if src is None:
            inl = ia[0] if nm == "first" else ib[0]
            if isinstance(inl, ast.Constant):
                ctx.violation(rid, f, rec, f"the {nm} component `{norm(e)}` of the recorded range is the constant {inl.value!r}, not the {want} extent of "
                                           f"{varname}: indices of earlier nodes would be attributed to the appended node", facts, label=label)
                continue
            raise AnalysisError(f"{rid}: the {nm} component `{norm(e)}` of the recorded range is not a recognised extent of {varname}")
        if when == want:
            ctx.ok(rid, f, rec, f"the {nm} component `{norm(e)}` is the extent of {varname} {'before' if want == 'old' else 'after'} the extension "
                                f"(read at `{norm(at)}`)", facts, label=label)
        elif when == "?":
            raise AnalysisError(f"{rid}: cannot order the read `{norm(at)}` relative to the extension")
        else:
            ctx.violation(rid, f, rec, f"the {nm} component `{norm(e)}` is read {'after' if when == 'new' else 'before'} the extension (at `{norm(at)}`) but must "
                                       f"be the {want} extent: the recorded index range of the appended node would be "
                                       f"{'empty (new, new)' if want == 'old' else 'the previous nodes (old, old)'}", facts, label=label)

    # (3) the key names the variable whose extents are recorded
    key = _inline(ctx, f, rec.targets[0].slice)
    vdefs = [s for s in cfg.stmts() if isinstance(s, ast.Assign) and any(isinstance(t, ast.Name) and t.id == varname for t in s.targets)]
    vdef = vdefs[0] if len(vdefs) == 1 else None
    loop_sel = None
    if not vdefs:
        # the variable dict is the value a loop over `<variables>.items()` binds: for var_key, var in variables.items()
        for lp in loops:
            if isinstance(lp.target, ast.Tuple) and len(lp.target.elts) == 2 and isinstance(lp.target.elts[1], ast.Name) and lp.target.elts[1].id == varname \
                    and isinstance(lp.target.elts[0], ast.Name) and isinstance(lp.iter, ast.Call) and call_name(lp.iter) == "items" \
                    and isinstance(lp.iter.func, ast.Attribute):
                loop_sel = ast.Subscript(value=lp.iter.func.value, slice=lp.target.elts[0], ctx=ast.Load())
                vdef = lp
    if vdef is None:
        raise AnalysisError(f"{rid}: expected one definition of `{varname}` in append_values, found {len(vdefs)}")

    def loop_key(loop):
        """the name a loop binds to the dictionary key it iterates: `for k, v in d.items()`, `for k in d`, `for k in d.keys()`"""
        tg = loop.target
        if isinstance(tg, ast.Tuple) and tg.elts and isinstance(tg.elts[0], ast.Name) and isinstance(loop.iter, ast.Call) and call_name(loop.iter) == "items":
            return tg.elts[0].id
        if isinstance(tg, ast.Name):
            return tg.id
        return None
    op_loop_var, var_loop_var = loop_key(outer), loop_key(inner)
    sel = loop_sel if loop_sel is not None else _inline(ctx, f, vdef.value)      # <container>[var]  with  <container> = ...[op][...]
    if not (isinstance(sel, ast.Subscript) and isinstance(key, ast.Tuple) and len(key.elts) == 2 and all(isinstance(k, ast.Name) for k in key.elts)
            and op_loop_var and var_loop_var):
        raise AnalysisError(f"{rid}: cannot relate the key `{norm(key)}` to the selection `{norm(vdef)}` of the extended variable (unrecognised form)")
    vkey = sel.slice
    cont = _inline(ctx, f, sel.value)                    # re-computed in every pass of the operator loop
    onames = [n.slice.id for n in ast.walk(cont) if isinstance(n, ast.Subscript) and isinstance(n.slice, ast.Name)]
    if not (isinstance(vkey, ast.Name) and len(onames) == 1 and {vkey.id, onames[0]} == {op_loop_var, var_loop_var}):
        raise AnalysisError(f"{rid}: `{norm(vdef)}` does not select the variable by the operator/variable keys of the two loops (unrecognised form)")
    sel_pair = (onames[0], vkey.id)                      # (operator key, variable key) that select the variable
    if (key.elts[0].id, key.elts[1].id) == sel_pair and sel_pair == (op_loop_var, var_loop_var):
        ctx.ok(rid, f, rec, "the range is stored under the (operator, variable) key of the variable that was extended", label="range key")
    elif {key.elts[0].id, key.elts[1].id} <= {op_loop_var, var_loop_var} or sel_pair != (op_loop_var, var_loop_var):
        ctx.violation(rid, f, rec, f"the range is stored under `{norm(key)}`, which is not the (operator, variable) pair that selects `{varname}`: "
                                   f"index ranges would be attributed to another variable", label="range key")
    else:
        raise AnalysisError(f"{rid}: the key `{norm(key)}` is built from names other than the loop keys (unrecognised form)")

    # ---- VectorizedNodeIR.extend ---------------------------------------------------------------------------------------
    ncls = ctx.repo.get_class(ND, "VectorizedNodeIR")
    ext = inlined(ctx, get_method(ctx, ncls, "extend"))
    ecfg = ctx.cfg(ext)
    erets = [s for s in ecfg.stmts() if isinstance(s, ast.Return)]
    ctx.require(len(erets) == 1 and erets[0].value is not None, f"{rid}: VectorizedNodeIR.extend has no single return")
    rv = _inline(ctx, ext, erets[0].value)
    node_param = [p for p in ext.params if p != ext.self_name]
    ctx.require(node_param, f"{rid}: VectorizedNodeIR.extend takes no node")
    arg = None
    if isinstance(rv, ast.Call) and call_name(rv) == "append_values" and not rv.keywords and len(rv.args) == 1:
        arg = _inline(ctx, ext, rv.args[0])
    if arg is not None and is_attr_of(arg, node_param[0], "values"):
        ctx.ok(rid, ext, erets[0], "extend returns the index ranges computed by append_values for the values of the node it was given")
    elif isinstance(rv, (ast.Constant, ast.Dict)) or (arg is not None and isinstance(arg, (ast.Attribute, ast.Name, ast.Dict, ast.Constant))):
        ctx.violation(rid, ext, erets[0], f"extend returns `{norm(rv)}`, not the ranges append_values computed for the appended node's values")
    else:
        raise AnalysisError(f"{rid}: cannot follow what VectorizedNodeIR.extend returns (`{norm(rv)}`)")
    incs = [s for s in ecfg.stmts() if (isinstance(s, ast.AugAssign) and is_attr_of(s.target, ext.self_name, "length"))
            or (isinstance(s, ast.Assign) and any(is_attr_of(t, ext.self_name, "length") for t in s.targets))]

    def by_one(s):
        """self.length += 1  /  self.length = self.length + 1  /  self.length = 1 + self.length"""
        if isinstance(s, ast.AugAssign):
            return isinstance(s.op, ast.Add) and isinstance(s.value, ast.Constant) and s.value.value == 1 and s.value.value is not True
        v = _inline(ctx, ext, s.value)
        if isinstance(v, ast.BinOp) and isinstance(v.op, ast.Add):
            for a, b in ((v.left, v.right), (v.right, v.left)):
                if is_attr_of(a, ext.self_name, "length") and isinstance(b, ast.Constant) and b.value == 1 and b.value is not True:
                    return True
        return False
    one = len(incs) == 1 and by_one(incs[0]) \
        and not any(isinstance(a, (ast.For, ast.While, ast.If)) for a in _anc(incs[0]) if a is not ext.node and not isinstance(a, ast.ClassDef))
    if one:
        ctx.ok(rid, ext, incs[0], "the node's length advances by exactly one per appended node")
    else:
        ctx.violation(rid, ext, incs[0] if incs else ext.node, "the vectorized node's length does not advance by exactly one per appended node "
                                                              "(edge-node index ranges are computed from it)", label="length increment")

    # ---- cache_func -----------------------------------------------------------------------------------------------------
    cf = inlined(ctx, ctx.repo.get_func(ND, "cache_func"))
    ccfg = ctx.cfg(cf)
    crets = [s for s in ccfg.stmts() if isinstance(s, ast.Return)]
    ctx.require(len(crets) == 1 and isinstance(crets[0].value, ast.Tuple) and len(crets[0].value.elts) == 3 and isinstance(crets[0].value.elts[2], ast.Name),
                f"{rid}: cache_func no longer returns (node, changed_labels, ranges)")
    rn = crets[0].value.elts[2]
    defs = ctx.rd(cf).defs_reaching(rn)
    ctx.require(len(defs) == 2, f"{rid}: expected two definitions of `{rn.id}` in cache_func (cache hit / cache miss), found {len(defs)}")
    node_name = crets[0].value.elts[0].id if isinstance(crets[0].value.elts[0], ast.Name) else None
    for d in defs:
        val = assigned_value(d, rn.id)
        if isinstance(val, ast.Call) and call_name(val) == "extend" and isinstance(val.func, ast.Attribute) and isinstance(val.func.value, ast.Name):
            same = val.func.value.id == node_name
            if same:
                ctx.ok(rid, cf, d, "on a cache hit the ranges are those returned by extending the cached node that is handed back", label="cache hit ranges")
            else:
                ctx.violation(rid, cf, d, f"the ranges come from extending `{val.func.value.id}` but the node handed back is `{node_name}`", label="cache hit ranges")
        elif isinstance(val, ast.DictComp) or _empty_dict(val):
            if isinstance(val, ast.DictComp):
                key_e, v = val.key, val.value
                it = val.generators[0].iter if len(val.generators) == 1 and not val.generators[0].ifs else None
                tgt = val.generators[0].target if it is not None else None
                shown = norm(val)
            else:
                # ranges = {}; for key, n in <node>.op_graph.var_lengths.items(): ranges[key] = (0, n)
                fills = [s for s in ccfg.stmts() if isinstance(s, ast.Assign) and len(s.targets) == 1 and isinstance(s.targets[0], ast.Subscript)
                         and isinstance(s.targets[0].value, ast.Name) and s.targets[0].value.id == rn.id and ccfg.dominates(d, s)]
                other = [s for s in ccfg.stmts() if isinstance(s, ast.Expr) and isinstance(s.value, ast.Call) and isinstance(s.value.func, ast.Attribute)
                         and isinstance(s.value.func.value, ast.Name) and s.value.func.value.id == rn.id]
                loops = [a for a in _anc(fills[0]) if isinstance(a, ast.For)] if len(fills) == 1 else []
                if len(fills) != 1 or other or len(loops) != 1 or not ccfg.dominates(d, loops[0]) or parent(fills[0]) is not loops[0]:
                    raise AnalysisError(f"{rid}: cannot follow how the ranges of a cache miss are filled in cache_func (unrecognised form)")
                key_e, v, it, tgt = fills[0].targets[0].slice, fills[0].value, loops[0].iter, loops[0].target
                shown = norm(fills[0])
            if not (isinstance(v, ast.Tuple) and len(v.elts) == 2 and isinstance(tgt, ast.Tuple) and len(tgt.elts) == 2
                    and all(isinstance(x, ast.Name) for x in tgt.elts) and isinstance(it, ast.Call) and call_name(it) == "items"
                    and isinstance(it.func, ast.Attribute) and not it.args):
                raise AnalysisError(f"{rid}: ranges of a cache miss `{shown}` are not built from the (key, length) items of a mapping (unrecognised form)")
            from engine.srcmodel import dotted as _dotted
            src_chain = _dotted(_inline(ctx, cf, it.func.value)) or ""
            if not src_chain:
                raise AnalysisError(f"{rid}: cannot tell which mapping `{norm(it)}` iterates in cache_func (unrecognised form)")
            # the new node may be built under another local and bound to the returned name afterwards (`node = new_node`)
            root = src_chain.split(".")[0]
            node_aliases = {node_name}
            if isinstance(crets[0].value.elts[0], ast.Name):
                for nd in ctx.rd(cf).defs_reaching(crets[0].value.elts[0]):
                    av = assigned_value(nd, node_name) if isinstance(nd, (ast.Assign, ast.AnnAssign)) else None
                    if isinstance(av, ast.Name):
                        node_aliases.add(av.id)
            good = isinstance(v.elts[0], ast.Constant) and v.elts[0].value == 0 and v.elts[0].value is not False \
                and isinstance(v.elts[1], ast.Name) and v.elts[1].id == tgt.elts[1].id and isinstance(key_e, ast.Name) and key_e.id == tgt.elts[0].id \
                and node_name is not None and root in node_aliases and src_chain.endswith(".var_lengths")
            if good:
                ctx.ok(rid, cf, d, "on a cache miss every variable of the new node gets the range (0, its length)", label="cache miss ranges")
            else:
                ctx.violation(rid, cf, d, f"on a cache miss the ranges `{shown}` are not (0, length) of the new node's own variables", label="cache miss ranges")
        else:
            raise AnalysisError(f"{rid}: unrecognised definition of the ranges in cache_func: {norm(d)}")
    # var_lengths = shape[0] if shape else 1
    vl = inlined(ctx, get_method(ctx, cls, "var_lengths"))
    sts = [s for s in walk_shallow(vl.node) if isinstance(s, ast.Assign) and len(s.targets) == 1 and isinstance(s.targets[0], ast.Subscript)]
    if not sts:
        # the mapping built in one expression: return {(op, var): <length> for ...}
        sts = [s for s in walk_shallow(vl.node) if isinstance(s, (ast.Return, ast.Assign)) and isinstance(s.value, ast.DictComp)]
    ctx.require(len(sts) == 1, f"{rid}: var_lengths has an unrecognised form")
    val = sts[0].value.value if isinstance(sts[0].value, ast.DictComp) else inline_locals(ctx, vl, sts[0].value)

    def shape_of(e):
        """X['shape'] -> dump of X"""
        if isinstance(e, ast.Subscript) and isinstance(e.slice, ast.Constant) and e.slice.value == "shape":
            return ast.dump(e.value)
        return None
    if not isinstance(val, ast.IfExp):
        raise AnalysisError(f"{rid}: var_lengths `{norm(val)}` is not of the form `shape[0] if shape else 1` (unrecognised form)")
    test, body, other = val.test, val.body, val.orelse
    if isinstance(test, ast.UnaryOp) and isinstance(test.op, ast.Not):
        test, body, other = test.operand, other, body
    if isinstance(test, ast.Call) and call_name(test) == "len" and len(test.args) == 1:
        test = test.args[0]
    base = shape_of(test)
    if base is None or not (isinstance(body, ast.Subscript) and shape_of(body.value) is not None) or not isinstance(other, ast.Constant):
        raise AnalysisError(f"{rid}: var_lengths `{norm(val)}` is not of the form `shape[0] if shape else 1` (unrecognised form)")
    good = shape_of(body.value) == base and isinstance(body.slice, ast.Constant) and body.slice.value == 0 and other.value == 1 and other.value is not True
    if good:
        ctx.ok(rid, vl, sts[0], "var_lengths is the first extent of the variable's shape (1 for scalars)", nontrivial=False)
    else:
        ctx.violation(rid, vl, sts[0], f"var_lengths `{norm(val)}` is not shape[0] (1 for an empty shape)")


def _empty_dict(e):
    return (isinstance(e, ast.Dict) and not e.keys) or (isinstance(e, ast.Call) and call_name(e) == "dict" and not e.args and not e.keywords)


def _inline_keep(ctx, f, e):
    """(inlined expression, statement at which it was evaluated)"""
    cfg = ctx.cfg(f)
    at = stmt_of(cfg, e)
    cur = e
    for _ in range(5):
        if isinstance(cur, ast.Name):
            d = _def_stmt(ctx, f, cur)
            if d is None:
                break
            at = d
            cur = assigned_value(d, cur.id)
        elif isinstance(cur, ast.Subscript) and isinstance(cur.value, ast.Name) and isinstance(cur.slice, ast.Constant) and isinstance(cur.slice.value, int):
            # old_shape[0] -> (var['shape'])[0] evaluated where old_shape was bound
            d = _def_stmt(ctx, f, cur.value)
            if d is None:
                break
            at = d
            cur = ast.Subscript(value=assigned_value(d, cur.value.id), slice=cur.slice, ctx=ast.Load())
        else:
            break
    return cur, at


def _anc(n):
    p = parent(n)
    while p is not None:
        yield p
        p = parent(p)


# ------------------------------------------------------------------------------------------------
# R3  lock-step extension of grouped edge attributes
# ------------------------------------------------------------------------------------------------

def r3_group_edges(ctx, rid):
    cls = ctx.repo.get_class(FE, "CircuitTemplate")
    f = get_method(ctx, cls, "_group_edges")
    cfg = ctx.cfg(f)
    rets = [s for s in cfg.stmts() if isinstance(s, ast.Return) and s.value is not None]
    ctx.require(len(rets) == 1 and isinstance(rets[0].value, ast.Name), f"{rid}: _group_edges no longer returns one named collection")
    col = rets[0].value.id

    def member_test(e):
        """(key expr, True if `key in col` / False if `key not in col`) for a membership test against the collection"""
        pol = True
        while isinstance(e, ast.UnaryOp) and isinstance(e.op, ast.Not):
            e, pol = e.operand, not pol
        if isinstance(e, ast.Compare) and len(e.ops) == 1 and isinstance(e.ops[0], (ast.In, ast.NotIn)):
            c = e.comparators[0]
            if isinstance(c, ast.Call) and call_name(c) == "keys" and isinstance(c.func, ast.Attribute) and not c.args:
                c = c.func.value
            if isinstance(c, ast.Name) and c.id == col:
                return e.left, pol == isinstance(e.ops[0], ast.In)
        # group = col.get(key) ... if group is None / is not None
        if isinstance(e, ast.Compare) and len(e.ops) == 1 and isinstance(e.ops[0], (ast.Is, ast.IsNot, ast.Eq, ast.NotEq)) \
                and isinstance(e.comparators[0], ast.Constant) and e.comparators[0].value is None:
            g = e.left
            if isinstance(g, ast.Name):
                g = single_def_value(ctx, f, g)
            if isinstance(g, ast.Call) and call_name(g) == "get" and isinstance(g.func, ast.Attribute) and isinstance(g.func.value, ast.Name) \
                    and g.func.value.id == col and g.args and (len(g.args) == 1 or (isinstance(g.args[1], ast.Constant) and g.args[1].value is None)):
                return g.args[0], pol == isinstance(e.ops[0], (ast.IsNot, ast.NotEq))
        return None
    tests = [s for s in cfg.stmts() if isinstance(s, ast.If) and member_test(s.test) is not None]
    ctx.require(len(tests) == 1, f"{rid}: expected one membership test against `{col}`, found {len(tests)}")
    t = tests[0]
    key_expr, positive = member_test(t.test)
    outer = [a for a in _anc(t) if isinstance(a, ast.For)]
    ctx.require(len(outer) == 1, f"{rid}: the merge test is not directly inside the loop over edges")
    outer = outer[0]

    def same_key(e):
        """does `e` denote the tested key (literally, or after inlining single-definition locals on both sides)?"""
        if ast.dump(e) == ast.dump(key_expr):
            return True
        try:
            return ast.dump(inline_locals(ctx, f, e)) == ast.dump(inline_locals(ctx, f, key_expr))
        except AnalysisError:
            return False

    def comparable(e):
        """e and the tested key are both plain names or tuples of the same length once single-definition locals are inlined, so that
        a difference between them is a real difference"""
        try:
            a, b = inline_locals(ctx, f, e), inline_locals(ctx, f, key_expr)
        except AnalysisError:
            return False
        return (isinstance(a, ast.Tuple) and isinstance(b, ast.Tuple) and len(a.elts) == len(b.elts)) or \
            (isinstance(a, ast.Name) and isinstance(b, ast.Name))

    # the two branches as regions of the control-flow graph: everything reachable from the test's outcome within one iteration of the
    # edge loop (so `if k in col: merge else: create`, `if k not in col: create; continue` + merge and the mirrored forms are alike)
    def region(label):
        out, seen, stack = [], set(), list(cfg.successors(t, label))
        while stack:
            n = stack.pop()
            if n is outer or not isinstance(n, ast.stmt) or id(n) in seen or not in_body(outer, n):
                continue
            seen.add(id(n))
            out.append(n)
            for x in cfg.g.successors(n):
                if "back" in cfg.g[n][x]["labels"] and x is outer:
                    continue
                stack.append(x)
        return sorted(out, key=lambda n: (n.lineno, n.col_offset))
    merge_region, create_region = (region("true"), region("false")) if positive else (region("false"), region("true"))
    merge_label = "true" if positive else "false"
    ctx.require(merge_region and create_region, f"{rid}: the merge test has an empty branch (unrecognised form)")
    shared = {id(n) for n in merge_region} & {id(n) for n in create_region}

    def inside(reg, n):
        return any(x is n for x in reg)

    def within(loop, n):
        return in_body(loop, n)

    def sub_key(e):
        """X[k] -> (base text, key const | key Name, base node); X is a local name or directly `col[<key>]`"""
        if isinstance(e, ast.Subscript) and (isinstance(e.value, ast.Name) or (isinstance(e.value, ast.Subscript) and isinstance(e.value.value, ast.Name)
                                                                             and e.value.value.id == col)):
            base = e.value.id if isinstance(e.value, ast.Name) else f"{col}[..]"
            if isinstance(e.slice, ast.Constant):
                return base, ("const", e.slice.value), e.value
            if isinstance(e.slice, ast.Name):
                return base, ("name", e.slice.id), e.value
            return base, ("expr", ast.dump(e.slice)), e.value
        return None, None, None

    def attr_loops(reg):
        return [s for s in reg if isinstance(s, ast.For) and isinstance(s.iter, ast.Call) and call_name(s.iter) == "items"
                and isinstance(s.target, ast.Tuple) and len(s.target.elts) == 2]

    paths = [p for p in enumerate_paths(cfg) if any(n is t for n in p)]

    def takes(p, label):
        i = next(k for k, n in enumerate(p) if n is t)
        return i + 1 < len(p) and label in cfg.g[t][p[i + 1]]["labels"]

    # ---------------- merging path ----------------
    loops = attr_loops(merge_region)
    ctx.require(len(loops) == 1, f"{rid}: expected one loop over the edge attributes on the merging path, found {len(loops)}")
    aloop = loops[0]
    kname, vname = (e.id if isinstance(e, ast.Name) else None for e in aloop.target.elts)
    edict = aloop.iter.func.value.id if isinstance(aloop.iter.func.value, ast.Name) else None
    ctx.require(kname and vname and edict, f"{rid}: unrecognised attribute loop header {norm(aloop)}")

    def classify_merge(s):
        """('src'|'tgt'|'attr'|'other'|'unknown', base, grown-by expr, kind, base node) for a statement that grows a list of the group's dict"""
        if isinstance(s, ast.AugAssign):
            if not isinstance(s.op, ast.Add):
                return None
            recv, arg, kind = s.target, s.value, "extend"
        elif isinstance(s, ast.Expr) and isinstance(s.value, ast.Call):
            c = s.value
            if not (isinstance(c.func, ast.Attribute) and c.func.attr in ("extend", "append", "insert", "update", "setdefault")):
                return None
            if c.func.attr not in ("extend", "append") or len(c.args) != 1:
                return ("unknown", None, None, c.func.attr, None)
            recv, arg, kind = c.func.value, c.args[0], c.func.attr
        else:
            return None
        base, key, bnode = sub_key(recv)
        if base is None:
            return ("unknown", None, arg, kind, None) if isinstance(recv, ast.Subscript) else None
        if key == ("const", "source_idx"):
            return ("src", base, arg, kind, bnode)
        if key == ("const", "target_idx"):
            return ("tgt", base, arg, kind, bnode)
        if key == ("name", kname) and within(aloop, s):
            return ("attr", base, arg, kind, bnode)
        return ("other", base, arg, kind, bnode)

    merge_paths = [p for p in paths if takes(p, merge_label)]
    ctx.require(merge_paths, f"{rid}: no path through the merging branch")
    worst = None
    unknown = [norm(s) for s in merge_region if (classify_merge(s) or ("",))[0] == "unknown"]
    for p in merge_paths:
        ev = [classify_merge(s) for s in p if isinstance(s, ast.stmt) and inside(merge_region, s)]
        ev = [e for e in ev if e]
        kinds = [e[0] for e in ev]
        took_loop = any(isinstance(s, ast.stmt) and within(aloop, s) for s in p)
        want_attr = 1 if took_loop else 0
        problem = None
        if kinds.count("src") != 1:
            problem = f"source_idx is extended {kinds.count('src')} times"
        elif kinds.count("tgt") != 1:
            problem = f"target_idx is extended {kinds.count('tgt')} times"
        elif kinds.count("attr") != want_attr:
            problem = f"an edge attribute list is extended {kinds.count('attr')} times in one pass of the attribute loop"
        elif "other" in kinds:
            problem = "another list of the group is grown as well"
        if problem and worst is None:
            worst = (problem, cfg.path_str(p), kinds)
    facts = {"merge_paths": len(merge_paths)}
    if worst and unknown:
        raise AnalysisError(f"{rid}: the merging branch of _group_edges grows lists in a form that is not recognised: {unknown}")
    if worst:
        facts.update(witness=worst[1], events=worst[2])
        ctx.violation(rid, f, t, f"on the merging path {worst[0]} for one merged edge: the per-edge lists of the group (source_idx, target_idx, "
                                 f"weights, delays ...) go out of step and edges are paired with the wrong indices/attributes", facts, label="merge: once per list")
    else:
        ctx.ok(rid, f, t, "on every path through the merging branch source_idx, target_idx and each attribute list are extended exactly once", facts,
               label="merge: once per list")
    # the extended dict is the group registered under the tested key
    evs = [(s, classify_merge(s)) for s in merge_region]
    evs = [(s, c) for s, c in evs if c and c[0] in ("src", "tgt", "attr", "other")]
    base_names = {c[1] for _, c in evs}
    direct = [c[4] for _, c in evs if isinstance(c[4], ast.Subscript)]
    bds = [s for s in merge_region if isinstance(s, ast.Assign) and isinstance(s.value, ast.Subscript) and isinstance(s.value.value, ast.Name)
           and s.value.value.id == col and len(s.targets) == 1 and isinstance(s.targets[0], ast.Name)]
    looked_up = None
    if not bds and not direct and len(base_names) == 1 and evs and isinstance(evs[0][1][4], ast.Name):
        # the group was fetched in front of the test: group = col.get(key) / col[key]
        ds = ctx.rd(f).defs_reaching(evs[0][1][4])
        if len(ds) == 1 and isinstance(ds[0], ast.Assign):
            v0 = assigned_value(ds[0], evs[0][1][4].id)
            if isinstance(v0, ast.Call) and call_name(v0) == "get" and isinstance(v0.func, ast.Attribute) and isinstance(v0.func.value, ast.Name) \
                    and v0.func.value.id == col and v0.args:
                looked_up = (ds[0], v0.args[0])
            elif isinstance(v0, ast.Subscript) and isinstance(v0.value, ast.Name) and v0.value.id == col:
                looked_up = (ds[0], v0.slice)
    if len(base_names) == 1 and direct and len(direct) == len(evs):
        if all(same_key(d.slice) for d in direct):
            ctx.ok(rid, f, t, "the lists that are extended belong to the group found under the tested key", label="merge: group identity")
        else:
            ctx.violation(rid, f, t, f"the extended group `{norm(direct[0])}` is not the one found by the membership test `{norm(t)}`", label="merge: group identity")
    elif looked_up is not None and same_key(looked_up[1]):
        ctx.ok(rid, f, looked_up[0], "the lists that are extended belong to the group found under the tested key", label="merge: group identity")
    elif looked_up is not None and comparable(looked_up[1]):
        ctx.violation(rid, f, looked_up[0], f"the extended group `{norm(looked_up[0])}` is not the one found by the membership test `{norm(t)}`",
                      label="merge: group identity")
    elif len(base_names) == 1 and len(bds) == 1 and not direct and bds[0].targets[0].id in base_names and same_key(bds[0].value.slice):
        ctx.ok(rid, f, bds[0], "the lists that are extended belong to the group found under the tested key", label="merge: group identity")
    elif len(base_names) == 1 and len(bds) == 1 and not direct and bds[0].targets[0].id in base_names and comparable(bds[0].value.slice):
        ctx.violation(rid, f, bds[0], f"the extended group `{norm(bds[0].value)}` is not the one found by the membership test `{norm(t)}`", label="merge: group identity")
    else:
        raise AnalysisError(f"{rid}: cannot identify the group dictionary on the merging path (bases {sorted(base_names)})")
    # lock-step lengths: attributes replicated len(s_idx) times, source_idx extended by s_idx
    src_ev = tgt_ev = attr_ev = None
    for s, c in evs:
        if c[0] == "src":
            src_ev = (s, c)
        if c[0] == "tgt":
            tgt_ev = (s, c)
        if c[0] == "attr":
            attr_ev = (s, c)
    if src_ev and attr_ev:
        _lockstep(ctx, rid, f, attr_ev, src_ev, vname, "merge", pre=_prereplicated(ctx, f, aloop.iter.func.value))
    elif unknown:
        raise AnalysisError(f"{rid}: the merging branch of _group_edges grows lists in a form that is not recognised: {unknown}")
    else:
        ctx.violation(rid, f, t, f"the merging branch has no growth of {'source_idx' if not src_ev else 'the edge attribute lists'}: the per-edge lists cannot "
                                 f"stay in lock-step", label="merge: lock-step lengths")
    for ev, nm in ((src_ev, "source_idx"), (tgt_ev, "target_idx")):
        if ev and ev[1][3] != "extend":
            ctx.violation(rid, f, ev[0], f"{nm} is grown with append instead of extend: the index list of the merged edge is nested instead of "
                                         f"concatenated", label=f"merge: {nm} concatenated")

    # ---------------- creating path ----------------
    cloops = attr_loops(create_region)
    ctx.require(len(cloops) <= 1, f"{rid}: expected one loop over the edge attributes on the creating path, found {len(cloops)}")
    cloop = cloops[0] if cloops else None          # None: the attributes must have been replicated in front of the branch (checked below)
    ck, cv = ((e.id if isinstance(e, ast.Name) else None for e in cloop.target.elts) if cloop is not None else (None, None))
    cdict = cloop.iter.func.value.id if cloop is not None and isinstance(cloop.iter.func.value, ast.Name) else None

    def classify_create(s):
        """[(kind, stmt, target, value)] for the stores of one statement (`a['source_idx'], a['target_idx'] = x, y` makes two)"""
        if not isinstance(s, ast.Assign):
            if isinstance(s, ast.Expr) and isinstance(s.value, ast.Call) and isinstance(s.value.func, ast.Attribute) \
                    and s.value.func.attr in ("update", "setdefault", "__setitem__"):
                return [("unknown", s, None, None)]
            return []
        pairs = []
        for tg in s.targets:
            if isinstance(tg, (ast.Tuple, ast.List)) and isinstance(s.value, (ast.Tuple, ast.List)) and len(tg.elts) == len(s.value.elts):
                pairs += list(zip(tg.elts, s.value.elts))
            elif isinstance(tg, (ast.Tuple, ast.List)):
                pairs += [(x, None) for x in tg.elts]
            else:
                pairs.append((tg, s.value))
        out = []
        for tg, val in pairs:
            base, key, _ = sub_key(tg)
            if base is None:
                continue
            if val is None:
                out.append(("unknown", s, tg, None))
            elif base == col:
                out.append(("register", s, tg, val))
            elif key == ("const", "source_idx"):
                out.append(("src", s, tg, val))
            elif key == ("const", "target_idx"):
                out.append(("tgt", s, tg, val))
            elif cloop is not None and key == ("name", ck) and within(cloop, s):
                out.append(("attr", s, tg, val))
        return out
    create_label = "false" if positive else "true"
    create_paths = [p for p in paths if takes(p, create_label)]
    ctx.require(create_paths, f"{rid}: no path through the creating branch")
    c_unknown = [norm(s) for s in create_region for e in classify_create(s) if e[0] == "unknown"]
    worst = None
    for p in create_paths:
        ev = [e for s in p if isinstance(s, ast.stmt) and inside(create_region, s) and id(s) not in shared for e in classify_create(s)]
        kinds = [e[0] for e in ev]
        took_loop = cloop is not None and any(isinstance(s, ast.stmt) and within(cloop, s) for s in p)
        problem = None
        for k, nm in (("src", "source_idx"), ("tgt", "target_idx"), ("register", "the group")):
            if kinds.count(k) != 1 and problem is None:
                problem = f"{nm} is initialised {kinds.count(k)} times"
        if problem is None and kinds.count("attr") != (1 if took_loop else 0):
            problem = f"an edge attribute is initialised {kinds.count('attr')} times in one pass of the attribute loop"
        if problem is None and "attr" in kinds and min(kinds.index("src"), kinds.index("tgt")) < kinds.index("attr"):
            problem = "the index lists are stored before the attribute loop runs, so the loop replicates them like an attribute ([list] * n)"
        if problem and worst is None:
            worst = (problem, cfg.path_str(p), kinds)
    if worst and c_unknown:
        raise AnalysisError(f"{rid}: the creating branch of _group_edges fills the new group in a form that is not recognised: {c_unknown}")
    if worst:
        ctx.violation(rid, f, t, f"on the creating path {worst[0]}: the per-edge lists of a new group do not start out with one entry per edge each",
                      {"witness": worst[1], "events": worst[2]}, label="create: once per list")
    else:
        ctx.ok(rid, f, t, "on every path through the creating branch each list is initialised exactly once, index lists after the attribute replication",
               {"create_paths": len(create_paths)}, label="create: once per list")
    c_src = c_tgt = c_attr = c_reg = None
    for s in create_region:
        for e in classify_create(s):
            if e[0] == "src":
                c_src = e
            elif e[0] == "tgt":
                c_tgt = e
            elif e[0] == "attr":
                c_attr = e
            elif e[0] == "register":
                c_reg = e
    ctx.require(c_src is not None and c_tgt is not None and c_reg is not None, f"{rid}: creating path has an unrecognised form")
    # registration key == tested key, registered dict == the one initialised
    base_c, _, _ = sub_key(c_src[2])
    reg_st, reg_tg, reg_val = c_reg[1], c_reg[2], c_reg[3]
    pre_c = None
    if cloop is None:
        pre_c = _prereplicated(ctx, f, reg_val)
        if pre_c is None or not cfg.dominates(pre_c[0], t) or not in_body(outer, pre_c[0]):
            raise AnalysisError(f"{rid}: no replication of the edge attributes found on the creating path (neither a loop over the attributes nor "
                                f"a comprehension in front of the branch)")
        cdict, cv = reg_val.id, pre_c[1]
        c_attr = ("attr", pre_c[0], None, pre_c[2])
    ctx.require(c_attr is not None, f"{rid}: creating path has an unrecognised form")
    if same_key(reg_tg.slice) and isinstance(reg_val, ast.Name) and reg_val.id == base_c == cdict:
        ctx.ok(rid, f, reg_st, "the new group is registered under the key the membership test uses", label="create: group identity")
    elif isinstance(reg_val, ast.Name) and (comparable(reg_tg.slice) or same_key(reg_tg.slice)):
        ctx.violation(rid, f, reg_st, f"the new group is registered as `{norm(reg_st)}`, which does not match the membership test `{norm(t)}` / the "
                                      f"dictionary that was initialised: later edges of the same group would not be merged into it", label="create: group identity")
    else:
        raise AnalysisError(f"{rid}: cannot compare the registration `{norm(reg_st)}` with the membership test `{norm(t)}` (unrecognised form)")
    # fresh copies of the index lists
    for (_, s, tg, v), nm in ((c_src, "source_idx"), (c_tgt, "target_idx")):
        what = norm(s) if len(classify_create(s)) == 1 else f"{norm(tg)} = {norm(v)}"
        fresh = (isinstance(v, ast.Call) and call_name(v) in ("list", "deepcopy", "copy", "array", "tolist")) or isinstance(v, (ast.List, ast.ListComp)) \
            or (isinstance(v, ast.Subscript) and isinstance(v.slice, ast.Slice))
        if fresh:
            ctx.ok(rid, f, s, f"the group's {nm} starts as a fresh list (later extensions cannot reach _vectorization_indices)", label=f"create: {nm} is a copy")
        else:
            origin = _inline(ctx, f, v)
            aliases = any(isinstance(n, ast.Name) and n.id == "indices" or is_attr_of(n, f.self_name, "_vectorization_indices") for n in ast.walk(origin)) \
                or _may_alias_indices(ctx, f, v)
            if aliases:
                ctx.violation(rid, f, s, f"the group's {nm} is the list object stored in _vectorization_indices (`{norm(v)}`): extending it for the next merged "
                                         f"edge rewrites the vectorization index of a node variable", label=f"create: {nm} is a copy")
            else:
                raise AnalysisError(f"{rid}: cannot decide whether `{what}` stores a fresh list")
    _lockstep(ctx, rid, f, (c_attr[1], ("attr", None, c_attr[3], "assign")), (c_src[1], ("src", None, c_src[3], "assign")), cv, "create")


def _may_alias_indices(ctx, f, v):
    if not isinstance(v, ast.Name):
        return False
    for d in ctx.rd(f).defs_reaching(v):
        val = assigned_value(d, v.id)
        if val is None:
            continue
        for n in ast.walk(val):
            if isinstance(n, ast.Subscript) and isinstance(n.value, ast.Name):
                src = single_def_value(ctx, f, n.value)
                if src is not None and "_vectorization_indices" in ast.unparse(src):
                    return True
    return False


def _strip_copy(e):
    """list(x) / deepcopy(x) / x.copy() / x[:] / [k for k in x]  ->  x"""
    while True:
        if isinstance(e, ast.Call) and call_name(e) in ("list", "deepcopy", "copy") and e.args:
            e = e.args[0]
        elif isinstance(e, ast.Call) and call_name(e) == "copy" and isinstance(e.func, ast.Attribute) and not e.args:
            e = e.func.value
        elif isinstance(e, ast.Subscript) and isinstance(e.slice, ast.Slice) and e.slice.lower is None and e.slice.upper is None and e.slice.step is None:
            e = e.value
        elif isinstance(e, ast.ListComp) and len(e.generators) == 1 and not e.generators[0].ifs and isinstance(e.elt, ast.Name) \
                and isinstance(e.generators[0].target, ast.Name) and e.elt.id == e.generators[0].target.id:
            e = e.generators[0].iter
        else:
            return e


def _prereplicated(ctx, f, dict_name):
    """The attribute dict named by `dict_name` was replicated as a whole before use: its single reaching definition is
    `D = {k: [v] * count for k, v in <edge attrs>.items()}`.  Returns (statement, v name, `[v] * count` expression) or None."""
    if not isinstance(dict_name, ast.Name):
        return None
    defs = ctx.rd(f).defs_reaching(dict_name)
    if len(defs) != 1 or not isinstance(defs[0], ast.Assign):
        return None
    dc = assigned_value(defs[0], dict_name.id)
    if not (isinstance(dc, ast.DictComp) and len(dc.generators) == 1 and not dc.generators[0].ifs):
        return None
    gen = dc.generators[0]
    if not (isinstance(gen.iter, ast.Call) and call_name(gen.iter) == "items" and isinstance(gen.target, ast.Tuple) and len(gen.target.elts) == 2
            and all(isinstance(x, ast.Name) for x in gen.target.elts) and isinstance(dc.key, ast.Name) and dc.key.id == gen.target.elts[0].id):
        return None
    return defs[0], gen.target.elts[1].id, dc.value


def _lockstep(ctx, rid, f, attr_ev, src_ev, vname, which, pre=None):
    """attribute lists grow by [val] * L with L == len(<what source_idx grows by>)"""
    s_attr, a_arg = attr_ev[0], attr_ev[1][2]
    s_src, s_arg = src_ev[0], src_ev[1][2]
    a_val = _inline(ctx, f, a_arg)
    rep = None
    if isinstance(a_val, ast.BinOp) and isinstance(a_val.op, ast.Mult):
        for x, y in ((a_val.left, a_val.right), (a_val.right, a_val.left)):
            if isinstance(x, ast.List) and len(x.elts) == 1:
                rep = (x.elts[0], y)
    label = f"{which}: lock-step lengths"
    if rep is None and pre is not None and isinstance(a_val, ast.Name) and a_val.id == vname:
        # the lists were built once, in front of the branch, for the whole attribute dict: the growth is that dict's value
        _, vname, a_val = pre
        if isinstance(a_val, ast.BinOp) and isinstance(a_val.op, ast.Mult):
            for x, y in ((a_val.left, a_val.right), (a_val.right, a_val.left)):
                if isinstance(x, ast.List) and len(x.elts) == 1:
                    rep = (x.elts[0], y)
    if rep is None:
        raise AnalysisError(f"{rid}: the attribute growth `{norm(a_arg)}` is not of the recognised form [value] * count")
    elem, cnt = rep
    cnt_i = _inline(ctx, f, cnt)
    # what source_idx grows by: strip list(...)
    s_core = _strip_copy(s_arg)
    good_cnt = isinstance(cnt_i, ast.Call) and call_name(cnt_i) == "len" and len(cnt_i.args) == 1 \
        and ast.dump(cnt_i.args[0]) == ast.dump(s_core)
    good_elem = isinstance(elem, ast.Name) and elem.id == vname
    facts = {"attribute_growth": norm(a_val), "count": norm(cnt_i), "source_idx_growth": norm(s_arg)}
    if good_cnt and good_elem:
        ctx.ok(rid, f, s_attr, f"each attribute grows by len({norm(s_core)}) copies of the edge's value, exactly as many entries as source_idx gains", facts, label=label)
    else:
        ctx.violation(rid, f, s_attr, f"attribute lists grow by `{norm(a_val)}` while source_idx grows by `{norm(s_arg)}`: the number of attribute entries per "
                                      f"merged edge ({norm(cnt_i)}) is not the number of its source indices, so weights/delays shift against the index lists",
                      facts, label=label)


# ------------------------------------------------------------------------------------------------
# R4  per-node index ranges come from that node's application
# ------------------------------------------------------------------------------------------------

def _returns_ranges(ctx, fi, pos, depth=0, trail=()):
    """Does function fi return, at tuple position `pos` (None: the whole value), a dictionary of (start, stop) pairs?
    Returns (True, chain), (False, chain) when a returned value is positively something else, or raises AnalysisError when the
    chain cannot be followed.  Every function is read with its private helpers spliced in (engine.inline)."""
    if depth > 8:
        raise AnalysisError(f"C04-R4: return chain too deep at {fi.qual}")
    fi = _R.view(ctx, fi)
    rets = [s for s in walk_shallow(fi.node) if isinstance(s, ast.Return) and s.value is not None]
    if not rets:
        if any(isinstance(s, ast.Raise) for s in fi.node.body):
            return True, list(trail) + [fi.qualname + " (abstract: only raises)"]
        raise AnalysisError(f"C04-R4: {fi.qual} has no return value")
    chain = list(trail) + [fi.qualname]
    for r in rets:
        v = r.value
        if pos is not None and isinstance(v, ast.Name):
            v = single_def_value(ctx, fi, v) or v              # result = (node, labels, ranges); return result
        if pos is not None and isinstance(v, ast.Tuple):
            if pos >= len(v.elts):
                return False, chain
            ok, chain = _elt_is_ranges(ctx, fi, v.elts[pos], depth, chain)
            if not ok:
                return False, chain
        elif isinstance(v, ast.Call):
            targets, how = ctx.cg.resolve_call(fi, v)
            if not targets:
                raise AnalysisError(f"C04-R4: cannot resolve `{norm(v)}` in {fi.qual} ({how})")
            for tg in targets:
                ok, chain2 = _returns_ranges(ctx, tg, pos, depth + 1, tuple(chain))
                if not ok:
                    return False, chain2
            chain = chain2
        elif pos is None:
            ok, chain = _elt_is_ranges(ctx, fi, v, depth, chain)
            if not ok:
                return False, chain
        elif isinstance(v, (ast.Constant, ast.Dict, ast.List, ast.DictComp, ast.ListComp)):
            return False, chain                                   # a single non-tuple value where a tuple is unpacked
        else:
            raise AnalysisError(f"C04-R4: cannot follow the value `{norm(v)}` returned by {fi.qual}")
    return True, chain


def _pair_or_not(ctx, fi, e):
    """True: e is a (start, stop) pair; False: positively something else (a name, constant, list, longer tuple); None: unknown"""
    if isinstance(e, ast.Name):
        e = (single_def_value(ctx, fi, e) if getattr(e, "_parent", None) is not None else None) or e
        if isinstance(e, ast.Name):
            return None
    if isinstance(e, ast.Tuple):
        return len(e.elts) == 2
    if isinstance(e, (ast.Constant, ast.List, ast.Dict, ast.JoinedStr, ast.ListComp, ast.DictComp)):
        return False
    return None


def _elt_is_ranges(ctx, fi, e, depth, chain):
    if isinstance(e, ast.DictComp):
        p = _pair_or_not(ctx, fi, e.value)
        if p is None:
            raise AnalysisError(f"C04-R4: cannot tell whether the values of `{norm(e)}` in {fi.qual} are (start, stop) pairs")
        return p, chain
    if isinstance(e, ast.Call):
        targets, how = ctx.cg.resolve_call(fi, e)
        if not targets and isinstance(e.func, ast.Attribute):
            # untyped receiver (`node = node_cache[h]`): every repository method of that name (over-approximation)
            targets = [c.methods[e.func.attr] for m in ctx.repo.modules.values() for c in m.classes.values() if e.func.attr in c.methods]
        if not targets:
            raise AnalysisError(f"C04-R4: cannot resolve `{norm(e)}` in {fi.qual} ({how})")
        for tg in targets:
            ok, chain = _returns_ranges(ctx, tg, None, depth + 1, tuple(chain))
            if not ok:
                return False, chain
        return True, chain
    if isinstance(e, ast.Name):
        defs = ctx.rd(fi).defs_reaching(e)
        if not defs:
            raise AnalysisError(f"C04-R4: `{e.id}` in {fi.qual} has no local definition")
        for d in defs:
            val = assigned_value(d, e.id)
            if val is None:
                raise AnalysisError(f"C04-R4: cannot follow the definition `{norm(d)}` of `{e.id}` in {fi.qual}")
            if _empty_dict(val):
                stores = [s for s in walk_shallow(fi.node) if isinstance(s, ast.Assign) and len(s.targets) == 1 and isinstance(s.targets[0], ast.Subscript)
                          and isinstance(s.targets[0].value, ast.Name) and s.targets[0].value.id == e.id]
                kinds = [_pair_or_not(ctx, fi, s.value) for s in stores]
                if not stores or any(k is False for k in kinds):
                    return False, chain                       # never filled / filled with something that is no pair
                if any(k is None for k in kinds):
                    raise AnalysisError(f"C04-R4: cannot tell whether `{e.id}` in {fi.qual} is filled with (start, stop) pairs")
                continue
            ok, chain = _elt_is_ranges(ctx, fi, val, depth, chain)
            if not ok:
                return False, chain
        return True, chain
    if isinstance(e, ast.Dict):
        kinds = [_pair_or_not(ctx, fi, v) for v in e.values]
        if e.values and all(k is True for k in kinds):
            return True, chain
        if not e.values or any(k is False for k in kinds):
            return False, chain
    if isinstance(e, (ast.Constant, ast.List, ast.Tuple, ast.ListComp, ast.JoinedStr)):
        return False, chain
    raise AnalysisError(f"C04-R4: cannot follow the value `{norm(e)}` in {fi.qual}")


def _feasible(call: ast.Call, fi) -> bool:
    a = fi.node.args
    names = [x.arg for x in a.posonlyargs + a.args + a.kwonlyargs]
    if not a.kwarg and any(k.arg is not None and k.arg not in names for k in call.keywords):
        return False
    has_value_return = any(isinstance(s, ast.Return) and s.value is not None for s in walk_shallow(fi.node))
    abstract = any(isinstance(s, ast.Raise) for s in fi.node.body)
    return has_value_return or abstract


def _derives_from_entry(rd, inner, name_node, k_op, depth=0):
    """Is the value of `name_node` on every path the operator name of the current entry of the ranges loop `inner`, or computed
    from it inside that loop (a re-labelling: re-binding of the loop variable, a new local, a conditional expression ...)?
    True / False / None (a definition of unrecognised form)."""
    defs = rd.defs_reaching(name_node)
    if not defs or depth > 4:
        return False
    for d in defs:
        if d is inner:
            if name_node.id != k_op:
                return False
            continue
        if isinstance(d, ast.arguments) or not in_body(inner, d):
            return False                      # bound outside this entry's iteration
        if not isinstance(d, (ast.Assign, ast.AnnAssign)):
            return None
        val = assigned_value(d, name_node.id)
        if val is None:
            return None
        got = [_derives_from_entry(rd, inner, n, k_op, depth + 1) for n in ast.walk(val) if isinstance(n, ast.Name) and isinstance(n.ctx, ast.Load)]
        if not any(g is True for g in got):
            return None if any(g is None for g in got) else False
    return True


def r4_node_ranges(ctx, rid):
    cls = ctx.repo.get_class(FE, "CircuitTemplate")
    n_inst = 0
    for mname in ("_apply_nodes", "_apply_populations_and_connections"):
        f = get_method(ctx, cls, mname)
        selfn = f.self_name
        cfg = ctx.cfg(f)
        rd = ctx.rd(f)
        # dict names that end up in self._vectorization_indices
        idx_names = set()
        for s in cfg.stmts():
            if isinstance(s, ast.Assign) and any(is_attr_of(t, selfn, "_vectorization_indices") for t in s.targets) and isinstance(s.value, ast.Name):
                idx_names.add(s.value.id)
        stores = []
        for s in cfg.stmts():
            if isinstance(s, ast.Assign) and len(s.targets) == 1 and isinstance(s.targets[0], ast.Subscript):
                b = s.targets[0].value
                if is_attr_of(b, selfn, "_vectorization_indices") or (isinstance(b, ast.Name) and b.id in idx_names):
                    stores.append(s)
        if not stores:
            raise AnalysisError(f"{rid}: no store into _vectorization_indices found in {f.qual}")
        for st in stores:
            n_inst += 1
            keyn = st.targets[0].slice
            tpl = fstring_template(keyn)
            holes = fstring_holes(keyn)
            if tpl is None or not re.fullmatch(r"⟨[^⟩]*⟩/⟨[^⟩]*⟩/⟨[^⟩]*⟩", tpl) or not all(isinstance(h, ast.Name) for h in holes):
                raise AnalysisError(f"{rid}: index key `{norm(keyn)}` in {f.qual} is not of the form '<node>/<op>/<var>'")
            loops = [a for a in _anc(st) if isinstance(a, ast.For)]
            if len(loops) != 2:
                raise AnalysisError(f"{rid}: `{norm(st)}` is not inside (loop over nodes) > (loop over ranges)")
            inner, outer = loops
            it = inner.iter
            if not (isinstance(it, ast.Call) and call_name(it) == "items" and isinstance(it.func.value, ast.Name) and isinstance(inner.target, ast.Tuple)
                    and len(inner.target.elts) == 2 and all(isinstance(e, ast.Tuple) and len(e.elts) == 2 and all(isinstance(x, ast.Name) for x in e.elts)
                                                            for e in inner.target.elts)):
                raise AnalysisError(f"{rid}: unrecognised loop over the ranges: {norm(inner)}")
            (k_op, k_var), (r_lo, r_hi) = ((x.id for x in e.elts) for e in inner.target.elts)
            rng_name = it.func.value
            # (a) the ranges iterated are the result of an apply call in the same iteration
            defs = rd.defs_reaching(rng_name)
            facts = {"store": norm(st), "ranges_defs": [norm(d) for d in defs if isinstance(d, ast.AST)]}
            label_a = f"ranges of this iteration: {norm(st)}"
            apply_call = None
            pos = None
            good = len(defs) == 1 and isinstance(defs[0], ast.Assign) and in_body(outer, defs[0]) and cfg.dominates(defs[0], inner)
            if good:
                d = defs[0]
                t0 = d.targets[0]
                if isinstance(t0, ast.Tuple) and isinstance(d.value, ast.Call):
                    names = [e.id if isinstance(e, ast.Name) else None for e in t0.elts]
                    if rng_name.id in names:
                        pos = names.index(rng_name.id)
                        apply_call = d.value
                elif isinstance(t0, ast.Name) and isinstance(d.value, ast.Call):
                    apply_call = d.value
            if not good:
                ctx.violation(rid, f, st, f"the ranges iterated by `{norm(inner)}` are not (only) the result of an apply call made in the same iteration of "
                                          f"`{norm(outer)}` on every path: a node would be given the index range of a previously applied node", facts, label=label_a)
                continue
            if apply_call is None or call_name(apply_call) != "apply":
                raise AnalysisError(f"{rid}: `{norm(defs[0])}` is not an unpacked apply(...) call")
            targets, how = ctx.cg.resolve_call(f, apply_call)
            if how == "by-name":
                # untyped receiver: keep every repository method of that name that could take this call and whose result can be unpacked
                targets = [tg for tg in targets if _feasible(apply_call, tg)]
            chain = []
            if targets:
                for tg in targets:
                    ok, chain = _returns_ranges(ctx, tg, pos)
                    if not ok:
                        break
                facts["apply_targets"] = [t.qualname for t in targets]
                facts["return_chain"] = chain
                if not ok:
                    ctx.violation(rid, f, st, f"position {pos} of the value returned by `{norm(apply_call)}` is not the dictionary of (start, stop) index "
                                              f"ranges (followed through {chain})", facts, label=label_a)
                    continue
            else:
                facts["apply_targets"] = f"unresolved ({how})"
                if pos != 2:
                    raise AnalysisError(f"{rid}: cannot resolve `{norm(apply_call)}` and the ranges are not its third result")
            ctx.ok(rid, f, st, f"the ranges are the {'third' if pos == 2 else str(pos)} result of `{norm(apply_call)[:70]}` of the same iteration", facts, label=label_a)
            # (b) the node in the key is the node that was applied
            outer_names = [x.id for x in ast.walk(outer.target) if isinstance(x, ast.Name)]
            lab = next((k.value for k in apply_call.keywords if k.arg == "label"), None)
            node_hole = holes[0].id
            label_b = f"key names the applied node: {norm(st)}"
            if node_hole in outer_names and rd.defs_reaching(holes[0]) == [outer] and isinstance(lab, ast.Name) and lab.id == node_hole:
                ctx.ok(rid, f, st, f"the key's node part `{node_hole}` is the loop's node, which is also the label handed to apply", label=label_b)
            elif lab is not None and not isinstance(lab, ast.Name) and any(isinstance(x, ast.Name) and x.id == node_hole for x in ast.walk(lab)):
                raise AnalysisError(f"{rid}: the label `{norm(lab)}` handed to apply is computed from `{node_hole}` in a form that is not recognised")
            else:
                ctx.violation(rid, f, st, f"the key's node part `{node_hole}` is not the node whose template was applied in this iteration (label="
                                          f"{norm(lab) if lab is not None else 'missing'}): the range would be filed under another node", label=label_b)
            # (c) op/var parts and the (start, stop) pair come from the same entry
            label_c = f"entry pairing: {norm(st)}"
            var_ok = holes[2].id == k_var and rd.defs_reaching(holes[2]) == [inner]
            op_ok = _derives_from_entry(rd, inner, holes[1], k_op)
            if op_ok is None:
                raise AnalysisError(f"{rid}: cannot follow how the key's operator part `{holes[1].id}` is computed in {f.qual} (unrecognised form)")
            v = st.value
            core = v
            while isinstance(core, ast.Call) and call_name(core) in ("list", "asarray", "array") and core.args:
                core = core.args[0]
            rng_ok = isinstance(core, ast.Call) and call_name(core) in ("range", "arange") and len(core.args) == 2 and not core.keywords
            if not rng_ok:
                raise AnalysisError(f"{rid}: stored value `{norm(v)}` is not list(range(start, stop)) (unrecognised form)")
            a0, a1 = core.args
            pair_ok = isinstance(a0, ast.Name) and isinstance(a1, ast.Name) and a0.id == r_lo and a1.id == r_hi \
                and rd.defs_reaching(a0) == [inner] and rd.defs_reaching(a1) == [inner]
            if var_ok and op_ok and pair_ok:
                ctx.ok(rid, f, st, "operator/variable of the key and (start, stop) of the value come from one entry of the returned ranges, in that order", label=label_c)
            else:
                why = []
                if not pair_ok:
                    why.append(f"the stored range is `{norm(core)}`, not range({r_lo}, {r_hi}) of the entry")
                if not var_ok:
                    why.append(f"the key's variable part is `{holes[2].id}`, not the entry's `{k_var}`")
                if not op_ok:
                    why.append(f"the key's operator part is `{holes[1].id}`, not (a re-labelling of) the entry's `{k_op}`")
                ctx.violation(rid, f, st, "; ".join(why) + ": frontend variable paths would map to the wrong positions of the merged vector", label=label_c)
    if n_inst < 2:
        raise AnalysisError(f"{rid}: expected the index stores of _apply_nodes and _apply_populations_and_connections")


def r5_index_roles(ctx, rid):
    """C16-R1 registered under C04: the vectorized weight matrices obey the same row/column roles."""
    _c16.r1_index_roles(ctx, rid)



_FINITE_CALLS = {"int", "len", "float", "abs", "min", "max", "sum", "sorted", "set", "frozenset", "list", "tuple", "range", "arange", "bool"}


def _mentions(e, name):
    return any(isinstance(n, ast.Name) and n.id == name for n in ast.walk(e))


def _range_of(e, length_name):
    """range(n) / arange(n) / arange(0, n) / list(...) / np.asarray(...) of one of these, n being the length name"""
    while isinstance(e, ast.Call) and call_name(e) in ("list", "tuple", "asarray", "array") and len(e.args) == 1:
        e = e.args[0]
    if isinstance(e, ast.Call) and call_name(e) in ("range", "arange") and not e.keywords:
        args = e.args
        if len(args) == 2 and isinstance(args[0], ast.Constant) and args[0].value == 0:
            args = args[1:]
        return len(args) == 1 and isinstance(args[0], ast.Name) and args[0].id == length_name
    return False


def _whole_list(e, idx_name):
    """idx / list(idx) / tuple(idx) / np.asarray(idx)"""
    while isinstance(e, ast.Call) and call_name(e) in ("list", "tuple", "asarray", "array") and len(e.args) == 1:
        e = e.args[0]
    return isinstance(e, ast.Name) and e.id == idx_name


def _pairs_with_positions(it, idx_name, length_name=None):
    """the iterable pairs every element of the whole index list with its position: zip(idx, range(n)) (either order),
    enumerate(idx), or an index loop range(n) / range(len(idx)) (the caller then compares idx[i] with i)"""
    if isinstance(it, ast.Call) and call_name(it) == "zip" and len(it.args) == 2:
        a, b = it.args
        for x, y in ((a, b), (b, a)):
            if _whole_list(x, idx_name) and isinstance(_strip_list(y), ast.Call) and call_name(_strip_list(y)) in ("range", "arange", "count"):
                return True
        return False
    if isinstance(it, ast.Call) and call_name(it) == "enumerate" and it.args and _whole_list(it.args[0], idx_name):
        return True
    y = _strip_list(it)
    if isinstance(y, ast.Call) and call_name(y) in ("range", "arange") and len(y.args) == 1:
        a = y.args[0]
        return (isinstance(a, ast.Name) and length_name is not None and a.id == length_name) or \
            (isinstance(a, ast.Call) and call_name(a) == "len" and len(a.args) == 1 and _whole_list(a.args[0], idx_name)) or isinstance(a, ast.Name)
    return False


def _strip_list(e):
    while isinstance(e, ast.Call) and call_name(e) in ("list", "tuple", "asarray", "array") and len(e.args) == 1:
        e = e.args[0]
    return e


def _elementwise_mismatch(cfg, st, idx_name):
    """statement `st` is executed only inside a loop over the index list and only when an element differs from its position"""
    loops = [a for a in _anc(st) if isinstance(a, ast.For) and _mentions(a.iter, idx_name) and _pairs_with_positions(a.iter, idx_name)]
    if not loops:
        return False
    for t, pol in _R.path_literals(cfg, st):
        if isinstance(t, ast.Compare) and len(t.ops) == 1 and any(contains(l, t) for l in loops):
            if (isinstance(t.ops[0], ast.NotEq) and pol) or (isinstance(t.ops[0], ast.Eq) and not pol):
                return True
    return False


def _identity_proof(ctx, fi, e, idx_name, length_name, depth=0):
    """Does the truth of expression `e` (in function fi) prove that the index list equals [0, 1, .., length-1] element by element?
    Returns a description or None."""
    if depth > 3:
        return None
    cfg = ctx.cfg(fi)
    if isinstance(e, ast.Compare) and len(e.ops) == 1 and isinstance(e.ops[0], ast.Eq):
        for x, y in ((e.left, e.comparators[0]), (e.comparators[0], e.left)):
            if _whole_list(x, idx_name) and _range_of(y, length_name):
                return f"list equality with range({length_name})"
    if isinstance(e, ast.Call) and call_name(e) == "array_equal" and len(e.args) == 2:
        for x, y in ((e.args[0], e.args[1]), (e.args[1], e.args[0])):
            if _whole_list(x, idx_name) and _range_of(y, length_name):
                return f"array_equal with arange({length_name})"
    if isinstance(e, ast.UnaryOp) and isinstance(e.op, ast.Not) and isinstance(e.operand, ast.Call) and call_name(e.operand) == "any" \
            and len(e.operand.args) == 1:
        gen = e.operand.args[0]                      # not any(a != b for a, b in zip(idx, range(n)))
        if isinstance(gen, ast.Call) and call_name(gen) in ("list", "tuple") and len(gen.args) == 1:
            gen = gen.args[0]
        if isinstance(gen, (ast.GeneratorExp, ast.ListComp)) and len(gen.generators) == 1 and not gen.generators[0].ifs \
                and _pairs_with_positions(gen.generators[0].iter, idx_name, length_name) and isinstance(gen.elt, ast.Compare) and len(gen.elt.ops) == 1 \
                and isinstance(gen.elt.ops[0], ast.NotEq):
            return "not any(element != position)"
    if isinstance(e, ast.Call) and call_name(e) == "all" and len(e.args) == 1:
        gen = e.args[0]
        if isinstance(gen, ast.Call) and call_name(gen) in ("list", "tuple") and len(gen.args) == 1:
            gen = gen.args[0]
        if isinstance(gen, (ast.GeneratorExp, ast.ListComp)) and len(gen.generators) == 1 and not gen.generators[0].ifs \
                and _pairs_with_positions(gen.generators[0].iter, idx_name, length_name) and isinstance(gen.elt, ast.Compare) and len(gen.elt.ops) == 1 \
                and isinstance(gen.elt.ops[0], ast.Eq):
            return "all(element == position)"
        if isinstance(gen, ast.Compare) and len(gen.ops) == 1 and isinstance(gen.ops[0], ast.Eq):
            for x, y in ((gen.left, gen.comparators[0]), (gen.comparators[0], gen.left)):
                if _whole_list(x, idx_name) and _range_of(y, length_name):
                    return f"all(idx == arange({length_name}))"
    if isinstance(e, ast.Name) and getattr(e, "_parent", None) is not None:
        defs = ctx.rd(fi).defs_reaching(e)
        vals = [assigned_value(d, e.id) if isinstance(d, (ast.Assign, ast.AnnAssign)) else None for d in defs]
        if len(vals) == 1 and vals[0] is not None and not isinstance(vals[0], ast.Constant):
            return _identity_proof(ctx, fi, vals[0], idx_name, length_name, depth + 1)
        # flag form: starts True, cleared inside a loop over the list where an element differs from its position
        if vals and all(isinstance(v, ast.Constant) and isinstance(v.value, bool) for v in vals):
            trues = [d for d, v in zip(defs, vals) if v.value is True]
            falses = [d for d, v in zip(defs, vals) if v.value is False]
            if trues and falses and all(_elementwise_mismatch(cfg, d, idx_name) for d in falses) \
                    and not any(_anc_is_loop_over(d, idx_name) for d in trues):
                return "element-wise comparison loop"
        return None
    if isinstance(e, ast.Call):
        g = _R.private_helper(ctx, fi, e)
        binding = _R.bind_args(e, g) if g is not None else None
        if binding:
            p_idx = [p for p, a in binding.items() if isinstance(a, ast.Name) and a.id == idx_name]
            p_len = [p for p, a in binding.items() if isinstance(a, ast.Name) and a.id == length_name]
            if len(p_idx) == 1 and len(p_len) == 1:
                gcfg = ctx.cfg(g)
                rets = [r for r in gcfg.stmts() if isinstance(r, ast.Return)]
                if rets and all(r.value is not None for r in rets):
                    consts = [r for r in rets if isinstance(r.value, ast.Constant) and isinstance(r.value.value, bool)]
                    if len(consts) == len(rets):
                        # for a, b in zip(idx, range(n)): if a != b: return False ... return True
                        falses = [r for r in rets if r.value.value is False]
                        trues = [r for r in rets if r.value.value is True]
                        if falses and len(trues) == 1 and all(_elementwise_mismatch(gcfg, r, p_idx[0]) for r in falses) \
                                and not _anc_is_loop_over(trues[0], p_idx[0]) and not any(True for _ in _guards_of(gcfg, trues[0])):
                            return f"element-wise comparison loop in {g.qualname}"
                        return None
                    if len(rets) == 1:
                        inner = _identity_proof(ctx, g, rets[0].value, p_idx[0], p_len[0], depth + 1)
                        return f"{inner} in {g.qualname}" if inner else None
    return None


def _unwrap_int(e):
    while isinstance(e, ast.Call) and call_name(e) in ("int", "float") and len(e.args) == 1 and not isinstance(e.func, ast.Attribute):
        e = e.args[0]
    return e


def _run_proof(ctx, fi, e, idx_name, depth=0):
    """Does the truth of `e` prove that every entry of the index list is the successor of the previous one (a run a, a+1, ..)?
    all(b - a == 1 for a, b in zip(idx[:-1], idx[1:])) / all(np.diff(idx) == 1) / a private helper returning one of these."""
    if depth > 2:
        return None
    if isinstance(e, ast.BoolOp) and isinstance(e.op, ast.And):
        for x in e.values:                                   # a conjunction proves what any of its conjuncts proves
            got = _run_proof(ctx, fi, x, idx_name, depth)
            if got:
                return got
        return None
    if isinstance(e, ast.Call) and call_name(e) == "bool" and len(e.args) == 1 and not isinstance(e.func, ast.Attribute):
        return _run_proof(ctx, fi, e.args[0], idx_name, depth)
    if isinstance(e, ast.Call) and call_name(e) == "all" and len(e.args) == 1:
        g = e.args[0]
        if isinstance(g, (ast.GeneratorExp, ast.ListComp)) and len(g.generators) == 1 and not g.generators[0].ifs:
            gen = g.generators[0]
            it = gen.iter
            if isinstance(it, ast.Call) and call_name(it) == "zip" and len(it.args) == 2 and isinstance(gen.target, ast.Tuple) \
                    and len(gen.target.elts) == 2 and all(isinstance(x, ast.Name) for x in gen.target.elts):
                def part(x):
                    """'head' for idx[:-1], 'tail' for idx[1:]"""
                    if isinstance(x, ast.Subscript) and _whole_list(x.value, idx_name) and isinstance(x.slice, ast.Slice) and x.slice.step is None:
                        lo, hi = x.slice.lower, x.slice.upper
                        if lo is None and isinstance(hi, ast.UnaryOp) and isinstance(hi.op, ast.USub) and isinstance(hi.operand, ast.Constant) \
                                and hi.operand.value == 1:
                            return "head"
                        if hi is None and isinstance(lo, ast.Constant) and lo.value == 1:
                            return "tail"
                    return None
                parts = [part(a) for a in it.args]
                if sorted(p for p in parts if p) == ["head", "tail"]:
                    prev = gen.target.elts[parts.index("head")].id
                    nxt = gen.target.elts[parts.index("tail")].id
                    c = g.elt
                    if isinstance(c, ast.Compare) and len(c.ops) == 1 and isinstance(c.ops[0], ast.Eq):
                        for l, r in ((c.left, c.comparators[0]), (c.comparators[0], c.left)):
                            l = _unwrap_int(l)
                            # next - prev == 1
                            if isinstance(l, ast.BinOp) and isinstance(l.op, ast.Sub) and isinstance(r, ast.Constant) and r.value == 1 \
                                    and isinstance(_unwrap_int(l.left), ast.Name) and _unwrap_int(l.left).id == nxt \
                                    and isinstance(_unwrap_int(l.right), ast.Name) and _unwrap_int(l.right).id == prev:
                                return "all(next - previous == 1)"
                            # next == prev + 1
                            rr = _unwrap_int(r)
                            if isinstance(l, ast.Name) and l.id == nxt and isinstance(rr, ast.BinOp) and isinstance(rr.op, ast.Add):
                                for a, b in ((rr.left, rr.right), (rr.right, rr.left)):
                                    if isinstance(_unwrap_int(a), ast.Name) and _unwrap_int(a).id == prev and isinstance(b, ast.Constant) and b.value == 1:
                                        return "all(next == previous + 1)"
        if isinstance(g, ast.Compare) and len(g.ops) == 1 and isinstance(g.ops[0], ast.Eq) and isinstance(g.left, ast.Call) \
                and call_name(g.left) == "diff" and len(g.left.args) == 1 and _whole_list(g.left.args[0], idx_name) \
                and isinstance(g.comparators[0], ast.Constant) and g.comparators[0].value == 1:
            return "all(diff(idx) == 1)"
    if isinstance(e, ast.Call):
        g = _R.private_helper(ctx, fi, e)
        binding = _R.bind_args(e, g) if g is not None else None
        if binding:
            p_idx = [p for p, a in binding.items() if isinstance(a, ast.Name) and a.id == idx_name]
            rets = [r for r in walk_shallow(g.node) if isinstance(r, ast.Return)]
            if len(p_idx) == 1 and len(rets) == 1 and rets[0].value is not None:
                inner = _run_proof(ctx, g, rets[0].value, p_idx[0], depth + 1)
                return f"{inner} in {g.qualname}" if inner else None
    return None


def _anc_is_loop_over(st, idx_name):
    return any(isinstance(a, ast.For) and _mentions(a.iter, idx_name) for a in _anc(st))


def _guards_of(cfg, st):
    """tests that decide whether `st` runs (other than loops being exhausted)"""
    for t, pol in _R.path_literals(cfg, st):
        yield t


def r6_indexing_dropped_only_for_identity(ctx, rid):
    """_get_indexed_var_str may return the bare variable for an index *list* (no indexing emitted) only when the list is
    exactly [0, 1, .., n-1]: with vectorize=True a full-length list that is a permutation must still be applied, otherwise
    inputs land on the wrong members of the merged population (vectorize=False has scalars and is unaffected).

    Every `return <variable parameter>` (also as an arm of a conditional expression) is classified by the tests that hold on the way
    to it (dominating ifs with their outcome, early returns, conditional expressions): tuple/str cases and the empty list are not
    index lists; everything else needs an element-wise identity proof among those tests (list equality with range(n), array_equal,
    all(a == b ...), a flag cleared in a comparison loop, or a private helper doing one of these)."""
    f = ctx.repo.get_func(IR, "_get_indexed_var_str")
    if len(f.params) < 3:
        raise AnalysisError(f"{rid}: signature of _get_indexed_var_str changed")
    pv, pi, pl = f.params[:3]
    cfg = ctx.cfg(f)
    rd = ctx.rd(f)
    label = "bare variable only for the identity index list"

    def arms(e):
        if isinstance(e, ast.IfExp):
            yield from arms(e.body)
            yield from arms(e.orelse)
        else:
            yield e

    def type_test(t):
        """'tuple' / 'str' / 'list' when t tests the type of the index argument"""
        if isinstance(t, ast.Compare) and len(t.ops) == 1 and isinstance(t.ops[0], (ast.Is, ast.Eq, ast.IsNot, ast.NotEq)) and isinstance(t.left, ast.Call) \
                and call_name(t.left) == "type" and len(t.left.args) == 1 and isinstance(t.left.args[0], ast.Name) and t.left.args[0].id == pi \
                and isinstance(t.comparators[0], ast.Name):
            return t.comparators[0].id if isinstance(t.ops[0], (ast.Is, ast.Eq)) else "not " + t.comparators[0].id
        if isinstance(t, ast.Call) and call_name(t) == "isinstance" and len(t.args) == 2 and isinstance(t.args[0], ast.Name) and t.args[0].id == pi \
                and isinstance(t.args[1], ast.Name):
            return t.args[1].id
        return None

    def nonempty_test(t):
        """True if t means 'the list has elements', False if it means 'the list is empty', None otherwise"""
        if isinstance(t, ast.Name) and t.id == pi:
            return True
        if isinstance(t, ast.Call) and call_name(t) == "len" and len(t.args) == 1 and isinstance(t.args[0], ast.Name) and t.args[0].id == pi:
            return True
        if isinstance(t, ast.Compare) and len(t.ops) == 1:
            l, op, r = t.left, t.ops[0], t.comparators[0]
            if isinstance(l, ast.Constant) and type(op) in _FLIP:
                l, r, op = r, l, _FLIP[type(op)]()
            if isinstance(l, ast.Call) and call_name(l) == "len" and len(l.args) == 1 and isinstance(l.args[0], ast.Name) and l.args[0].id == pi \
                    and isinstance(r, ast.Constant) and isinstance(r.value, int):
                table = {(ast.Gt, 0): True, (ast.GtE, 1): True, (ast.NotEq, 0): True, (ast.Eq, 0): False, (ast.Lt, 1): False, (ast.LtE, 0): False}
                return table.get((type(op), r.value))
        return None

    sites = []
    for r in cfg.stmts():
        if isinstance(r, ast.Return) and r.value is not None:
            for arm in arms(r.value):
                if isinstance(arm, ast.Name) and arm.id == pv and all(isinstance(d, ast.arguments) for d in rd.defs_reaching(arm)):
                    sites.append((r, arm))
    if not sites:
        ctx.ok(rid, f, f.node, "an index list is always applied (no shortcut)", label=label)
        return
    n_list = 0
    for r, arm in sites:
        lits = _R.path_literals(cfg, r, arm)
        kinds = [(type_test(t), pol) for t, pol in lits]
        if any(k in ("tuple", "str") and pol for k, pol in kinds):
            continue                                    # index range / name of an index variable: not an index list
        if any(nonempty_test(t) is (not pol) for t, pol in lits if nonempty_test(t) is not None):
            continue                                    # the empty index list
        n_list += 1
        facts = {"path_condition": [("" if pol else "not ") + norm(t) for t, pol in lits]}
        proof = None
        for t, pol in lits:
            proof = proof or _identity_proof(ctx, f, t if pol else ast.UnaryOp(op=ast.Not(), operand=t), pi, pl)
        if not proof:
            # a run of consecutive positions that starts at 0 and has the variable's length is the identity as well
            run = None
            starts_at_zero = full_length = False
            for t, pol in lits:
                if not pol:
                    continue
                run = run or _run_proof(ctx, f, t, pi)
                if isinstance(t, ast.Compare) and len(t.ops) == 1 and isinstance(t.ops[0], ast.Eq):
                    for x, y in ((t.left, t.comparators[0]), (t.comparators[0], t.left)):
                        xv = _unwrap_int(_inline(ctx, f, x) if isinstance(x, ast.Name) else x)
                        if isinstance(y, ast.Constant) and y.value == 0 and y.value is not False and isinstance(xv, ast.Subscript) \
                                and _whole_list(xv.value, pi) and isinstance(xv.slice, ast.Constant) and xv.slice.value == 0:
                            starts_at_zero = True
                        if isinstance(x, ast.Call) and call_name(x) == "len" and len(x.args) == 1 and _whole_list(x.args[0], pi) \
                                and isinstance(y, ast.Name) and y.id == pl:
                            full_length = True
            if run and starts_at_zero and full_length:
                proof = f"{run}, first position 0, length {pl}"
        if proof:
            ctx.ok(rid, f, r, f"indexing is dropped only after an element-wise identity proof ({proof})", facts, label=label)
            continue
        def case_test(t):
            """a test that only selects the case (type of the argument, emptiness), alone or combined"""
            if isinstance(t, ast.BoolOp):
                return all(case_test(x) for x in t.values)
            if isinstance(t, ast.UnaryOp) and isinstance(t.op, ast.Not):
                return case_test(t.operand)
            return type_test(t) is not None or nonempty_test(t) is not None
        about = [(t, pol) for t, pol in lits if _mentions(t, pi) and not case_test(t)]
        text = " and ".join(("" if pol else "not ") + ast.unparse(t) for t, pol in about) or "no test of the index list at all"

        def finite(t, depth=0):
            if isinstance(t, ast.Call) and depth < 2 and _R.private_helper(ctx, f, t) is not None:
                body = inline_helper_call(ctx, f, t)             # a one-expression helper: judge what it computes
                return body is not None and all(finite(x, depth + 1) for x in
                                                (body.values if isinstance(body, ast.BoolOp) and isinstance(body.op, ast.And) else [body]))
            for n in ast.walk(t):
                if isinstance(n, ast.Call) and not (call_name(n) in _FINITE_CALLS and not isinstance(n.func, ast.Attribute)
                                                    or (isinstance(n.func, ast.Attribute) and call_name(n) in ("arange", "prod", "sum", "min", "max"))):
                    return False
                if isinstance(n, (ast.BoolOp, ast.Lambda, ast.ListComp, ast.GeneratorExp, ast.SetComp, ast.DictComp, ast.Await, ast.NamedExpr)):
                    return False
                if isinstance(n, ast.Name) and n.id not in (pi, pl, pv) and n.id not in _FINITE_CALLS and n.id not in ("np", "_np", "numpy") \
                        and getattr(n, "_parent", None) is not None and not all(isinstance(d, ast.arguments) for d in rd.defs_reaching(n)):
                    return False                            # a computed local (flag, helper result): cannot judge it here
            return True
        if all(finite(t) for t, _ in about):
            ctx.violation(rid, f, r, f"the bare variable is returned for an index list under `{text}`, which inspects only the length / a few "
                                     f"elements: a full-length permutation (vectorised nodes addressed in another order) is mistaken for the identity "
                                     f"and its indexing is dropped", facts, label=label)
        else:
            raise AnalysisError(f"{rid}: guard of `return {pv}` in the list branch not recognised: {text!r}")
    if n_list == 0:
        ctx.ok(rid, f, f.node, "the bare variable is never returned for a non-empty index list (no shortcut)", label=label)


def r7_merge_key_is_the_operator_graph(ctx, rid):
    """cache_func merges a node into an already compiled vectorised node when their cache keys are equal.  The merged node
    evaluates the cached node's operator graph, so the key must identify the whole operator graph the cached value was built
    from: `hash(<that graph object>)` (or the object itself).  A hand-made aggregate of component hashes through a set /
    frozenset collapses duplicates and order - two node types with the same operator *forms* but different multiplicity would be
    merged (vectorize=True) although vectorize=False keeps them apart."""
    import ast as _ast
    from engine import AnalysisError as _AE
    from engine.util import call_name as _cn, single_def_value as _sdv
    from engine.srcmodel import walk_shallow as _ws, norm as _norm
    f = inlined(ctx, ctx.repo.get_func("pyrates/ir/node.py", "cache_func"))       # new-node / label helpers spliced in
    stores = [st for st in _ws(f.node) if isinstance(st, _ast.Assign) and len(st.targets) == 1 and isinstance(st.targets[0], _ast.Subscript)
              and isinstance(st.targets[0].value, _ast.Name) and st.targets[0].value.id == "node_cache"]
    reads = [n for n in _ws(f.node) if isinstance(n, _ast.Subscript) and isinstance(n.ctx, _ast.Load) and isinstance(n.value, _ast.Name)
             and n.value.id == "node_cache"]
    if len(stores) != 1 or not reads:
        raise _AE(f"{rid}: node_cache store/lookup in cache_func not recognised")
    st = stores[0]
    key_names = {_ast.unparse(st.targets[0].slice)} | {_ast.unparse(r.slice) for r in reads}
    if len(key_names) != 1 or not isinstance(st.targets[0].slice, _ast.Name):
        raise _AE(f"{rid}: node_cache is indexed by several expressions {sorted(key_names)}")
    kdef = _sdv(ctx, f, reads[0].slice)
    if kdef is None:
        raise _AE(f"{rid}: definition of the cache key `{reads[0].slice.id}` not found")
    for _ in range(4):          # follow plain aliases: h = graph_key; graph_key = hash(op_graph)
        if isinstance(kdef, _ast.Name):
            nxt = _sdv(ctx, f, kdef)
            if nxt is None:
                break
            kdef = nxt
    # the object the cached value is built from: operators= argument of the constructor whose result is stored
    vdef = _sdv(ctx, f, st.value) if isinstance(st.value, _ast.Name) else st.value
    built_from = None
    if isinstance(vdef, _ast.Call):
        for k in vdef.keywords:
            if k.arg == "operators" and isinstance(k.value, _ast.Name):
                built_from = k.value.id
    if built_from is None:
        raise _AE(f"{rid}: cannot find the operator graph the cached node is constructed from")
    facts = {"key": _ast.unparse(kdef), "value_built_from": built_from}
    direct = (isinstance(kdef, _ast.Call) and _cn(kdef) == "hash" and len(kdef.args) == 1 and isinstance(kdef.args[0], _ast.Name)
              and kdef.args[0].id == built_from) or (isinstance(kdef, _ast.Name) and kdef.id == built_from)
    if direct:
        ctx.ok(rid, f, st, f"nodes are merged under the hash of the operator graph `{built_from}` the cached node is built from", facts,
               label="merge key identifies the whole operator graph")
        return
    lossy = [n for n in _ast.walk(kdef) if isinstance(n, _ast.Call) and _cn(n) in ("frozenset", "set", "sum", "min", "max", "any", "all", "len")]
    lossy += [n for n in _ast.walk(kdef) if isinstance(n, (_ast.Set, _ast.SetComp))]
    lossy += [n for n in _ast.walk(kdef) if isinstance(n, _ast.BinOp) and isinstance(n.op, (_ast.BitXor, _ast.Add, _ast.BitOr, _ast.BitAnd))]
    if lossy:
        ctx.violation(rid, f, st, f"the merge key `{_ast.unparse(kdef)}` aggregates component hashes through an order- and duplicate-collapsing "
                                  f"operation instead of hashing the operator graph `{built_from}`: node types with the same operator forms but "
                                  f"different multiplicity/order collide and are merged into one vectorised node (vectorize=True differs from "
                                  f"vectorize=False)", facts, label="merge key identifies the whole operator graph")
    else:
        raise _AE(f"{rid}: unrecognised cache key `{_ast.unparse(kdef)}` (neither hash({built_from}) nor a recognised lossy aggregate)")



def r_perm_identity(ctx, rid):
    """Index-dropping shortcuts must be guarded by an exact identity test of the index list (shared lint, see _identity_lint)."""
    from ._identity_lint import permutation_test_as_identity
    permutation_test_as_identity(ctx, rid)


# ------------------------------------------------------------------------------------------------
# R9  slots of an edge group inside a shared, growing vectorized IR
# ------------------------------------------------------------------------------------------------

def _returns_applied_ir(ctx, g, depth=0):
    """g hands back the IR produced by ONE `<template>.apply(..., vectorize=...)` call (which goes through cache_func: with
    vectorize=True the IR is the cached one, shared by every caller with the same operator graph, and its length advances by one),
    either itself or as a plain wrapper `return <such a call>`."""
    if depth > 2:
        return False
    body = [st for st in g.node.body if not (isinstance(st, ast.Expr) and isinstance(st.value, ast.Constant))]
    if len(body) == 1 and isinstance(body[0], ast.Return) and isinstance(body[0].value, ast.Call):
        h = _R.private_helper(ctx, g, body[0].value)
        if h is not None and _returns_applied_ir(ctx, h, depth + 1):
            return True
    if any(isinstance(x, (ast.For, ast.While)) and any(isinstance(c, ast.Call) and call_name(c) == "apply" for c in ast.walk(x))
           for x in walk_shallow(g.node)):
        return False
    rets = [r.value for r in walk_shallow(g.node) if isinstance(r, ast.Return) and r.value is not None]
    if not rets:
        return False
    for v in rets:
        cur = v
        ok = False
        for _ in range(4):
            if isinstance(cur, ast.Name):
                defs = ctx.rd(g).defs_reaching(cur)
                if len(defs) != 1 or not isinstance(defs[0], ast.Assign):
                    break
                d = defs[0]
                val = assigned_value(d, cur.id)
                if val is None and isinstance(d.value, ast.Call) and isinstance(d.targets[0], ast.Tuple) and d.targets[0].elts \
                        and isinstance(d.targets[0].elts[0], ast.Name) and d.targets[0].elts[0].id == cur.id:
                    val = d.value                          # ir, labels, ranges = template.apply(...)
                if val is None:
                    break
                cur = val
                continue
            if isinstance(cur, ast.Call) and call_name(cur) == "apply" and any(k.arg == "vectorize" for k in cur.keywords):
                ok = True
            break
        if not ok:
            return False
    return True


def r9_shared_ir_slots(ctx, rid):
    """CircuitTemplate.apply wires the n edges of one edge group to n slots of the vectorized edge IR it obtained for them.  With
    vectorize=True that IR comes out of the node cache and is shared by every group with a structurally equal edge template; each
    application extends it by one slot and advances its `length`.  The slots of the current group are therefore the LAST n ones,
    [length - n, length), read AFTER the group's own extensions - never [0, n) and never a range that ignores the IR's length: those
    are the slots of the first group that used the template (vectorize=False has one fresh IR per edge and would not notice)."""
    import sympy as sp
    from engine.symx import to_sympy, Unsupported
    cls = ctx.repo.get_class(FE, "CircuitTemplate")
    f0 = get_method(ctx, cls, "apply")
    members, todo = [f0], [(f0, 0)]
    while todo:
        fx, dpt = todo.pop()
        if dpt >= 2:
            continue
        for c in walk_shallow(fx.node):
            if isinstance(c, ast.Call):
                g = _R.private_helper(ctx, fx, c)
                if g is not None and all(g.qual != m.qual for m in members):
                    members.append(g)
                    todo.append((g, dpt + 1))
    _ts = to_sympy            # calls and subscripts are atoms of the arithmetic (len(source_idx), shape[0] ...), see `opaque` below
    # the primitive "apply the edge template once" helpers stay calls; every other private helper (a loop that applies the template
    # n times, the whole edge-group block) is spliced in, so that extensions and slot ranges are seen side by side
    keep = tuple(sorted({m.name for m in cls.methods.values() if _returns_applied_ir(ctx, m)}
                        | {m.name for m in cls.methods.values() if {"source_idx", "target_idx"} & set(m.params)}))   # the sinks' interface
    n_sinks = 0
    for f_orig in members:
        f = inlined(ctx, f_orig, keep=keep)
        cfg, rd = ctx.cfg(f), ctx.rd(f)
        # locals that hold a (possibly shared) vectorized IR, with the statements that extend it
        ir_defs = {}
        for st in cfg.stmts():
            if isinstance(st, ast.Assign) and len(st.targets) == 1 and isinstance(st.targets[0], ast.Name) and isinstance(st.value, ast.Call):
                g = _R.private_helper(ctx, f, st.value)
                if g is not None and _returns_applied_ir(ctx, g):
                    ir_defs.setdefault(st.targets[0].id, []).append(st)
        # plain aliases of such a local (`edge_ir = result` left behind by the splicing) denote the same IR
        alias = {nm: nm for nm in ir_defs}
        changed = True
        while changed:
            changed = False
            for st in cfg.stmts():
                if isinstance(st, ast.Assign) and len(st.targets) == 1 and isinstance(st.targets[0], ast.Name) and isinstance(st.value, ast.Name) \
                        and st.value.id in alias and st.targets[0].id not in alias:
                    alias[st.targets[0].id] = alias[st.value.id]
                    changed = True
        if len(set(alias.values())) > 1:
            roots = sorted(set(alias.values()))
            merged = [d for r in roots for d in ir_defs[r]]
            # several result locals of one spliced helper that end up in one name: one IR
            tops = {nm for nm in alias if not any(isinstance(st, ast.Assign) and isinstance(st.value, ast.Name) and st.value.id == nm
                                                   and isinstance(st.targets[0], ast.Name) for st in cfg.stmts())}
            if len(tops) == 1:
                ir_defs = {roots[0]: merged}
                alias = {nm: roots[0] for nm in alias}
        if not ir_defs:
            continue
        # sinks: index lists handed over as source_idx= / target_idx= whose value is a range
        sinks = []
        for c in walk_shallow(f.node):
            if not isinstance(c, ast.Call):
                continue
            for k in c.keywords:
                if k.arg in ("source_idx", "target_idx"):
                    v = k.value
                    origin = v
                    at = stmt_of(cfg, c)
                    if isinstance(v, ast.Name):
                        ds = rd.defs_reaching(v)
                        if len(ds) != 1 or assigned_value(ds[0], v.id) is None:
                            continue
                        at, v = ds[0], assigned_value(ds[0], v.id)
                    while isinstance(v, ast.Call) and call_name(v) in ("list", "tuple", "asarray", "array") and len(v.args) == 1:
                        v = v.args[0]
                    if isinstance(v, ast.Call) and call_name(v) in ("range", "arange") and v.args and not v.keywords:
                        sinks.append((c, k, origin, v, at))
        for c, k, origin, rng, at in sinks:
            # which IR: the one whose extension dominates this use
            cands = [nm for nm, ds in ir_defs.items() if any(cfg.dominates(d, stmt_of(cfg, c)) or cfg.dominates(d, at) for d in ds)
                     or any(_R._reach_forward(cfg, d, at) for d in ds)]
            mentioned = {alias[x.id] for x in ast.walk(rng) if isinstance(x, ast.Name) and x.id in alias}
            if len(mentioned) == 1:
                cands = sorted(mentioned)
            if len(cands) != 1:
                continue                      # an index range that has nothing to do with a shared IR
            E = cands[0]
            n_sinks += 1
            label = _c16._uniq(ctx, rid, f, f"slots {k.arg}={norm(origin)}")
            L = sp.Symbol("<IR>.length")
            names_E = {nm for nm, r in alias.items() if r == E}

            def to_sympy(e, names_E=names_E, depth=0):
                def opaque(n):
                    if isinstance(n, ast.Attribute) and n.attr == "length" and isinstance(n.value, ast.Name) and n.value.id in names_E:
                        return sp.Symbol("<IR>.length")
                    if isinstance(n, (ast.Call, ast.Subscript)):
                        return sp.Symbol(ast.unparse(n))       # len(source_idx), shape[0] ... are atoms of the arithmetic
                    if isinstance(n, ast.Name) and depth < 4 and getattr(n, "_parent", None) is not None and n.id not in names_E:
                        v = single_def_value(ctx, f, n)         # n = len(source_idx); start = stop - n
                        if v is not None:
                            return to_sympy(v, names_E, depth + 1)
                    return None
                return _ts(e, leaf=opaque)
            args = list(rng.args)
            lo_e, hi_e = (ast.Constant(value=0), args[0]) if len(args) == 1 else (args[0], args[1])
            try:
                lo_s = to_sympy(lo_e)
                hi_s = to_sympy(hi_e)
            except Unsupported as e:
                raise AnalysisError(f"{rid}: cannot read the slot range `{norm(rng)}` in {f.qual}: {e}")
            facts = {"range": norm(rng), "ir": E, "lower": str(lo_s), "upper": str(hi_s), "extensions": [norm(d)[:80] for d in ir_defs[E]]}
            if L not in lo_s.free_symbols and L not in hi_s.free_symbols:
                ctx.violation(rid, f, at, f"the slots `{norm(rng)}` handed over as {k.arg} do not depend on `{E}.length`: `{E}` may be the cached "
                                          f"IR shared with earlier edge groups (its length accumulates), so this group would be wired to the "
                                          f"slots of the first group instead of the slots it has just appended", facts, label=label)
                continue
            # (a) read after the group's own extensions
            late = [d for d in ir_defs[E] if d is not at and _R._reach_forward(cfg, at, d)]
            if late:
                ctx.violation(rid, f, at, f"`{norm(rng)}` reads `{E}.length` before `{norm(late[0])[:70]}` extends the IR for this group: the range "
                                          f"names the slots of the previous group", facts, label=label)
                continue
            # (b) upper end is the length
            dhi = sp.simplify(hi_s - L)
            if dhi != 0:
                if dhi.is_number:
                    ctx.violation(rid, f, at, f"the slot range `{norm(rng)}` ends at `{E}.length` {'+' if dhi > 0 else '-'} {abs(dhi)}: it is shifted "
                                              f"against the slots this group appended", facts, label=label)
                    continue
                raise AnalysisError(f"{rid}: upper end `{norm(hi_e)}` of the slot range in {f.qual} is not `{E}.length` (unrecognised form)")
            # (c) width = number of extensions made for this group
            width = sp.simplify(L - lo_s)
            count = None
            for d in ir_defs[E]:
                loops = [a for a in _anc(d) if isinstance(a, ast.For) and not contains(a, at)]      # a loop that only counts extensions
                if not loops:
                    continue
                outside = [d2 for d2 in ir_defs[E] if not contains(loops[0], d2)]              # the first extension made in front of it
                it = loops[0].iter
                if isinstance(it, ast.Call) and call_name(it) == "range" and not it.keywords:
                    try:
                        if len(it.args) == 2:
                            cnt = to_sympy(it.args[1]) - to_sympy(it.args[0]) + (1 if outside else 0)
                        elif len(it.args) == 1:
                            cnt = to_sympy(it.args[0]) + (1 if outside else 0)
                        else:
                            continue
                    except Unsupported:
                        continue
                    count = sp.simplify(cnt)
            if count is None:
                count = sp.Integer(1) if len(ir_defs[E]) == 1 else None
            facts.update(width=str(width), count=str(count))
            if count is None:
                raise AnalysisError(f"{rid}: cannot count how often `{E}` is extended for one edge group in {f.qual} (unrecognised form)")
            diff = sp.simplify(width - count)
            if diff == 0:
                ctx.ok(rid, f, at, f"the group's slots are the last {width} of `{E}` ([length - {width}, length)), read after its {count} extension(s)",
                       facts, label=label)
            elif diff.is_number or width.free_symbols != count.free_symbols:
                ctx.violation(rid, f, at, f"the slot range `{norm(rng)}` spans {width} slots but the group extended `{E}` {count} time(s): the edges are "
                                          f"wired to slots that belong (partly) to another group", facts, label=label)
            else:
                raise AnalysisError(f"{rid}: cannot compare the width `{width}` of `{norm(rng)}` with the number of extensions `{count}`")
    if n_sinks == 0:
        raise AnalysisError(f"{rid}: no slot range of a shared edge IR found in CircuitTemplate.apply and its helpers (anchor vanished)")


# ------------------------------------------------------------------------------------------------
# R10  every variable record registered in a loop owns its value object
# ------------------------------------------------------------------------------------------------

_FRESH_CALLS = {"zeros", "ones", "empty", "full", "zeros_like", "ones_like", "empty_like", "full_like", "arange", "linspace", "array", "copy",
                "deepcopy", "list", "dict", "set", "tolist", "repeat", "tile", "concatenate", "stack", "hstack", "vstack", "eye", "identity",
                "sorted", "unique", "cumsum", "diff", "round", "abs", "dot", "matmul"}
_ALIASING_CALLS = {"asarray", "asanyarray", "atleast_1d", "squeeze", "reshape", "ravel", "view", "transpose", "ascontiguousarray"}
_SCALAR_CALLS = {"float", "int", "bool", "str", "len", "sum", "min", "max", "complex", "tuple", "prod"}


def _value_origin(ctx, f, e, loop, depth=0):
    """Where does the object denoted by `e` come into being, relative to `loop`?
    'scalar'  an immutable value (number, string, tuple)
    'fresh'   an object created when the expression is evaluated inside the loop (allocation call, display, comprehension, [x] * n)
    'element' bound per iteration by the loop itself or computed inside it from such a value
    'shared'  ONE mutable object allocated by a statement outside the loop (returned with that statement)
    'other'   a caller's / attribute's object or a form that is not recognised (no conclusion)"""
    if depth > 5:
        return "other", None
    if isinstance(e, ast.Constant) or isinstance(e, ast.JoinedStr):
        return "scalar", None
    if isinstance(e, ast.Tuple):
        return "scalar", None
    if isinstance(e, ast.UnaryOp):
        return _value_origin(ctx, f, e.operand, loop, depth + 1)
    if isinstance(e, (ast.List, ast.Dict, ast.Set, ast.ListComp, ast.DictComp, ast.SetComp)):
        return "fresh", None
    if isinstance(e, ast.BinOp):
        if isinstance(e.op, ast.Mult) and (isinstance(e.left, ast.List) or isinstance(e.right, ast.List)):
            return "fresh", None
        kinds = [_value_origin(ctx, f, x, loop, depth + 1)[0] for x in (e.left, e.right)]
        # arithmetic yields a new object wherever it is evaluated; whether that object is mutable (an array) is not known
        return ("scalar" if all(k == "scalar" for k in kinds) else "computed"), None
    if isinstance(e, ast.IfExp):
        res = [_value_origin(ctx, f, x, loop, depth + 1) for x in (e.body, e.orelse)]
        for want in ("shared", "other", "element", "computed", "fresh"):
            for r in res:
                if r[0] == want:
                    return r
        return "scalar", None
    if isinstance(e, ast.Call):
        cn = call_name(e)
        if cn in _SCALAR_CALLS and not isinstance(e.func, ast.Attribute):
            return "scalar", None
        if cn in _ALIASING_CALLS:
            base = e.func.value if isinstance(e.func, ast.Attribute) and not (isinstance(e.func.value, ast.Name) and e.func.value.id in _R.MODULE_ALIASES) \
                else (e.args[0] if e.args else None)
            if base is None:
                return "other", None
            k, at = _value_origin(ctx, f, base, loop, depth + 1)
            return ("fresh" if k in ("scalar", "computed") else k), at
        if cn in _FRESH_CALLS:
            return "fresh", None
        return "other", None
    if isinstance(e, ast.Subscript):
        k, at = _value_origin(ctx, f, e.value, loop, depth + 1)      # an element / a view of the base
        if k == "shared" and not isinstance(e.slice, ast.Slice):
            return "other", None                                     # one element of an outside container: may well be a number
        return k, at
    if isinstance(e, ast.Name):
        if getattr(e, "_parent", None) is None:
            return "other", None
        defs = ctx.rd(f).defs_reaching(e)
        if not defs:
            return "other", None
        res = []
        for d in defs:
            if isinstance(d, ast.arguments):
                res.append(("other", None))
            elif isinstance(d, (ast.For, ast.AsyncFor)):
                res.append(("element", None) if (d is loop or contains(loop, d)) else ("other", None))
            elif isinstance(d, (ast.Assign, ast.AnnAssign)):
                v = assigned_value(d, e.id)
                if v is None:
                    res.append(("element", None) if contains(loop, d) else ("other", None))
                    continue
                inside = contains(loop, d)
                k, at = _value_origin(ctx, f, v, loop if inside else d, depth + 1) if inside else _value_origin(ctx, f, v, d, depth + 1)
                if inside:
                    res.append((k, at))
                else:
                    # created by a statement that runs once for all iterations of the loop
                    res.append(("shared", d) if k == "fresh" else (("scalar", None) if k == "scalar" else
                                                                   (("shared", at) if k == "shared" else ("other", None))))
            elif isinstance(d, ast.AugAssign):
                res.append(("fresh", None) if contains(loop, d) else ("other", None))
            else:
                res.append(("other", None))
        for want in ("shared", "other", "element", "computed", "fresh"):
            for r in res:
                if r[0] == want:
                    return r
        return "scalar", None
    if isinstance(e, ast.Attribute):
        return "other", None
    return "other", None


def r10_records_own_their_value(ctx, rid):
    """The lowering registers, in loops over sources / delay chains / edge variables, one variable record `{'value': ..., 'shape': ...}`
    per generated name.  Each record must own its value object: with vectorize=True the generated code writes into these arrays by
    index (`x_in0[idx] = ...`), the backend keeps the array it is handed when the dtype already fits (np.asarray returns its argument)
    and deepcopy preserves sharing, so ONE array allocated in front of the loop and stored under several names makes all those names
    alias one buffer - later writes overwrite earlier ones (vectorize=False re-binds scalars and does not notice).  Decided with reaching
    definitions on the inlined views of NetworkGraph._generate_edge_equation, _add_edge_buffer and _add_matrix_delay: for every record
    whose key varies with an enclosing loop, the object under 'value' is an immutable scalar, is created inside that loop, or is the
    loop's own element - never a mutable allocation made by a statement outside the loop."""
    cls = ctx.repo.get_class(IR, "NetworkGraph")
    n_rec = 0
    for mname in ("_generate_edge_equation", "_add_edge_buffer", "_add_matrix_delay"):
        f_orig = get_method(ctx, cls, mname)
        members = [f_orig]
        for c in walk_shallow(_R.view(ctx, f_orig).node):
            if isinstance(c, ast.Call):
                g = _R.private_helper(ctx, _R.view(ctx, f_orig), c)
                if g is not None and all(g.qual != m.qual for m in members) and g.name not in _R.VIEW_KEEP:
                    members.append(g)
        for fo in members:
            f = _R.view(ctx, fo)
            recs = sorted((d for d in ast.walk(f.node) if isinstance(d, ast.Dict) and any(isinstance(k, ast.Constant) and k.value == "value" for k in d.keys)),
                          key=lambda d: (d.lineno, d.col_offset))
            for d in recs:
                val = next(v for k, v in zip(d.keys, d.values) if isinstance(k, ast.Constant) and k.value == "value")
                # the key the record is registered under
                p = parent(d)
                key = None
                if isinstance(p, ast.Assign) and p.value is d and len(p.targets) == 1 and isinstance(p.targets[0], ast.Subscript):
                    key = p.targets[0].slice
                elif isinstance(p, ast.Dict) and any(v is d for v in p.values):
                    key = p.keys[[i for i, v in enumerate(p.values) if v is d][0]]
                elif isinstance(p, ast.Call) and call_name(p) == "setdefault" and len(p.args) == 2 and p.args[1] is d:
                    key = p.args[0]
                if key is None:
                    continue
                loops = [a for a in _anc(d) if isinstance(a, (ast.For, ast.While))]
                if not loops:
                    continue
                rd = ctx.rd(f)
                Lk = None
                for L in loops:                     # innermost first
                    dep = False
                    for nm in ast.walk(key):
                        if isinstance(nm, ast.Name) and isinstance(nm.ctx, ast.Load):
                            for dd in rd.defs_reaching(nm):
                                if dd is L or (isinstance(dd, ast.AST) and contains(L, dd)):
                                    dep = True
                    if dep:
                        Lk = L
                        break
                if Lk is None:
                    continue                        # the same key in every iteration: one record, nothing to share
                kind, at = _value_origin(ctx, f, val, Lk)
                if kind == "other":
                    continue                        # a caller's object or an unrecognised expression: no conclusion either way
                n_rec += 1
                st = stmt_of(ctx.cfg(f), d) or d
                label = _c16._uniq(ctx, rid, f, f"record value: {norm(key)[:40]}: {norm(val)[:50]}")
                facts = {"key": norm(key), "value": norm(val), "loop": norm(Lk)[:80], "origin": kind}
                if kind == "shared":
                    ctx.violation(rid, f, st, f"the records registered under `{norm(key)}` in the loop `{norm(Lk)[:60]}` all hold the ONE object created by "
                                              f"`{norm(at)[:70]}` outside that loop as their 'value': the generated variables alias a single buffer, so an "
                                              f"indexed write to one of them (vectorized code) shows up in all of them", facts, label=label)
                else:
                    why = {"scalar": "an immutable scalar", "fresh": "created inside the iteration that registers it",
                           "computed": "computed inside the iteration that registers it", "element": "this iteration's own element"}[kind]
                    ctx.ok(rid, f, st, f"the record's value is {why}", facts, label=label, nontrivial=kind != "scalar")
    if n_rec < 4:
        raise AnalysisError(f"{rid}: only {n_rec} variable records registered in loops were found (anchor vanished)")


# ------------------------------------------------------------------------------------------------
# R11  buffer slots are merged only under a key that covers every per-slot quantity
# ------------------------------------------------------------------------------------------------

def r11_slot_merge_key(ctx, rid):
    """NetworkGraph._add_edge_buffer builds one buffer slot (ring-buffer read-out / gamma-kernel chain element) per delayed projection
    from parallel per-projection sequences (source element, delay, spread ...).  With vectorize=True it sees all projections of a
    source variable at once; when it merges projections into shared slots (a first-occurrence registry keyed by some tuple, after
    which the sequences are reduced to one entry per slot), two projections may share a slot only if they agree in EVERY sequence
    that is reduced that way - those are exactly the quantities the slot's dynamics are built from.  A key that leaves one of them
    out gives the second projection the first one's value of it (vectorize=False builds every edge on its own and differs).
    Decided structurally: registry dict + membership test + first-occurrence list, the sequences filtered by that list, and the
    sequences the key's components are drawn from (zip targets / subscripts by the loop index, through local aliases)."""
    cls = ctx.repo.get_class(IR, "NetworkGraph")
    f_orig = get_method(ctx, cls, "_add_edge_buffer")
    f = _R.view(ctx, f_orig)
    cfg, rd = ctx.cfg(f), ctx.rd(f)
    merges = []
    for loop in [l for l in walk_shallow(f.node) if isinstance(l, ast.For)]:
        for test in [t for t in walk_shallow(loop) if isinstance(t, ast.If) and in_body(loop, t)]:
            c = test.test
            pol = True
            while isinstance(c, ast.UnaryOp) and isinstance(c.op, ast.Not):
                c, pol = c.operand, not pol
            if not (isinstance(c, ast.Compare) and len(c.ops) == 1 and isinstance(c.ops[0], (ast.In, ast.NotIn)) and isinstance(c.comparators[0], ast.Name)):
                continue
            absent_body = test.body if (isinstance(c.ops[0], ast.NotIn) == pol) else test.orelse
            M = c.comparators[0].id
            regs = [st for b in absent_body for st in [b] + list(walk_shallow(b)) if isinstance(st, ast.Assign) and len(st.targets) == 1
                    and isinstance(st.targets[0], ast.Subscript) and isinstance(st.targets[0].value, ast.Name) and st.targets[0].value.id == M
                    and ast.dump(st.targets[0].slice) == ast.dump(c.left)]
            firsts = [st.value.func.value.id for b in absent_body for st in [b] + list(walk_shallow(b))
                      if isinstance(st, ast.Expr) and isinstance(st.value, ast.Call) and isinstance(st.value.func, ast.Attribute)
                      and st.value.func.attr == "append" and isinstance(st.value.func.value, ast.Name)]
            if regs and firsts:
                merges.append((loop, test, c.left, M, firsts))
    if not merges:
        ctx.ok(rid, f_orig, f_orig.node, "projections are never merged into shared buffer slots: every delayed projection gets a slot of its own",
               label="slot merge key covers the per-slot quantities", nontrivial=False)
        return
    for loop, test, key, M, firsts in merges:
        kexpr = key
        if isinstance(key, ast.Name):
            kexpr = single_def_value(ctx, f, key)
            if kexpr is None:
                raise AnalysisError(f"{rid}: the slot key `{key.id}` has no single definition in {f.qual} (unrecognised form)")
        # sequences reduced to one entry per slot through the first-occurrence list
        reduced = {}
        for st in cfg.stmts():
            if not (isinstance(st, ast.Assign) and len(st.targets) == 1 and isinstance(st.targets[0], ast.Name)) or contains(loop, st):
                continue
            v = st.value
            base = None
            if isinstance(v, ast.ListComp) and len(v.generators) == 1 and isinstance(v.generators[0].iter, ast.Name) and v.generators[0].iter.id in firsts \
                    and isinstance(v.elt, ast.Subscript) and isinstance(v.elt.value, ast.Name):
                base = v.elt.value.id
            elif isinstance(v, ast.Subscript) and isinstance(v.value, ast.Name) and isinstance(v.slice, ast.Name) and v.slice.id in firsts:
                base = v.value.id
            elif isinstance(v, ast.Call) and call_name(v) in ("take", "asarray", "array") and any(isinstance(x, ast.Name) and x.id in firsts for x in ast.walk(v)):
                raise AnalysisError(f"{rid}: `{norm(st)}` reduces a sequence by the first-occurrence list in an unrecognised form")
            if base is not None:
                reduced.setdefault(base, st)
        if not reduced:
            raise AnalysisError(f"{rid}: slots are merged under `{norm(kexpr)}` in {f.qual} but no sequence is reduced to one entry per slot "
                                f"(cannot tell what a slot is built from)")
        # which sequences do the key's components come from?
        it = loop.iter
        idx_names, tg = set(), loop.target
        if isinstance(it, ast.Call) and call_name(it) == "enumerate" and it.args and isinstance(tg, ast.Tuple) and len(tg.elts) == 2:
            if isinstance(tg.elts[0], ast.Name):
                idx_names.add(tg.elts[0].id)
            it, tg = it.args[0], tg.elts[1]
        elem_of = {}                                  # element name -> sequence expression
        if isinstance(it, ast.Call) and call_name(it) == "zip" and isinstance(tg, ast.Tuple) and len(tg.elts) == len(it.args):
            for e, sq in zip(tg.elts, it.args):
                if isinstance(e, ast.Name):
                    elem_of[e.id] = sq
        elif isinstance(it, ast.Call) and call_name(it) == "range" and isinstance(tg, ast.Name):
            idx_names.add(tg.id)
        elif isinstance(tg, ast.Name):
            elem_of[tg.id] = it

        def names_behind(e, depth=0):
            """names the sequence expression is (conditionally) made of, through single-step local definitions"""
            out = set()
            for x in ast.walk(e):
                if isinstance(x, ast.Name) and isinstance(x.ctx, ast.Load):
                    out.add(x.id)
                    if depth < 3 and getattr(x, "_parent", None) is not None:
                        for d in rd.defs_reaching(x):
                            v = assigned_value(d, x.id) if isinstance(d, (ast.Assign, ast.AnnAssign)) else None
                            if v is not None:
                                out |= names_behind(v, depth + 1)
            return out
        covered = set()
        for x in ast.walk(kexpr):
            if isinstance(x, ast.Name) and x.id in elem_of:
                covered |= names_behind(elem_of[x.id])
            if isinstance(x, ast.Subscript) and isinstance(x.value, ast.Name) and isinstance(x.slice, ast.Name) and x.slice.id in idx_names:
                covered |= names_behind(x.value)
        for base, st in sorted(reduced.items(), key=lambda kv: kv[1].lineno):
            label = f"slot merge key covers `{base}`"
            facts = {"key": norm(kexpr), "reduced_sequences": sorted(reduced), "key_draws_from": sorted(covered & set(reduced))}
            if base in covered:
                ctx.ok(rid, f, st, f"projections share a slot only if they agree in `{base}` (a component of the key `{norm(kexpr)}`)", facts, label=label)
            else:
                ctx.violation(rid, f, st, f"`{norm(st)[:80]}` keeps one `{base}` entry per shared slot, but the slot key `{norm(kexpr)}` does not depend on "
                                          f"`{base}`: projections that differ in `{base}` are merged and all get the first one's value, so the "
                                          f"vectorized network (all projections at once) differs from the edge-by-edge one", facts, label=label)


# ------------------------------------------------------------------------------------------------
# R12  weights of parallel edges are summed: no buffered fancy-index accumulation
# ------------------------------------------------------------------------------------------------

_R12_CONTROL = '''
def positive(tidx, sidx, weight):
    tu, rows = np.unique(tidx, return_inverse=True)
    su, cols = np.unique(sidx, return_inverse=True)
    mat = np.zeros((len(tu), len(su)))
    mat[rows.ravel(), cols.ravel()] += weight
    return mat


def negative_loop(tidx, sidx, weight, tu, su):
    mat = np.zeros((len(tu), len(su)))
    for t, s, w in zip(tidx, sidx, weight):
        row = np.argwhere(tu == t).squeeze()
        col = np.argwhere(su == s).squeeze()
        mat[row, col] += w
    return mat


def negative_add_at(tidx, sidx, weight):
    tu, rows = np.unique(tidx, return_inverse=True)
    su, cols = np.unique(sidx, return_inverse=True)
    mat = np.zeros((len(tu), len(su)))
    np.add.at(mat, (rows.ravel(), cols.ravel()), weight)
    return mat
'''


def r12_parallel_edges_are_summed(ctx, rid):
    """The entry of the (targets x sources) weight matrix for one (target, source) pair is the SUM of the weights of all edges
    between that pair - several parallel edges are legal, and the node-by-node compilation (one 1x1 group per pair) sums them.  When
    the vectorized path accumulates the edge weights into the matrix, every edge must contribute: `M[rows, cols] += w` with index
    ARRAYS is a buffered read-modify-write in numpy and applies only one contribution per distinct position, so parallel edges lose
    all but one weight (vectorize=True differs from vectorize=False).  A per-edge loop, np.add.at or bincount are fine."""
    from engine.srcmodel import FunctionInfo, set_parents
    irm = ctx.repo.get_module(IR)
    tree = ast.parse(_R12_CONTROL)
    set_parents(tree)
    ctrl = {fn.name: FunctionInfo(name=fn.name, qualname=f"<C04-R12 control>.{fn.name}", module=irm, node=fn) for fn in tree.body
            if isinstance(fn, ast.FunctionDef)}
    got = {k: len(_R.buffered_fancy_accumulations(ctx, v)) for k, v in ctrl.items()}
    if got != {"positive": 1, "negative_loop": 0, "negative_add_at": 0}:
        raise AnalysisError(f"{rid}: the buffered-accumulation recogniser failed its controls: {got}")
    f0 = ctx.repo.get_func(IR, "NetworkGraph._generate_edge_equation")
    members, todo = [f0], [(f0, 0)]
    while todo:
        fx, dpt = todo.pop()
        if dpt >= 3:
            continue
        for c in walk_shallow(fx.node):
            if isinstance(c, ast.Call):
                g = _R.private_helper(ctx, fx, c)
                if g is not None and all(g.qual != m.qual for m in members):
                    members.append(g)
                    todo.append((g, dpt + 1))
    n_bad = 0
    for fx in members:
        bad = _R.buffered_fancy_accumulations(ctx, fx)
        bad_ids = {id(st) for st, _ in bad}
        for st, ix in bad:
            n_bad += 1
            ctx.violation(rid, fx, st, f"`{norm(st)}` accumulates through the index array `{norm(ix)}`: numpy applies `+=` once per distinct "
                                       f"position, so of several edges between the same (target, source) pair only one weight survives, "
                                       f"whereas the node-by-node compilation sums them; use np.add.at / a per-edge loop",
                          label=_c16._uniq(ctx, rid, fx, f"accumulation: {norm(st)[:80]}"))
        for kind, node in _R.accumulation_sites(ctx, fx):
            if id(node) in bad_ids:
                continue
            if kind == "augassign" and not isinstance(node.target.slice, ast.Tuple):
                continue                          # a counter / 1-D tally, not a matrix entry
            st = stmt_of(ctx.cfg(fx), node) or node
            ctx.ok(rid, fx, st, ("unbuffered accumulation (np.add.at): every edge contributes" if kind == "add.at" else
                                 "accumulation by scalar positions (one edge at a time): every edge contributes"),
                   label=_c16._uniq(ctx, rid, fx, f"accumulation: {norm(st)[:80]}"))
    if not n_bad:
        ctx.ok(rid, f0, f0.node, f"no buffered fancy-index accumulation in the edge-equation generator and its {len(members) - 1} private helper(s) "
                                 f"(controls: positive matched, negatives silent)", label="parallel edges are summed", nontrivial=False)


RULES = [
    ("C04-R1", r1_collapse_guard, 8),
    ("C04-R2", r2_append_ranges, 9),
    ("C04-R3", r3_group_edges, 8),
    ("C04-R4", r4_node_ranges, 4),
    ("C04-R5", r5_index_roles, 30),
    ("C04-R6", r6_indexing_dropped_only_for_identity, 1),
    ("C04-R7", r7_merge_key_is_the_operator_graph, 1),
    ("C04-R8", r_perm_identity, 1),
    ("C04-R9", r9_shared_ir_slots, 2),
    ("C04-R10", r10_records_own_their_value, 6),
    ("C04-R11", r11_slot_merge_key, 1),
    ("C04-R12", r12_parallel_edges_are_summed, 1),
]
