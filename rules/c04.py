"""C04 — vectorization does not change the model (DESIGN §4 C04)."""
from __future__ import annotations

import ast
import itertools
import re

from engine import AnalysisError
from engine.srcmodel import walk_shallow, norm, parent
from engine.util import (call_name, contains, enumerate_paths, fstring_holes, fstring_template, get_method, is_attr_of,
                         single_def_value, in_body)
from engine.cfg import stmt_of
from engine.dataflow import assigned_value
from . import c16 as _c16

PROPERTY = "C04"
IR = "pyrates/ir/circuit.py"
FE = "pyrates/frontend/template/circuit.py"
OG = "pyrates/ir/operator_graph.py"
ND = "pyrates/ir/node.py"

EXPLANATION = (
    "Equivalence of the vectorized and the node-by-node compilation path is not decidable statically.  Decided: the index bookkeeping "
    "only the vectorized path has.  R1 CircuitIR._finalize_var_def: every store that replaces a variable's value/shape by its first "
    "element is reached only under the path condition (computed from the dominating guards, as clauses) 'one distinct value' and "
    "'constant or not vectorized' and 'dtype float' and 'no shape or size <= 1'.  R2 VectorizedOperatorGraph.append_values: the old "
    "extent is read before the shape is recomputed, the shape is recomputed after the value list grew, the recorded pair is "
    "(old extent, new extent) of the variable named by the key it is stored under; VectorizedNodeIR.extend returns that result and "
    "advances its length once; cache_func returns the ranges of the extension on a cache hit and (0, length) on a miss.  "
    "R3 CircuitTemplate._group_edges: on the merging path source_idx, target_idx and every edge attribute list are extended exactly "
    "once per merged edge and in lock-step (attributes replicated len(source indices) times), on the creating path each is initialised "
    "once, the index lists are fresh copies (not aliases of _vectorization_indices) and are stored after the attribute replication; "
    "merge test and registration use the same key.  R4 the index ranges stored under '<node>/<op>/<var>' in _vectorization_indices "
    "(_apply_nodes, _apply_populations_and_connections) are range(start, stop) of the (start, stop) entries returned by the apply call "
    "of the same loop iteration, for the node named in the key.  R5 = C16-R1 (index roles: rows are targets, columns are sources).  "
    "NOT decided: the choice of the sparseness threshold, equality of trajectories, user edge dictionaries that already contain "
    "source_idx/target_idx."
)
RULE_TEXT = ("one obligation per (rule, construct): guards as path conditions in clause form (R1), ordering by dominance and "
             "reachability inside the loop body (R2), exhaustive path enumeration with loops unrolled once (R3), reaching definitions "
             "and call-graph resolution of the apply chain (R4), role typing (R5).  Non-trivial = needed one of these arguments.")
ASSUMPTIONS = [
    "numpy: np.unique, np.shape, np.prod have their documented meaning; list.extend/append grow a list in place.",
    "Edge dictionaries handed to _group_edges do not themselves contain the keys source_idx (beyond the popped one) / target_idx.",
]


# ------------------------------------------------------------------------------------------------
# R1  collapse only single-valued float constants
# ------------------------------------------------------------------------------------------------

def _cross(cl_lists):
    """CNF of a disjunction of CNFs."""
    out = []
    for combo in itertools.product(*cl_lists):
        c = frozenset().union(*combo)
        out.append(c)
    return out


def _cmp_multi(op, c):
    """`X op c` means 'more than one' (True) / 'at most one' (False) / None."""
    if not isinstance(c, ast.Constant) or not isinstance(c.value, (int, float)):
        return None
    v = c.value
    table = {(ast.Gt, 1): True, (ast.GtE, 2): True, (ast.NotEq, 1): True, (ast.Eq, 1): False, (ast.LtE, 1): False, (ast.Lt, 2): False}
    return table.get((type(op), v))


_FLIP = {ast.Gt: ast.Lt, ast.Lt: ast.Gt, ast.GtE: ast.LtE, ast.LtE: ast.GtE, ast.Eq: ast.Eq, ast.NotEq: ast.NotEq}


def _atom(e, v):
    """(name, polarity): e is true  <=>  name == polarity."""
    def is_v(x, key):
        return isinstance(x, ast.Subscript) and isinstance(x.value, ast.Name) and x.value.id == v \
            and isinstance(x.slice, ast.Constant) and x.slice.value == key
    if isinstance(e, ast.Name):
        return ("nonempty" if e.id == v else e.id, True)
    if isinstance(e, ast.Compare) and len(e.ops) == 1:
        l, op, r = e.left, e.ops[0], e.comparators[0]
        if isinstance(l, ast.Constant) and not isinstance(r, ast.Constant) and type(op) in _FLIP:
            l, r, op = r, l, _FLIP[type(op)]()
        if isinstance(op, (ast.In, ast.NotIn)) and isinstance(l, ast.Constant) and l.value == "shape" and isinstance(r, ast.Name) and r.id == v:
            return ("has_shape", isinstance(op, ast.In))
        for key, lit in (("vtype", "constant"), ("dtype", "float")):
            if is_v(l, key) and isinstance(r, ast.Constant) and r.value == lit and isinstance(op, (ast.Eq, ast.NotEq)):
                return (f"{key}_{lit}", isinstance(op, ast.Eq))
        # extents
        x = l
        name = None
        if isinstance(x, ast.Attribute) and x.attr == "size":
            inner = x.value
            if isinstance(inner, ast.Call) and call_name(inner) == "unique" and inner.args and is_v(inner.args[0], "value"):
                name = "value_multi"
        if isinstance(x, ast.Call) and call_name(x) == "len" and len(x.args) == 1:
            a = x.args[0]
            if isinstance(a, ast.Call) and call_name(a) in ("unique", "set") and a.args and is_v(a.args[0], "value"):
                name = "value_multi"
            elif is_v(a, "shape"):
                name = "ndim_multi"
        if isinstance(x, ast.Call) and call_name(x) in ("prod", "sum") and x.args and is_v(x.args[0], "shape"):
            name = "size_multi"
        if name is not None:
            m = _cmp_multi(op, r)
            if m is not None:
                return (name, m)
    return None


def _cnf(e, val, v):
    if isinstance(e, ast.UnaryOp) and isinstance(e.op, ast.Not):
        return _cnf(e.operand, not val, v)
    if isinstance(e, ast.BoolOp):
        conj = isinstance(e.op, ast.And) == val          # And/True and Or/False are conjunctions of the parts
        parts = [_cnf(x, val, v) for x in e.values]
        if conj:
            return [c for p in parts for c in p]
        return _cross(parts)
    a = _atom(e, v)
    if a is None:
        return [frozenset({("?" + ast.unparse(e), val)})]
    return [frozenset({(a[0], a[1] == val)})]


R1_REQUIREMENTS = [
    # (id, key literal, literals allowed beside it, text)
    ("unique", ("value_multi", False), set(), "the value has exactly one distinct element"),
    ("vtype", ("vtype_constant", True), {("vectorized", False)}, "the variable is a constant (or the network is not vectorized)"),
    ("dtype", ("dtype_float", True), set(), "the dtype is float (index arrays keep their length)"),
    ("size", ("size_multi", False), {("has_shape", False)}, "the declared shape has at most one element"),
]


def r1_collapse_guard(ctx, rid):
    cls = ctx.repo.get_class(IR, "CircuitIR")
    f = get_method(ctx, cls, "_finalize_var_def")
    params = [p for p in f.params if p != f.self_name]
    ctx.require(params, f"{rid}: _finalize_var_def has no parameters")
    v = params[0]
    cfg = ctx.cfg(f)
    stores = []
    for s in cfg.stmts():
        if isinstance(s, (ast.Assign, ast.AugAssign)):
            tg = s.targets if isinstance(s, ast.Assign) else [s.target]
            for t in tg:
                if isinstance(t, ast.Subscript) and isinstance(t.value, ast.Name) and t.value.id == v and isinstance(t.slice, ast.Constant) \
                        and t.slice.value in ("value", "shape"):
                    stores.append((s, t.slice.value))
        if isinstance(s, ast.Expr) and isinstance(s.value, ast.Call) and call_name(s.value) in ("update", "pop", "clear", "setdefault") \
                and isinstance(s.value.func, ast.Attribute) and isinstance(s.value.func.value, ast.Name) and s.value.func.value.id == v:
            raise AnalysisError(f"{rid}: `{norm(s)}` modifies the variable definition in an unrecognised way")
    collapse = [s for s, k in stores if k == "value"]
    ctx.require(collapse, f"{rid}: no store to {v}['value'] found in _finalize_var_def (anchor vanished)")
    for s in collapse:
        val = s.value if isinstance(s, ast.Assign) else None
        if not (isinstance(val, ast.Subscript) and isinstance(val.value, ast.Subscript) and isinstance(val.value.value, ast.Name)
                and val.value.value.id == v and isinstance(val.value.slice, ast.Constant) and val.value.slice.value == "value"):
            raise AnalysisError(f"{rid}: `{norm(s)}` is not the recognised collapse `{v}['value'] = {v}['value'][k]`")
    for s, key in stores:
        clauses = []
        guards = []
        for g in cfg.dominators(s):
            if not isinstance(g, ast.If) or g is s:
                continue
            t_reach = any(x is s or cfg.reachable(x, s) for x in cfg.successors(g, "true"))
            f_reach = any(x is s or cfg.reachable(x, s) for x in cfg.successors(g, "false"))
            if t_reach == f_reach:
                continue
            guards.append(norm(g))
            clauses += _cnf(g.test, t_reach, v)
        unknown = [l for c in clauses for l in c if l[0].startswith("?")]
        facts = {"path_condition": [sorted(f"{'' if pol else 'not '}{nm}" for nm, pol in c) for c in clauses], "guards": guards}
        for req, keylit, beside, text in R1_REQUIREMENTS:
            label = f"{req}: {norm(s)}"
            good = [c for c in clauses if keylit in c and c <= ({keylit} | beside)]
            if good:
                ctx.ok(rid, f, s, f"the collapse `{norm(s)}` is reached only when {text}", facts, label=label)
                continue
            if unknown:
                raise AnalysisError(f"{rid}: cannot decide guard `{req}` of `{norm(s)}`: unrecognised test(s) {[u[0][1:] for u in unknown]}")
            inverted = [c for c in clauses if (keylit[0], not keylit[1]) in c]
            why = (f"the dominating test is inverted (the store is reached when NOT: {text})" if inverted else
                   f"no dominating guard establishes that {text}")
            ctx.violation(rid, f, s, f"`{norm(s)}` replaces a vector by its first element although {why}: with vectorize=True the per-node values "
                                     f"of a merged variable would collapse to the first node's value", facts, label=label)


# ------------------------------------------------------------------------------------------------
# R2  appended range = (length before, length after)
# ------------------------------------------------------------------------------------------------

def _inline(ctx, f, e, depth=0):
    if isinstance(e, ast.Name) and depth < 5:
        v = single_def_value(ctx, f, e)
        if v is not None:
            return _inline(ctx, f, v, depth + 1)
    return e


def _def_stmt(ctx, f, e):
    """statement at which the value of Name e was computed (single definition), else the statement containing e"""
    if isinstance(e, ast.Name):
        defs = ctx.rd(f).defs_reaching(e)
        if len(defs) == 1 and isinstance(defs[0], ast.Assign) and assigned_value(defs[0], e.id) is not None:
            return defs[0]
    return None


def _extent_source(e, var):
    """classify an extent expression of dict `var`: 'shape' for var['shape'][0], 'value' for len(var['value']) / shape(var['value'])[0]"""
    def is_var(x, key):
        return isinstance(x, ast.Subscript) and isinstance(x.value, ast.Name) and x.value.id == var \
            and isinstance(x.slice, ast.Constant) and x.slice.value == key
    if isinstance(e, ast.Subscript) and isinstance(e.slice, ast.Constant) and e.slice.value == 0:
        b = e.value
        if is_var(b, "shape"):
            return "shape"
        if isinstance(b, ast.Call) and call_name(b) == "shape" and b.args and is_var(b.args[0], "value"):
            return "value"
    if isinstance(e, ast.Call) and call_name(e) == "len" and e.args and is_var(e.args[0], "value"):
        return "value"
    return None


def r2_append_ranges(ctx, rid):
    cls = ctx.repo.get_class(OG, "VectorizedOperatorGraph")
    f = get_method(ctx, cls, "append_values")
    cfg = ctx.cfg(f)
    rets = [s for s in cfg.stmts() if isinstance(s, ast.Return)]
    ctx.require(len(rets) == 1 and isinstance(rets[0].value, ast.Name), f"{rid}: append_values no longer returns one named dictionary")
    rname = rets[0].value.id
    recs = [s for s in cfg.stmts() if isinstance(s, ast.Assign) and len(s.targets) == 1 and isinstance(s.targets[0], ast.Subscript)
            and isinstance(s.targets[0].value, ast.Name) and s.targets[0].value.id == rname]
    ctx.require(len(recs) == 1, f"{rid}: expected one store into the returned range dictionary, found {len(recs)}")
    rec = recs[0]
    if not (isinstance(rec.value, ast.Tuple) and len(rec.value.elts) == 2):
        raise AnalysisError(f"{rid}: recorded range `{norm(rec.value)}` is not a pair")
    loops = [a for a in _anc(rec) if isinstance(a, ast.For)]
    ctx.require(len(loops) == 2, f"{rid}: the range store is not inside the operator/variable double loop")
    inner, outer = loops[0], loops[1]
    # which dict is `var`?
    a_expr, b_expr = rec.value.elts
    ia, ib = _inline_keep(ctx, f, a_expr), _inline_keep(ctx, f, b_expr)
    varname = None
    for e in (ia[0], ib[0]):
        for n in ast.walk(e):
            if isinstance(n, ast.Subscript) and isinstance(n.value, ast.Name) and isinstance(n.slice, ast.Constant) and n.slice.value in ("shape", "value"):
                varname = varname or n.value.id
    if varname is None:
        if isinstance(ia[0], ast.Constant) or isinstance(ib[0], ast.Constant):
            ctx.violation(rid, f, rec, f"the recorded range `{norm(rec.value)}` is constant, not (extent before, extent after) of the extended variable")
            return
        raise AnalysisError(f"{rid}: cannot find the variable dictionary in `{norm(rec)}`")
    shape_stores = [s for s in cfg.stmts() if isinstance(s, ast.Assign) and any(
        isinstance(t, ast.Subscript) and isinstance(t.value, ast.Name) and t.value.id == varname and isinstance(t.slice, ast.Constant)
        and t.slice.value == "shape" for t in s.targets)]
    ctx.require(len(shape_stores) == 1, f"{rid}: expected one store of {varname}['shape'] in append_values, found {len(shape_stores)}")
    sst = shape_stores[0]

    def is_grow(n):
        if not isinstance(n, ast.stmt):
            return False
        for c in ast.walk(n) if isinstance(n, ast.Expr) else []:
            if isinstance(c, ast.Call) and call_name(c) in ("append", "extend") and isinstance(c.func, ast.Attribute):
                r = c.func.value
                if isinstance(r, ast.Subscript) and isinstance(r.value, ast.Name) and r.value.id == varname and isinstance(r.slice, ast.Constant) \
                        and r.slice.value == "value":
                    return True
        return False
    grows = [s for s in cfg.stmts() if is_grow(s)]
    ctx.require(grows, f"{rid}: no growth of {varname}['value'] found in append_values")
    facts = {"record": norm(rec), "shape_store": norm(sst), "growth": [norm(g) for g in grows]}

    # (1) the shape is recomputed from the grown value list, after the growth on every path
    recomputed = isinstance(sst.value, ast.Call) and call_name(sst.value) == "shape" and sst.value.args and \
        _extent_source(ast.Subscript(value=sst.value, slice=ast.Constant(value=0), ctx=ast.Load()), varname) == "value"
    if not recomputed and not (isinstance(sst.value, ast.Tuple) and len(sst.value.elts) >= 1 and _extent_source(sst.value.elts[0], varname) == "value"):
        raise AnalysisError(f"{rid}: `{norm(sst)}` does not recompute the shape from {varname}['value'] (unrecognised form)")
    first_in_body = inner.body[0]
    skip = cfg.reachable_avoiding(inner, sst, lambda n: is_grow(n))
    if skip is not None and len(skip) > 1:
        ctx.violation(rid, f, sst, f"the shape is recomputed on a path that did not grow {varname}['value'] first ({cfg.path_str(skip)}): the new "
                                   f"extent would equal the old one and the appended node would get an empty index range", facts, label="shape recomputed after growth")
    else:
        ctx.ok(rid, f, sst, "the shape is recomputed from the value list after it grew, on every path", facts, label="shape recomputed after growth")

    # (2) old extent
    def position(expr_pair, which):
        e, at = expr_pair
        src = _extent_source(e, varname)
        if src is None:
            return None, None, at
        if src == "shape":
            before = at is not sst and cfg.dominates(at, sst) and at is not rec or (at is not sst and at is not rec and cfg.dominates(at, sst))
            after = cfg.dominates(sst, at) and at is not sst
            return src, ("old" if before else "new" if after else "?"), at
        # from the value list: old iff before every growth
        before = all(cfg.dominates(at, g) and at is not g for g in grows)
        after = cfg.reachable_avoiding(inner, at, lambda n: is_grow(n)) is None
        return src, ("old" if before else "new" if after else "?"), at
    sa = position(ia, "a")
    sb = position(ib, "b")
    for nm, (src, when, at), want, e in (("first", sa, "old", a_expr), ("second", sb, "new", b_expr)):
        label = f"{nm} component of the range"
        if src is None:
            inl = ia[0] if nm == "first" else ib[0]
            if isinstance(inl, ast.Constant):
                ctx.violation(rid, f, rec, f"the {nm} component `{norm(e)}` of the recorded range is the constant {inl.value!r}, not the {want} extent of "
                                           f"{varname}: indices of earlier nodes would be attributed to the appended node", facts, label=label)
                continue
            raise AnalysisError(f"{rid}: the {nm} component `{norm(e)}` of the recorded range is not a recognised extent of {varname}")
        if when == want:
            ctx.ok(rid, f, rec, f"the {nm} component `{norm(e)}` is the extent of {varname} {'before' if want == 'old' else 'after'} the extension "
                                f"(read at `{norm(at)}`)", facts, label=label)
        elif when == "?":
            raise AnalysisError(f"{rid}: cannot order the read `{norm(at)}` relative to the extension")
        else:
            ctx.violation(rid, f, rec, f"the {nm} component `{norm(e)}` is read {'after' if when == 'new' else 'before'} the extension (at `{norm(at)}`) but must "
                                       f"be the {want} extent: the recorded index range of the appended node would be "
                                       f"{'empty (new, new)' if want == 'old' else 'the previous nodes (old, old)'}", facts, label=label)

    # (3) the key names the variable whose extents are recorded
    key = rec.targets[0].slice
    vdef = None
    for s in cfg.stmts():
        if isinstance(s, ast.Assign) and any(isinstance(t, ast.Name) and t.id == varname for t in s.targets):
            vdef = s
    ok_key = False
    if vdef is not None and isinstance(vdef.value, ast.Subscript) and isinstance(key, ast.Tuple) and len(key.elts) == 2 \
            and all(isinstance(k, ast.Name) for k in key.elts):
        vkey = vdef.value.slice
        cont = _inline(ctx, f, vdef.value.value)
        okey = None
        for n in ast.walk(cont):
            if isinstance(n, ast.Subscript) and isinstance(n.slice, ast.Name):
                okey = n.slice.id
        op_loop_var = outer.target.elts[0].id if isinstance(outer.target, ast.Tuple) and isinstance(outer.target.elts[0], ast.Name) else None
        var_loop_var = inner.target.elts[0].id if isinstance(inner.target, ast.Tuple) and isinstance(inner.target.elts[0], ast.Name) else None
        ok_key = isinstance(vkey, ast.Name) and vkey.id == key.elts[1].id == var_loop_var and okey == key.elts[0].id == op_loop_var
    elif vdef is None:
        raise AnalysisError(f"{rid}: definition of `{varname}` not found")
    if ok_key:
        ctx.ok(rid, f, rec, "the range is stored under the (operator, variable) key of the variable that was extended", label="range key")
    else:
        ctx.violation(rid, f, rec, f"the range is stored under `{norm(key)}`, which is not the (operator, variable) pair that selects `{varname}`: "
                                   f"index ranges would be attributed to another variable", label="range key")

    # ---- VectorizedNodeIR.extend ---------------------------------------------------------------------------------------
    ncls = ctx.repo.get_class(ND, "VectorizedNodeIR")
    ext = get_method(ctx, ncls, "extend")
    ecfg = ctx.cfg(ext)
    erets = [s for s in ecfg.stmts() if isinstance(s, ast.Return)]
    ctx.require(len(erets) == 1 and erets[0].value is not None, f"{rid}: VectorizedNodeIR.extend has no single return")
    rv = _inline(ctx, ext, erets[0].value)
    node_param = [p for p in ext.params if p != ext.self_name]
    good = isinstance(rv, ast.Call) and call_name(rv) == "append_values" and len(rv.args) == 1 and node_param \
        and is_attr_of(rv.args[0], node_param[0], "values")
    if good:
        ctx.ok(rid, ext, erets[0], "extend returns the index ranges computed by append_values for the values of the node it was given")
    else:
        ctx.violation(rid, ext, erets[0], f"extend returns `{norm(rv)}`, not the ranges append_values computed for the appended node's values")
    incs = [s for s in ecfg.stmts() if (isinstance(s, ast.AugAssign) and is_attr_of(s.target, ext.self_name, "length"))
            or (isinstance(s, ast.Assign) and any(is_attr_of(t, ext.self_name, "length") for t in s.targets))]
    one = len(incs) == 1 and isinstance(incs[0], ast.AugAssign) and isinstance(incs[0].op, ast.Add) and isinstance(incs[0].value, ast.Constant) \
        and incs[0].value.value == 1 and not any(isinstance(a, (ast.For, ast.While, ast.If)) for a in _anc(incs[0]) if a is not ext.node and not isinstance(a, ast.ClassDef))
    if one:
        ctx.ok(rid, ext, incs[0], "the node's length advances by exactly one per appended node")
    else:
        ctx.violation(rid, ext, incs[0] if incs else ext.node, "the vectorized node's length does not advance by exactly one per appended node "
                                                              "(edge-node index ranges are computed from it)", label="length increment")

    # ---- cache_func -----------------------------------------------------------------------------------------------------
    cf = ctx.repo.get_func(ND, "cache_func")
    ccfg = ctx.cfg(cf)
    crets = [s for s in ccfg.stmts() if isinstance(s, ast.Return)]
    ctx.require(len(crets) == 1 and isinstance(crets[0].value, ast.Tuple) and len(crets[0].value.elts) == 3 and isinstance(crets[0].value.elts[2], ast.Name),
                f"{rid}: cache_func no longer returns (node, changed_labels, ranges)")
    rn = crets[0].value.elts[2]
    defs = ctx.rd(cf).defs_reaching(rn)
    ctx.require(len(defs) == 2, f"{rid}: expected two definitions of `{rn.id}` in cache_func (cache hit / cache miss), found {len(defs)}")
    node_name = crets[0].value.elts[0].id if isinstance(crets[0].value.elts[0], ast.Name) else None
    for d in defs:
        val = assigned_value(d, rn.id)
        if isinstance(val, ast.Call) and call_name(val) == "extend" and isinstance(val.func, ast.Attribute) and isinstance(val.func.value, ast.Name):
            same = val.func.value.id == node_name
            if same:
                ctx.ok(rid, cf, d, "on a cache hit the ranges are those returned by extending the cached node that is handed back", label="cache hit ranges")
            else:
                ctx.violation(rid, cf, d, f"the ranges come from extending `{val.func.value.id}` but the node handed back is `{node_name}`", label="cache hit ranges")
        elif isinstance(val, ast.DictComp):
            v = val.value
            it = val.generators[0].iter if len(val.generators) == 1 else None
            tgt = val.generators[0].target if it is not None else None
            good = isinstance(v, ast.Tuple) and len(v.elts) == 2 and isinstance(v.elts[0], ast.Constant) and v.elts[0].value == 0 \
                and isinstance(tgt, ast.Tuple) and len(tgt.elts) == 2 and isinstance(tgt.elts[1], ast.Name) and isinstance(v.elts[1], ast.Name) \
                and v.elts[1].id == tgt.elts[1].id and isinstance(val.key, ast.Name) and isinstance(tgt.elts[0], ast.Name) and val.key.id == tgt.elts[0].id \
                and isinstance(it, ast.Call) and call_name(it) == "items" and "var_lengths" in ast.unparse(it) \
                and node_name is not None and ast.unparse(it).startswith(node_name + ".")
            if good:
                ctx.ok(rid, cf, d, "on a cache miss every variable of the new node gets the range (0, its length)", label="cache miss ranges")
            else:
                ctx.violation(rid, cf, d, f"on a cache miss the ranges `{norm(val)}` are not (0, length) of the new node's own variables", label="cache miss ranges")
        else:
            raise AnalysisError(f"{rid}: unrecognised definition of the ranges in cache_func: {norm(d)}")
    # var_lengths = shape[0] if shape else 1
    vl = get_method(ctx, cls, "var_lengths")
    sts = [s for s in walk_shallow(vl.node) if isinstance(s, ast.Assign) and len(s.targets) == 1 and isinstance(s.targets[0], ast.Subscript)]
    ctx.require(len(sts) == 1, f"{rid}: var_lengths has an unrecognised form")
    val = sts[0].value
    good = isinstance(val, ast.IfExp) and ast.unparse(val.body).replace('"', "'").endswith("['shape'][0]") and isinstance(val.orelse, ast.Constant) \
        and val.orelse.value == 1 and ast.unparse(val.test).replace('"', "'").endswith("['shape']")
    if good:
        ctx.ok(rid, vl, sts[0], "var_lengths is the first extent of the variable's shape (1 for scalars)", nontrivial=False)
    else:
        ctx.violation(rid, vl, sts[0], f"var_lengths `{norm(val)}` is not shape[0] (1 for an empty shape)")


def _inline_keep(ctx, f, e):
    """(inlined expression, statement at which it was evaluated)"""
    cfg = ctx.cfg(f)
    at = stmt_of(cfg, e)
    cur = e
    for _ in range(5):
        if isinstance(cur, ast.Name):
            d = _def_stmt(ctx, f, cur)
            if d is None:
                break
            at = d
            cur = assigned_value(d, cur.id)
        elif isinstance(cur, ast.Subscript) and isinstance(cur.value, ast.Name) and isinstance(cur.slice, ast.Constant) and isinstance(cur.slice.value, int):
            # old_shape[0] -> (var['shape'])[0] evaluated where old_shape was bound
            d = _def_stmt(ctx, f, cur.value)
            if d is None:
                break
            at = d
            cur = ast.Subscript(value=assigned_value(d, cur.value.id), slice=cur.slice, ctx=ast.Load())
        else:
            break
    return cur, at


def _anc(n):
    p = parent(n)
    while p is not None:
        yield p
        p = parent(p)


# ------------------------------------------------------------------------------------------------
# R3  lock-step extension of grouped edge attributes
# ------------------------------------------------------------------------------------------------

def r3_group_edges(ctx, rid):
    cls = ctx.repo.get_class(FE, "CircuitTemplate")
    f = get_method(ctx, cls, "_group_edges")
    cfg = ctx.cfg(f)
    rets = [s for s in cfg.stmts() if isinstance(s, ast.Return)]
    ctx.require(len(rets) == 1 and isinstance(rets[0].value, ast.Name), f"{rid}: _group_edges no longer returns one named collection")
    col = rets[0].value.id
    tests = [s for s in cfg.stmts() if isinstance(s, ast.If) and isinstance(s.test, ast.Compare) and len(s.test.ops) == 1
             and isinstance(s.test.ops[0], (ast.In, ast.NotIn)) and isinstance(s.test.comparators[0], ast.Name) and s.test.comparators[0].id == col]
    ctx.require(len(tests) == 1, f"{rid}: expected one membership test against `{col}`, found {len(tests)}")
    t = tests[0]
    key_dump = ast.dump(t.test.left)
    merge_body, create_body = (t.body, t.orelse) if isinstance(t.test.ops[0], ast.In) else (t.orelse, t.body)
    ctx.require(merge_body and create_body, f"{rid}: the merge test has no else branch (unrecognised form)")
    outer = [a for a in _anc(t) if isinstance(a, ast.For)]
    ctx.require(len(outer) == 1, f"{rid}: the merge test is not directly inside the loop over edges")
    outer = outer[0]

    def inside(body, n):
        return any(contains(b, n) for b in body)

    # names
    def sub_key(e):
        """X[k] -> (X name, key const | key Name)"""
        if isinstance(e, ast.Subscript) and isinstance(e.value, ast.Name):
            if isinstance(e.slice, ast.Constant):
                return e.value.id, ("const", e.slice.value)
            if isinstance(e.slice, ast.Name):
                return e.value.id, ("name", e.slice.id)
            return e.value.id, ("expr", ast.dump(e.slice))
        return None, None

    def attr_loops(body):
        return [s for b in body for s in ([b] + [x for x in walk_shallow(b) if isinstance(x, ast.stmt)]) if isinstance(s, ast.For)
                and isinstance(s.iter, ast.Call) and call_name(s.iter) == "items" and isinstance(s.target, ast.Tuple) and len(s.target.elts) == 2]

    # ---------------- merging path ----------------
    loops = attr_loops(merge_body)
    ctx.require(len(loops) == 1, f"{rid}: expected one loop over the edge attributes on the merging path, found {len(loops)}")
    aloop = loops[0]
    kname, vname = (e.id if isinstance(e, ast.Name) else None for e in aloop.target.elts)
    edict = aloop.iter.func.value.id if isinstance(aloop.iter.func.value, ast.Name) else None
    ctx.require(kname and vname and edict, f"{rid}: unrecognised attribute loop header {norm(aloop)}")

    def classify_merge(s):
        """('src'|'tgt'|'attr'|'other-grow', call) for a statement that grows a list of the group's dict"""
        if not (isinstance(s, ast.Expr) and isinstance(s.value, ast.Call)) and not isinstance(s, ast.AugAssign):
            return None
        if isinstance(s, ast.AugAssign):
            recv, arg, kind = s.target, s.value, "extend"
        else:
            c = s.value
            if not (isinstance(c.func, ast.Attribute) and c.func.attr in ("extend", "append") and len(c.args) == 1):
                return None
            recv, arg, kind = c.func.value, c.args[0], c.func.attr
        base, key = sub_key(recv)
        if base is None:
            return None
        if key == ("const", "source_idx"):
            return ("src", base, arg, kind)
        if key == ("const", "target_idx"):
            return ("tgt", base, arg, kind)
        if key == ("name", kname) and inside(aloop.body, s):
            return ("attr", base, arg, kind)
        return ("other", base, arg, kind)

    paths = [p for p in enumerate_paths(cfg) if any(n is t for n in p)]
    merge_paths = []
    for p in paths:
        i = next(k for k, n in enumerate(p) if n is t)
        if i + 1 < len(p) and isinstance(p[i + 1], ast.stmt) and inside(merge_body, p[i + 1]):
            merge_paths.append(p)
    ctx.require(merge_paths, f"{rid}: no path through the merging branch")
    base_names = set()
    worst = None
    for p in merge_paths:
        ev = [classify_merge(s) for s in p if isinstance(s, ast.stmt) and inside(merge_body, s)]
        ev = [e for e in ev if e]
        kinds = [e[0] for e in ev]
        base_names |= {e[1] for e in ev}
        took_loop = any(isinstance(s, ast.stmt) and inside(aloop.body, s) for s in p)
        want_attr = 1 if took_loop else 0
        problem = None
        if kinds.count("src") != 1:
            problem = f"source_idx is extended {kinds.count('src')} times"
        elif kinds.count("tgt") != 1:
            problem = f"target_idx is extended {kinds.count('tgt')} times"
        elif kinds.count("attr") != want_attr:
            problem = f"an edge attribute list is extended {kinds.count('attr')} times in one pass of the attribute loop"
        elif "other" in kinds:
            problem = "another list of the group is grown as well"
        if problem and worst is None:
            worst = (problem, cfg.path_str(p), kinds)
    facts = {"merge_paths": len(merge_paths)}
    if worst:
        facts.update(witness=worst[1], events=worst[2])
        ctx.violation(rid, f, t, f"on the merging path {worst[0]} for one merged edge: the per-edge lists of the group (source_idx, target_idx, "
                                 f"weights, delays ...) go out of step and edges are paired with the wrong indices/attributes", facts, label="merge: once per list")
    else:
        ctx.ok(rid, f, t, "on every path through the merging branch source_idx, target_idx and each attribute list are extended exactly once", facts,
               label="merge: once per list")
    # the extended dict is the group registered under the tested key
    bds = [s for b in merge_body for s in ([b] + [x for x in walk_shallow(b) if isinstance(x, ast.stmt)]) if isinstance(s, ast.Assign)
           and isinstance(s.value, ast.Subscript) and isinstance(s.value.value, ast.Name) and s.value.value.id == col]
    if len(base_names) == 1 and len(bds) == 1 and isinstance(bds[0].targets[0], ast.Name) and bds[0].targets[0].id in base_names \
            and ast.dump(bds[0].value.slice) == key_dump:
        ctx.ok(rid, f, bds[0], "the lists that are extended belong to the group found under the tested key", label="merge: group identity")
    elif len(base_names) == 1 and len(bds) == 1:
        ctx.violation(rid, f, bds[0], f"the extended group `{norm(bds[0].value)}` is not the one found by the membership test `{norm(t)}`", label="merge: group identity")
    else:
        raise AnalysisError(f"{rid}: cannot identify the group dictionary on the merging path (bases {sorted(base_names)})")
    # lock-step lengths: attributes replicated len(s_idx) times, source_idx extended by s_idx
    src_ev = tgt_ev = attr_ev = None
    for b in merge_body:
        for s in [b] + [x for x in walk_shallow(b) if isinstance(x, ast.stmt)]:
            c = classify_merge(s)
            if c and c[0] == "src":
                src_ev = (s, c)
            if c and c[0] == "tgt":
                tgt_ev = (s, c)
            if c and c[0] == "attr":
                attr_ev = (s, c)
    if src_ev and attr_ev:
        _lockstep(ctx, rid, f, attr_ev, src_ev, vname, "merge")
    else:
        ctx.violation(rid, f, t, f"the merging branch has no growth of {'source_idx' if not src_ev else 'the edge attribute lists'}: the per-edge lists cannot "
                                 f"stay in lock-step", label="merge: lock-step lengths")
    for ev, nm in ((src_ev, "source_idx"), (tgt_ev, "target_idx")):
        if ev and ev[1][3] != "extend":
            ctx.violation(rid, f, ev[0], f"{nm} is grown with append instead of extend: the index list of the merged edge is nested instead of "
                                         f"concatenated", label=f"merge: {nm} concatenated")

    # ---------------- creating path ----------------
    cloops = attr_loops(create_body)
    ctx.require(len(cloops) == 1, f"{rid}: expected one loop over the edge attributes on the creating path, found {len(cloops)}")
    cloop = cloops[0]
    ck, cv = (e.id if isinstance(e, ast.Name) else None for e in cloop.target.elts)
    cdict = cloop.iter.func.value.id if isinstance(cloop.iter.func.value, ast.Name) else None

    def classify_create(s):
        if not isinstance(s, ast.Assign) or len(s.targets) != 1:
            return None
        base, key = sub_key(s.targets[0])
        if base is None:
            return None
        if base == col:
            return ("register", s)
        if key == ("const", "source_idx"):
            return ("src", s)
        if key == ("const", "target_idx"):
            return ("tgt", s)
        if key == ("name", ck) and inside(cloop.body, s):
            return ("attr", s)
        return None
    create_paths = []
    for p in paths:
        i = next(k for k, n in enumerate(p) if n is t)
        if i + 1 < len(p) and isinstance(p[i + 1], ast.stmt) and inside(create_body, p[i + 1]):
            create_paths.append(p)
    ctx.require(create_paths, f"{rid}: no path through the creating branch")
    worst = None
    for p in create_paths:
        ev = [classify_create(s) for s in p if isinstance(s, ast.stmt) and inside(create_body, s)]
        ev = [e for e in ev if e]
        kinds = [e[0] for e in ev]
        took_loop = any(isinstance(s, ast.stmt) and inside(cloop.body, s) for s in p)
        problem = None
        for k, nm in (("src", "source_idx"), ("tgt", "target_idx"), ("register", "the group")):
            if kinds.count(k) != 1 and problem is None:
                problem = f"{nm} is initialised {kinds.count(k)} times"
        if problem is None and kinds.count("attr") != (1 if took_loop else 0):
            problem = f"an edge attribute is initialised {kinds.count('attr')} times in one pass of the attribute loop"
        if problem is None and "attr" in kinds and min(kinds.index("src"), kinds.index("tgt")) < kinds.index("attr"):
            problem = "the index lists are stored before the attribute loop runs, so the loop replicates them like an attribute ([list] * n)"
        if problem and worst is None:
            worst = (problem, cfg.path_str(p), kinds)
    if worst:
        ctx.violation(rid, f, t, f"on the creating path {worst[0]}: the per-edge lists of a new group do not start out with one entry per edge each",
                      {"witness": worst[1], "events": worst[2]}, label="create: once per list")
    else:
        ctx.ok(rid, f, t, "on every path through the creating branch each list is initialised exactly once, index lists after the attribute replication",
               {"create_paths": len(create_paths)}, label="create: once per list")
    c_src = c_tgt = c_attr = c_reg = None
    for b in create_body:
        for s in [b] + [x for x in walk_shallow(b) if isinstance(x, ast.stmt)]:
            c = classify_create(s)
            if c:
                if c[0] == "src":
                    c_src = s
                elif c[0] == "tgt":
                    c_tgt = s
                elif c[0] == "attr":
                    c_attr = s
                elif c[0] == "register":
                    c_reg = s
    ctx.require(c_src is not None and c_tgt is not None and c_attr is not None and c_reg is not None, f"{rid}: creating path has an unrecognised form")
    # registration key == tested key, registered dict == the one initialised
    base_c, _ = sub_key(c_src.targets[0])
    if ast.dump(c_reg.targets[0].slice) == key_dump and isinstance(c_reg.value, ast.Name) and c_reg.value.id == base_c == cdict:
        ctx.ok(rid, f, c_reg, "the new group is registered under the key the membership test uses", label="create: group identity")
    else:
        ctx.violation(rid, f, c_reg, f"the new group is registered as `{norm(c_reg)}`, which does not match the membership test `{norm(t)}` / the "
                                     f"dictionary that was initialised: later edges of the same group would not be merged into it", label="create: group identity")
    # fresh copies of the index lists
    for s, nm in ((c_src, "source_idx"), (c_tgt, "target_idx")):
        v = s.value
        fresh = (isinstance(v, ast.Call) and call_name(v) in ("list", "deepcopy", "copy", "array", "tolist")) or isinstance(v, (ast.List, ast.ListComp)) \
            or (isinstance(v, ast.Subscript) and isinstance(v.slice, ast.Slice))
        if fresh:
            ctx.ok(rid, f, s, f"the group's {nm} starts as a fresh list (later extensions cannot reach _vectorization_indices)", label=f"create: {nm} is a copy")
        else:
            origin = _inline(ctx, f, v)
            aliases = any(isinstance(n, ast.Name) and n.id == "indices" or is_attr_of(n, f.self_name, "_vectorization_indices") for n in ast.walk(origin)) \
                or _may_alias_indices(ctx, f, v)
            if aliases:
                ctx.violation(rid, f, s, f"the group's {nm} is the list object stored in _vectorization_indices (`{norm(v)}`): extending it for the next merged "
                                         f"edge rewrites the vectorization index of a node variable", label=f"create: {nm} is a copy")
            else:
                raise AnalysisError(f"{rid}: cannot decide whether `{norm(s)}` stores a fresh list")
    _lockstep(ctx, rid, f, (c_attr, ("attr", None, c_attr.value, "assign")), (c_src, ("src", None, c_src.value, "assign")), cv, "create")


def _may_alias_indices(ctx, f, v):
    if not isinstance(v, ast.Name):
        return False
    for d in ctx.rd(f).defs_reaching(v):
        val = assigned_value(d, v.id)
        if val is None:
            continue
        for n in ast.walk(val):
            if isinstance(n, ast.Subscript) and isinstance(n.value, ast.Name):
                src = single_def_value(ctx, f, n.value)
                if src is not None and "_vectorization_indices" in ast.unparse(src):
                    return True
    return False


def _strip_copy(e):
    """list(x) / deepcopy(x) / x.copy() / x[:] / [k for k in x]  ->  x"""
    while True:
        if isinstance(e, ast.Call) and call_name(e) in ("list", "deepcopy", "copy") and e.args:
            e = e.args[0]
        elif isinstance(e, ast.Call) and call_name(e) == "copy" and isinstance(e.func, ast.Attribute) and not e.args:
            e = e.func.value
        elif isinstance(e, ast.Subscript) and isinstance(e.slice, ast.Slice) and e.slice.lower is None and e.slice.upper is None and e.slice.step is None:
            e = e.value
        elif isinstance(e, ast.ListComp) and len(e.generators) == 1 and not e.generators[0].ifs and isinstance(e.elt, ast.Name) \
                and isinstance(e.generators[0].target, ast.Name) and e.elt.id == e.generators[0].target.id:
            e = e.generators[0].iter
        else:
            return e


def _lockstep(ctx, rid, f, attr_ev, src_ev, vname, which):
    """attribute lists grow by [val] * L with L == len(<what source_idx grows by>)"""
    s_attr, (_, _, a_arg, _) = attr_ev
    s_src, (_, _, s_arg, _) = src_ev
    a_val = _inline(ctx, f, a_arg)
    rep = None
    if isinstance(a_val, ast.BinOp) and isinstance(a_val.op, ast.Mult):
        for x, y in ((a_val.left, a_val.right), (a_val.right, a_val.left)):
            if isinstance(x, ast.List) and len(x.elts) == 1:
                rep = (x.elts[0], y)
    label = f"{which}: lock-step lengths"
    if rep is None:
        raise AnalysisError(f"{rid}: the attribute growth `{norm(a_arg)}` is not of the recognised form [value] * count")
    elem, cnt = rep
    cnt_i = _inline(ctx, f, cnt)
    # what source_idx grows by: strip list(...)
    s_core = _strip_copy(s_arg)
    good_cnt = isinstance(cnt_i, ast.Call) and call_name(cnt_i) == "len" and len(cnt_i.args) == 1 \
        and ast.dump(cnt_i.args[0]) == ast.dump(s_core)
    good_elem = isinstance(elem, ast.Name) and elem.id == vname
    facts = {"attribute_growth": norm(a_val), "count": norm(cnt_i), "source_idx_growth": norm(s_arg)}
    if good_cnt and good_elem:
        ctx.ok(rid, f, s_attr, f"each attribute grows by len({norm(s_core)}) copies of the edge's value, exactly as many entries as source_idx gains", facts, label=label)
    else:
        ctx.violation(rid, f, s_attr, f"attribute lists grow by `{norm(a_val)}` while source_idx grows by `{norm(s_arg)}`: the number of attribute entries per "
                                      f"merged edge ({norm(cnt_i)}) is not the number of its source indices, so weights/delays shift against the index lists",
                      facts, label=label)


# ------------------------------------------------------------------------------------------------
# R4  per-node index ranges come from that node's application
# ------------------------------------------------------------------------------------------------

def _returns_ranges(ctx, fi, pos, depth=0, trail=()):
    """Does function fi return, at tuple position `pos` (None: the whole value), a dictionary of (start, stop) pairs?
    Returns (True, chain) or raises AnalysisError when the chain cannot be followed."""
    if depth > 6:
        raise AnalysisError(f"C04-R4: return chain too deep at {fi.qual}")
    rets = [s for s in walk_shallow(fi.node) if isinstance(s, ast.Return) and s.value is not None]
    if not rets:
        if any(isinstance(s, ast.Raise) for s in fi.node.body):
            return True, list(trail) + [fi.qualname + " (abstract: only raises)"]
        raise AnalysisError(f"C04-R4: {fi.qual} has no return value")
    chain = list(trail) + [fi.qualname]
    for r in rets:
        v = r.value
        if pos is not None and isinstance(v, ast.Tuple):
            if pos >= len(v.elts):
                return False, chain
            ok, chain = _elt_is_ranges(ctx, fi, v.elts[pos], depth, chain)
            if not ok:
                return False, chain
        elif isinstance(v, ast.Call):
            targets, how = ctx.cg.resolve_call(fi, v)
            if not targets:
                raise AnalysisError(f"C04-R4: cannot resolve `{norm(v)}` in {fi.qual} ({how})")
            for tg in targets:
                ok, chain2 = _returns_ranges(ctx, tg, pos, depth + 1, tuple(chain))
                if not ok:
                    return False, chain2
            chain = chain2
        elif pos is None:
            ok, chain = _elt_is_ranges(ctx, fi, v, depth, chain)
            if not ok:
                return False, chain
        else:
            return False, chain
    return True, chain


def _elt_is_ranges(ctx, fi, e, depth, chain):
    if isinstance(e, ast.DictComp):
        return isinstance(e.value, ast.Tuple) and len(e.value.elts) == 2, chain
    if isinstance(e, ast.Call):
        targets, how = ctx.cg.resolve_call(fi, e)
        if not targets and isinstance(e.func, ast.Attribute):
            # untyped receiver (`node = node_cache[h]`): every repository method of that name (over-approximation)
            targets = [c.methods[e.func.attr] for m in ctx.repo.modules.values() for c in m.classes.values() if e.func.attr in c.methods]
        if not targets:
            raise AnalysisError(f"C04-R4: cannot resolve `{norm(e)}` in {fi.qual} ({how})")
        for tg in targets:
            ok, chain = _returns_ranges(ctx, tg, None, depth + 1, tuple(chain))
            if not ok:
                return False, chain
        return True, chain
    if isinstance(e, ast.Name):
        defs = ctx.rd(fi).defs_reaching(e)
        if not defs:
            return False, chain
        for d in defs:
            val = assigned_value(d, e.id)
            if val is None:
                return False, chain
            if isinstance(val, ast.Dict) and not val.keys:
                stores = [s for s in walk_shallow(fi.node) if isinstance(s, ast.Assign) and len(s.targets) == 1 and isinstance(s.targets[0], ast.Subscript)
                          and isinstance(s.targets[0].value, ast.Name) and s.targets[0].value.id == e.id]
                if not stores or not all(isinstance(s.value, ast.Tuple) and len(s.value.elts) == 2 for s in stores):
                    return False, chain
                continue
            ok, chain = _elt_is_ranges(ctx, fi, val, depth, chain)
            if not ok:
                return False, chain
        return True, chain
    return False, chain


def _feasible(call: ast.Call, fi) -> bool:
    a = fi.node.args
    names = [x.arg for x in a.posonlyargs + a.args + a.kwonlyargs]
    if not a.kwarg and any(k.arg is not None and k.arg not in names for k in call.keywords):
        return False
    has_value_return = any(isinstance(s, ast.Return) and s.value is not None for s in walk_shallow(fi.node))
    abstract = any(isinstance(s, ast.Raise) for s in fi.node.body)
    return has_value_return or abstract


def r4_node_ranges(ctx, rid):
    cls = ctx.repo.get_class(FE, "CircuitTemplate")
    n_inst = 0
    for mname in ("_apply_nodes", "_apply_populations_and_connections"):
        f = get_method(ctx, cls, mname)
        selfn = f.self_name
        cfg = ctx.cfg(f)
        rd = ctx.rd(f)
        # dict names that end up in self._vectorization_indices
        idx_names = set()
        for s in cfg.stmts():
            if isinstance(s, ast.Assign) and any(is_attr_of(t, selfn, "_vectorization_indices") for t in s.targets) and isinstance(s.value, ast.Name):
                idx_names.add(s.value.id)
        stores = []
        for s in cfg.stmts():
            if isinstance(s, ast.Assign) and len(s.targets) == 1 and isinstance(s.targets[0], ast.Subscript):
                b = s.targets[0].value
                if is_attr_of(b, selfn, "_vectorization_indices") or (isinstance(b, ast.Name) and b.id in idx_names):
                    stores.append(s)
        if not stores:
            raise AnalysisError(f"{rid}: no store into _vectorization_indices found in {f.qual}")
        for st in stores:
            n_inst += 1
            keyn = st.targets[0].slice
            tpl = fstring_template(keyn)
            holes = fstring_holes(keyn)
            if tpl is None or not re.fullmatch(r"⟨[^⟩]*⟩/⟨[^⟩]*⟩/⟨[^⟩]*⟩", tpl) or not all(isinstance(h, ast.Name) for h in holes):
                raise AnalysisError(f"{rid}: index key `{norm(keyn)}` in {f.qual} is not of the form '<node>/<op>/<var>'")
            loops = [a for a in _anc(st) if isinstance(a, ast.For)]
            if len(loops) != 2:
                raise AnalysisError(f"{rid}: `{norm(st)}` is not inside (loop over nodes) > (loop over ranges)")
            inner, outer = loops
            it = inner.iter
            if not (isinstance(it, ast.Call) and call_name(it) == "items" and isinstance(it.func.value, ast.Name) and isinstance(inner.target, ast.Tuple)
                    and len(inner.target.elts) == 2 and all(isinstance(e, ast.Tuple) and len(e.elts) == 2 and all(isinstance(x, ast.Name) for x in e.elts)
                                                            for e in inner.target.elts)):
                raise AnalysisError(f"{rid}: unrecognised loop over the ranges: {norm(inner)}")
            (k_op, k_var), (r_lo, r_hi) = ((x.id for x in e.elts) for e in inner.target.elts)
            rng_name = it.func.value
            # (a) the ranges iterated are the result of an apply call in the same iteration
            defs = rd.defs_reaching(rng_name)
            facts = {"store": norm(st), "ranges_defs": [norm(d) for d in defs if isinstance(d, ast.AST)]}
            label_a = f"ranges of this iteration: {norm(st)}"
            apply_call = None
            pos = None
            good = len(defs) == 1 and isinstance(defs[0], ast.Assign) and in_body(outer, defs[0]) and cfg.dominates(defs[0], inner)
            if good:
                d = defs[0]
                t0 = d.targets[0]
                if isinstance(t0, ast.Tuple) and isinstance(d.value, ast.Call):
                    names = [e.id if isinstance(e, ast.Name) else None for e in t0.elts]
                    if rng_name.id in names:
                        pos = names.index(rng_name.id)
                        apply_call = d.value
                elif isinstance(t0, ast.Name) and isinstance(d.value, ast.Call):
                    apply_call = d.value
            if not good:
                ctx.violation(rid, f, st, f"the ranges iterated by `{norm(inner)}` are not (only) the result of an apply call made in the same iteration of "
                                          f"`{norm(outer)}` on every path: a node would be given the index range of a previously applied node", facts, label=label_a)
                continue
            if apply_call is None or call_name(apply_call) != "apply":
                raise AnalysisError(f"{rid}: `{norm(defs[0])}` is not an unpacked apply(...) call")
            targets, how = ctx.cg.resolve_call(f, apply_call)
            if how == "by-name":
                # untyped receiver: keep every repository method of that name that could take this call and whose result can be unpacked
                targets = [tg for tg in targets if _feasible(apply_call, tg)]
            chain = []
            if targets:
                for tg in targets:
                    ok, chain = _returns_ranges(ctx, tg, pos)
                    if not ok:
                        break
                facts["apply_targets"] = [t.qualname for t in targets]
                facts["return_chain"] = chain
                if not ok:
                    ctx.violation(rid, f, st, f"position {pos} of the value returned by `{norm(apply_call)}` is not the dictionary of (start, stop) index "
                                              f"ranges (followed through {chain})", facts, label=label_a)
                    continue
            else:
                facts["apply_targets"] = f"unresolved ({how})"
                if pos != 2:
                    raise AnalysisError(f"{rid}: cannot resolve `{norm(apply_call)}` and the ranges are not its third result")
            ctx.ok(rid, f, st, f"the ranges are the {'third' if pos == 2 else str(pos)} result of `{norm(apply_call)[:70]}` of the same iteration", facts, label=label_a)
            # (b) the node in the key is the node that was applied
            outer_names = [x.id for x in ast.walk(outer.target) if isinstance(x, ast.Name)]
            lab = next((k.value for k in apply_call.keywords if k.arg == "label"), None)
            node_hole = holes[0].id
            label_b = f"key names the applied node: {norm(st)}"
            if node_hole in outer_names and rd.defs_reaching(holes[0]) == [outer] and isinstance(lab, ast.Name) and lab.id == node_hole:
                ctx.ok(rid, f, st, f"the key's node part `{node_hole}` is the loop's node, which is also the label handed to apply", label=label_b)
            else:
                ctx.violation(rid, f, st, f"the key's node part `{node_hole}` is not the node whose template was applied in this iteration (label="
                                          f"{norm(lab) if lab is not None else 'missing'}): the range would be filed under another node", label=label_b)
            # (c) op/var parts and the (start, stop) pair come from the same entry
            label_c = f"entry pairing: {norm(st)}"
            var_ok = holes[2].id == k_var and rd.defs_reaching(holes[2]) == [inner]
            op_defs = rd.defs_reaching(holes[1])
            op_ok = holes[1].id == k_op and inner in op_defs and all(d is inner or (isinstance(d, ast.Assign) and in_body(inner, d)) for d in op_defs)
            v = st.value
            core = v
            while isinstance(core, ast.Call) and call_name(core) in ("list", "asarray", "array") and core.args:
                core = core.args[0]
            rng_ok = isinstance(core, ast.Call) and call_name(core) in ("range", "arange") and len(core.args) == 2 and not core.keywords
            if not rng_ok:
                raise AnalysisError(f"{rid}: stored value `{norm(v)}` is not list(range(start, stop)) (unrecognised form)")
            a0, a1 = core.args
            pair_ok = isinstance(a0, ast.Name) and isinstance(a1, ast.Name) and a0.id == r_lo and a1.id == r_hi \
                and rd.defs_reaching(a0) == [inner] and rd.defs_reaching(a1) == [inner]
            if var_ok and op_ok and pair_ok:
                ctx.ok(rid, f, st, "operator/variable of the key and (start, stop) of the value come from one entry of the returned ranges, in that order", label=label_c)
            else:
                why = []
                if not pair_ok:
                    why.append(f"the stored range is `{norm(core)}`, not range({r_lo}, {r_hi}) of the entry")
                if not var_ok:
                    why.append(f"the key's variable part is `{holes[2].id}`, not the entry's `{k_var}`")
                if not op_ok:
                    why.append(f"the key's operator part is `{holes[1].id}`, not (a re-labelling of) the entry's `{k_op}`")
                ctx.violation(rid, f, st, "; ".join(why) + ": frontend variable paths would map to the wrong positions of the merged vector", label=label_c)
    if n_inst < 2:
        raise AnalysisError(f"{rid}: expected the index stores of _apply_nodes and _apply_populations_and_connections")


def r5_index_roles(ctx, rid):
    """C16-R1 registered under C04: the vectorized weight matrices obey the same row/column roles."""
    _c16.r1_index_roles(ctx, rid)



def r6_indexing_dropped_only_for_identity(ctx, rid):
    """_get_indexed_var_str may return the bare variable for an index *list* (no indexing emitted) only when the list is
    exactly [0, 1, .., n-1]: with vectorize=True a full-length list that is a permutation must still be applied, otherwise
    inputs land on the wrong members of the merged population (vectorize=False has scalars and is unaffected)."""
    import ast as _ast
    from engine import AnalysisError as _AE
    from engine.util import call_name as _cn
    from engine.srcmodel import norm as _norm, walk_shallow as _ws
    f = ctx.repo.get_func("pyrates/ir/circuit.py", "_get_indexed_var_str")
    if f.params[:2] != ["var", "idx"]:
        raise _AE(f"{rid}: signature of _get_indexed_var_str changed")
    cfg = ctx.cfg(f)
    # the list branch: statements under `if len(idx) > 0:`
    branch = [st for st in f.node.body if isinstance(st, _ast.If) and _ast.unparse(st.test).replace(" ", "") == "len(idx)>0"]
    if len(branch) != 1:
        raise _AE(f"{rid}: list branch `if len(idx) > 0:` of _get_indexed_var_str not recognised")
    rets = [n for n in _ast.walk(branch[0]) if isinstance(n, _ast.Return) and isinstance(n.value, _ast.Name) and n.value.id == "var"]
    if not rets:
        ctx.ok(rid, f, branch[0], "an index list is always applied (no shortcut)", label="bare variable only for the identity index list")
        return
    for r in rets:
        guards = [d for d in cfg.dominators(r) if isinstance(d, _ast.If) and d is not branch[0] and any(x is r for x in _ast.walk(d))]
        text = " and ".join(_ast.unparse(g.test) for g in guards)
        facts = {"guards": [_norm(g) for g in guards]}
        proof = None
        for g in guards:
            t = g.test
            # (b) whole-list equality forms
            for c in _ast.walk(t):
                if isinstance(c, _ast.Compare) and len(c.ops) == 1 and isinstance(c.ops[0], _ast.Eq):
                    sides = [_ast.unparse(c.left).replace(" ", ""), _ast.unparse(c.comparators[0]).replace(" ", "")]
                    if any(sd in ("list(idx)", "idx") for sd in sides) and any("range(" in sd and "var_length" in sd for sd in sides):
                        proof = "list equality with range(var_length)"
                if isinstance(c, _ast.Call) and _cn(c) == "array_equal" and "idx" in _ast.unparse(c) and "var_length" in _ast.unparse(c):
                    proof = "array_equal with arange(var_length)"
                if isinstance(c, _ast.Call) and _cn(c) == "all" and c.args and isinstance(c.args[0], (_ast.GeneratorExp, _ast.ListComp)):
                    gen = c.args[0]
                    if "idx" in _ast.unparse(gen.generators[0].iter) and any(isinstance(k, _ast.Compare) and isinstance(k.ops[0], _ast.Eq) for k in _ast.walk(gen.elt)):
                        proof = "all(element == position)"
            # (a) flag form: `if identical:` where identical starts True and is cleared by an element-wise != inside a loop over idx
            if isinstance(t, _ast.Name):
                flag = t.id
                inits = [x for x in _ast.walk(branch[0]) if isinstance(x, _ast.Assign) and any(isinstance(tt, _ast.Name) and tt.id == flag for tt in x.targets)]
                set_true = [x for x in inits if isinstance(x.value, _ast.Constant) and x.value.value is True]
                set_false = [x for x in inits if isinstance(x.value, _ast.Constant) and x.value.value is False]
                loops = [l for l in _ast.walk(branch[0]) if isinstance(l, _ast.For) and "idx" in _ast.unparse(l.iter)
                         and ("var_length" in _ast.unparse(l.iter) or "enumerate" in _ast.unparse(l.iter))]
                ok_loop = False
                for l in loops:
                    for x in set_false:
                        if any(y is x for y in _ast.walk(l)):
                            conds = [d for d in _ast.walk(l) if isinstance(d, _ast.If) and any(y is x for y in _ast.walk(d))]
                            if conds and any(isinstance(k, _ast.Compare) and isinstance(k.ops[0], _ast.NotEq) for k in _ast.walk(conds[0].test)):
                                ok_loop = True
                if set_true and set_false and ok_loop:
                    proof = "element-wise comparison loop"
        if proof:
            ctx.ok(rid, f, r, f"indexing is dropped only after an element-wise identity proof ({proof})", facts,
                   label="bare variable only for the identity index list")
            continue
        finite = all(all(isinstance(n, (_ast.Name, _ast.Constant, _ast.Compare, _ast.BoolOp, _ast.BinOp, _ast.Call, _ast.Subscript, _ast.UnaryOp,
                                         _ast.Load, _ast.And, _ast.Or, _ast.Eq, _ast.Add, _ast.Sub, _ast.USub, _ast.operator, _ast.cmpop, _ast.boolop,
                                         _ast.unaryop, _ast.expr_context)) for n in _ast.walk(g.test)) for g in guards)
        if guards and finite:
            ctx.violation(rid, f, r, f"the bare variable is returned for an index list under `{text}`, which inspects only the length / a few "
                                     f"elements: a full-length permutation (vectorised nodes addressed in another order) is mistaken for the identity "
                                     f"and its indexing is dropped", facts, label="bare variable only for the identity index list")
        else:
            raise _AE(f"{rid}: guard of `return var` in the list branch not recognised: {text!r}")



def r7_merge_key_is_the_operator_graph(ctx, rid):
    """cache_func merges a node into an already compiled vectorised node when their cache keys are equal.  The merged node
    evaluates the cached node's operator graph, so the key must identify the whole operator graph the cached value was built
    from: `hash(<that graph object>)` (or the object itself).  A hand-made aggregate of component hashes through a set /
    frozenset collapses duplicates and order - two node types with the same operator *forms* but different multiplicity would be
    merged (vectorize=True) although vectorize=False keeps them apart."""
    import ast as _ast
    from engine import AnalysisError as _AE
    from engine.util import call_name as _cn, single_def_value as _sdv
    from engine.srcmodel import walk_shallow as _ws, norm as _norm
    f = ctx.repo.get_func("pyrates/ir/node.py", "cache_func")
    stores = [st for st in _ws(f.node) if isinstance(st, _ast.Assign) and len(st.targets) == 1 and isinstance(st.targets[0], _ast.Subscript)
              and isinstance(st.targets[0].value, _ast.Name) and st.targets[0].value.id == "node_cache"]
    reads = [n for n in _ws(f.node) if isinstance(n, _ast.Subscript) and isinstance(n.ctx, _ast.Load) and isinstance(n.value, _ast.Name)
             and n.value.id == "node_cache"]
    if len(stores) != 1 or not reads:
        raise _AE(f"{rid}: node_cache store/lookup in cache_func not recognised")
    st = stores[0]
    key_names = {_ast.unparse(st.targets[0].slice)} | {_ast.unparse(r.slice) for r in reads}
    if len(key_names) != 1 or not isinstance(st.targets[0].slice, _ast.Name):
        raise _AE(f"{rid}: node_cache is indexed by several expressions {sorted(key_names)}")
    kdef = _sdv(ctx, f, reads[0].slice)
    if kdef is None:
        raise _AE(f"{rid}: definition of the cache key `{reads[0].slice.id}` not found")
    for _ in range(4):          # follow plain aliases: h = graph_key; graph_key = hash(op_graph)
        if isinstance(kdef, _ast.Name):
            nxt = _sdv(ctx, f, kdef)
            if nxt is None:
                break
            kdef = nxt
    # the object the cached value is built from: operators= argument of the constructor whose result is stored
    vdef = _sdv(ctx, f, st.value) if isinstance(st.value, _ast.Name) else st.value
    built_from = None
    if isinstance(vdef, _ast.Call):
        for k in vdef.keywords:
            if k.arg == "operators" and isinstance(k.value, _ast.Name):
                built_from = k.value.id
    if built_from is None:
        raise _AE(f"{rid}: cannot find the operator graph the cached node is constructed from")
    facts = {"key": _ast.unparse(kdef), "value_built_from": built_from}
    direct = (isinstance(kdef, _ast.Call) and _cn(kdef) == "hash" and len(kdef.args) == 1 and isinstance(kdef.args[0], _ast.Name)
              and kdef.args[0].id == built_from) or (isinstance(kdef, _ast.Name) and kdef.id == built_from)
    if direct:
        ctx.ok(rid, f, st, f"nodes are merged under the hash of the operator graph `{built_from}` the cached node is built from", facts,
               label="merge key identifies the whole operator graph")
        return
    lossy = [n for n in _ast.walk(kdef) if isinstance(n, _ast.Call) and _cn(n) in ("frozenset", "set", "sum", "min", "max", "any", "all", "len")]
    lossy += [n for n in _ast.walk(kdef) if isinstance(n, (_ast.Set, _ast.SetComp))]
    lossy += [n for n in _ast.walk(kdef) if isinstance(n, _ast.BinOp) and isinstance(n.op, (_ast.BitXor, _ast.Add, _ast.BitOr, _ast.BitAnd))]
    if lossy:
        ctx.violation(rid, f, st, f"the merge key `{_ast.unparse(kdef)}` aggregates component hashes through an order- and duplicate-collapsing "
                                  f"operation instead of hashing the operator graph `{built_from}`: node types with the same operator forms but "
                                  f"different multiplicity/order collide and are merged into one vectorised node (vectorize=True differs from "
                                  f"vectorize=False)", facts, label="merge key identifies the whole operator graph")
    else:
        raise _AE(f"{rid}: unrecognised cache key `{_ast.unparse(kdef)}` (neither hash({built_from}) nor a recognised lossy aggregate)")



def r_perm_identity(ctx, rid):
    """Index-dropping shortcuts must be guarded by an exact identity test of the index list (shared lint, see _identity_lint)."""
    from ._identity_lint import permutation_test_as_identity
    permutation_test_as_identity(ctx, rid)


RULES = [
    ("C04-R1", r1_collapse_guard, 8),
    ("C04-R2", r2_append_ranges, 9),
    ("C04-R3", r3_group_edges, 8),
    ("C04-R4", r4_node_ranges, 4),
    ("C04-R5", r5_index_roles, 30),
    ("C04-R6", r6_indexing_dropped_only_for_identity, 1),
    ("C04-R7", r7_merge_key_is_the_operator_graph, 1),
    ("C04-R8", r_perm_identity, 1),
]
