"""C20 — unsupported requests fail loudly instead of returning numbers (DESIGN §4 C20)."""
from __future__ import annotations

import ast
import builtins
from typing import Callable, Dict, List, Optional

from engine import AnalysisError
from engine.srcmodel import walk_shallow, norm, parent, ancestors, dotted, set_parents
from engine.util import call_name, contains, header_nodes, single_def_value, enumerate_paths
from engine.cfg import stmt_of
from . import solvers as S
from ._strconcat_lint import implicit_concats, is_string_table, self_check as _concat_self_check

PROPERTY = "C20"
CIRCUIT_T = "pyrates/frontend/template/circuit.py"
CIRCUIT_IR = "pyrates/ir/circuit.py"
CG = "pyrates/backend/computegraph.py"
OP_T = "pyrates/frontend/template/operator.py"
OPGRAPH_T = "pyrates/frontend/template/operator_graph.py"
OPGRAPH_IR = "pyrates/ir/operator_graph.py"
EDGE_IR = "pyrates/ir/edge.py"
PARSER = "pyrates/backend/parser.py"
ANCHORED = [S.BASE_REL, CIRCUIT_T, CIRCUIT_IR, CG, OP_T, OPGRAPH_T, OPGRAPH_IR, EDGE_IR]

EXPLANATION = (
    "Decides the error discipline of the compiler as path obligations on its own source; nothing is executed, so the backend x "
    "solver x option matrix itself is NOT run.  R1 for every BaseBackend subclass: the _validate_solver it resolves to accepts only "
    "members of self.SUPPORTED_SOLVERS (every normal path passes the membership test on its accepting edge, a sound super() "
    "validator, or the one frozen prefix shortcut); along the chain of _solve overrides (following super()._solve) every call of a "
    "_solve_<name> implementation and every inline solver block is dominated by that validation; and the dispatcher separates the "
    "declared names: no two entries of SUPPORTED_SOLVERS take the same branch decisions (else one name silently runs the other's "
    "algorithm) and each reaches an implementation.  R2 every SUPPORTS_* flag of BaseBackend is read by a test whose failing branch "
    "cannot return normally; the csr_matrix emission of get_jacobian_func is covered by the sparse guard; every normal return of "
    "CircuitIR.__init__ passes the ring-buffer test, which leads unconditionally to the flag test; every NetworkGraph statement that "
    "emits a `roll(` equation is paired with `_uses_edge_delay_buffer = True` and the marker is never reset after it may have been "
    "set.  R3 in run/get_run_func/get_jacobian_func (and any other caller that hands a backend to CircuitTemplate.apply) "
    "_validate_backend_args dominates apply with the same backend/vectorize values, and _validate_backend_args(vectorize=True, "
    "backend='fortran') can only raise.  R4 for every get_nodes(...) result built from a user-supplied path and then iterated: "
    "under the assumption that the result is empty every path to the normal exit (or to the next loop iteration) passes a warn, a "
    "raise or an unconditional result[0]; output look-ups must raise; instances are all callers of CircuitTemplate.get_nodes outside "
    "get_nodes itself, minus constant identifiers and the frozen query getters (this is wider than the var_identifier= sites of the "
    "design and includes the node_values look-up of CircuitTemplate.apply).  R5 no statement merely constructs an exception/warning "
    "object (detector checked against a synthetic positive control on every run; two known sites in ir/abc.py are listed as "
    "information); every broad handler (bare/Exception) that neither re-raises nor reports and whose try body can reach a raise of "
    "PyRates' own code is one of four frozen, justified sites.  R6 must-pass obligations for check_vname (each variable handed to the OperatorIR is name-checked; each reserved-name "
    "table is enforced by a raise), the single-output raise, the leftover value_updates raise, the cycle raise, the EdgeIR.output "
    "raise.  R7 every fixed-step solver override feeds a DDEHistory after the step or refuses it before integrating (D-14).  "
    "R8 every method of ir/operator_graph.py that pairs a supplied value dict (a dict parameter or an entry of one) with the declared "
    "variable table of an operator (`self.<...>[op]['variables']`) iterates over the SUPPLIED keys and indexes the declared table with "
    "each of them on every path of the iteration (the KeyError is the only report of a node-level value addressed to a variable that "
    "does not exist); iterating the declared side and looking the value up, or testing / `.get`-ting the key without a raise or warning, "
    "leaves unknown supplied keys unexamined (R5-C20 seed).  "
    "Lint on every constant string table these rules read (SUPPORTED_SOLVERS in R1, the backend tables of _validate_backend_args in "
    "R3, the reserved names / name parts of check_vname in R6, local or module level): no element is an implicit concatenation of "
    "adjacent string literals (a lost comma merges two entries into one that matches nothing); decided on the token stream of the "
    "element's source extent, with a synthetic positive control on every run.  "
    "R4 narrowing: a statement that narrows a resolved selection (a private filter of the look-up implementation handed the selection, "
    "a filtering comprehension) is a selection of its own - narrowed to nothing from a non-empty selection, every continuation must "
    "pass a warn / raise after the narrowing.  "
    "R4 scope: a look-up in a private helper without any effect (engine effect summaries) is listed as a read-only query - what its "
    "callers do with the answer is not followed.  "
    "NOT decided: which names belong in the reserved list, message quality, errors raised by third-party libraries, loudness of "
    "edges with missing endpoints (they fail with KeyError in look-ups that are not modelled; the _verify_path obligations of the "
    "design are listed as information only because removing them does not make the template route silent), the Julia/Matlab bridges."
)
RULE_TEXT = ("instances are found through the class table (BaseBackend subclasses, MRO look-up of _solve/_validate_solver), the "
             "resolved call graph (callers of apply/get_nodes/check_vname) and string templates (roll(, csr_matrix); each obligation "
             "is a CFG dominance / must-pass query, where needed on the CFG pruned by a three-valued evaluation of the branch tests "
             "under the stated assumption (solver == name, result empty, len == 2, vectorize and backend == 'fortran').  Constructs "
             "are identified by role: single-definition aliases are followed, a guard / look-up / validation extracted into a private "
             "helper is analysed in the helper and lifted to every call site (R1 validator helpers, R2 marker+flag test, R3 "
             "validate-before-apply, R4 result handed back to the caller, R6 refusal helper), and frozen broad handlers are keyed by "
             "the PyRates functions their try body calls.")
ASSUMPTIONS = [
    "A statement is taken to complete normally unless it is a raise; library calls raising on their own are not modelled, except that "
    "`xs[0]` on an empty list raises IndexError.",
    "Frozen tables (each entry confirmed by reading): VALIDATOR_SHORTCUTS (Julia's prefix match), R4_MUST_RAISE / R4_QUERIES, "
    "BROAD_HANDLERS (4 best-effort sites, keyed by module / owning function / own callees of the try body), UNRAISED_KNOWN (2 sites outside the pipeline), HISTORY_EXCEPTIONS (JAX tracer failure).",
]

# ------------------------------------------------------------------------------------------------
# frozen tables
# ------------------------------------------------------------------------------------------------
# accepted without the membership test: names containing the given constant (identified by class and constant, whatever the
# spelling / polarity of the test)
VALIDATOR_SHORTCUTS = {
    ("JuliaBackend", "julia"): "any 'julia*' name is dispatched to DifferentialEquations.jl by the same test in JuliaBackend._solve",
}
# get_nodes look-ups whose empty result must raise (outputs), others may warn
R4_MUST_RAISE = {
    "CircuitTemplate.get_variable_positions": "an output that does not exist must raise (property statement)",
    "CircuitTemplate.get_var": "variable look-up for the caller; nothing sensible can be returned",
}
# get_nodes look-ups that are pure queries: the empty list *is* the answer
R4_QUERIES = {
    "CircuitTemplate.get_edges": "getter: returns the (possibly empty) list of matching edges to the caller",
}
# frozen broad handlers, identified by what the try body calls of PyRates' own code (never by statement text or local names):
# (module, function the site belongs to, own callees the try body may call)
BROAD_HANDLERS = {
    (PARSER, "parse_equations", ("register_vars",)):
        "pre-registration in declaration order is best effort; the expression parser registers the variable again and raises then",
    (PARSER, "parse_equations", ("add_var", "register_vars")):
        "same pre-registration; ExpressionParser.parse_expr performs the authoritative add_var",
    (CG, "ComputeGraph.to_func", ("_compute_symbolic_jacobian",)):
        "the analytical auto-07p Jacobian is optional (auto falls back to finite differences)",
    (CG, "ComputeGraph._get_symbolic_rhs", ("_node_to_expr",)):
        "an auxiliary variable that cannot be expressed symbolically is left unexpanded; only used for the optional Jacobian",
}
R3_ENTRIES = ("CircuitTemplate.run", "CircuitTemplate.get_run_func", "CircuitTemplate.get_jacobian_func")
UNRAISED_KNOWN = {
    ("pyrates/ir/abc.py", "AbstractBaseIR.to_file"): "to_file of an IR object is not part of the compile/run pipeline",
    ("pyrates/ir/abc.py", "AbstractBaseIR.from_file"): "from_file of an IR object is not part of the compile/run pipeline",
}
HISTORY_EXCEPTIONS = {
    ("JaxBackend", "_solve_euler"): "lax.scan traces the step; DDEHistory.__call__ does float(t) on a tracer -> ConcretizationTypeError (loud)",
    ("JaxBackend", "_solve_heun"): "same as JaxBackend._solve_euler",
}


# ------------------------------------------------------------------------------------------------
# three-valued evaluation and pruned path search
# ------------------------------------------------------------------------------------------------
class _Unk:
    def __repr__(self):
        return "UNK"


UNK = _Unk()


class Len:
    """Abstract container of which only the length is known."""

    def __init__(self, n: int):
        self.n = n


def _truth(v):
    if v is UNK:
        return UNK
    if isinstance(v, Len):
        return v.n > 0
    return bool(v)


def _cmp(op, a, b):
    if a is UNK or b is UNK:
        return UNK
    if isinstance(op, (ast.Is, ast.IsNot)) and (a is None or b is None) and (isinstance(a, Len) or isinstance(b, Len)):
        return isinstance(op, ast.IsNot)        # a list (of whatever length) is not None
    if isinstance(a, Len) or isinstance(b, Len):
        # `xs == []` / `xs != []` for a list of known length: decidable when the lengths differ, or both are empty
        la = a.n if isinstance(a, Len) else (len(a) if isinstance(a, list) else None)
        lb = b.n if isinstance(b, Len) else (len(b) if isinstance(b, list) else None)
        if la is None or lb is None or not isinstance(op, (ast.Eq, ast.NotEq)):
            return UNK
        if la != lb:
            return isinstance(op, ast.NotEq)
        return isinstance(op, ast.Eq) if la == 0 else UNK
    try:
        if isinstance(op, ast.Eq):
            return a == b
        if isinstance(op, ast.NotEq):
            return a != b
        if isinstance(op, ast.Lt):
            return a < b
        if isinstance(op, ast.LtE):
            return a <= b
        if isinstance(op, ast.Gt):
            return a > b
        if isinstance(op, ast.GtE):
            return a >= b
        if isinstance(op, ast.In):
            return a in b
        if isinstance(op, ast.NotIn):
            return a not in b
        if isinstance(op, ast.Is):
            return (a is None) == (b is None) if (a is None or b is None) else UNK
        if isinstance(op, ast.IsNot):
            return (a is None) != (b is None) if (a is None or b is None) else UNK
    except TypeError:
        return UNK
    return UNK


_COPIES = ("list", "tuple", "sorted", "copy", "deepcopy")        # f(x): a sequence with as many elements as x, in x's order or sorted
_ARRAY_COPIES = ("asarray", "array", "asanyarray")                # np.asarray(x): one entry per element of a flat sequence
_COPY_METHODS = ("copy", "tolist")                                # x.copy(), arr.tolist()


def _copy_source(e: ast.AST) -> Optional[ast.AST]:
    """`x` when `e` is an order-keeping / sorting copy of the sequence `x` with the same number of elements: list(x), tuple(x),
    sorted(x), copy(x), x[:], x[::-1], x.copy(), np.asarray(x), arr.tolist().  None otherwise."""
    if isinstance(e, ast.Call):
        fn = e.func
        kws = {k.arg for k in e.keywords}
        if isinstance(fn, ast.Name) and fn.id in _COPIES and len(e.args) == 1 and kws <= {"key", "reverse"}:
            return e.args[0]
        if isinstance(fn, (ast.Name, ast.Attribute)) and (fn.id if isinstance(fn, ast.Name) else fn.attr) in _ARRAY_COPIES \
                and len(e.args) == 1 and kws <= {"dtype", "copy", "order"}:
            return e.args[0]
        if isinstance(fn, ast.Attribute) and fn.attr in ("copy", "deepcopy") and isinstance(fn.value, ast.Name) and fn.value.id == "copy" \
                and len(e.args) == 1 and not kws:
            return e.args[0]                                    # copy.copy(x) / copy.deepcopy(x)
        if isinstance(fn, ast.Attribute) and fn.attr in _COPY_METHODS and not e.args and not kws:
            return fn.value
        return None
    if isinstance(e, ast.Subscript) and isinstance(e.slice, ast.Slice) and e.slice.lower is None and e.slice.upper is None:
        st = e.slice.step
        if st is None or (isinstance(st, ast.Constant) and st.value == 1) \
                or (isinstance(st, ast.UnaryOp) and isinstance(st.op, ast.USub) and isinstance(st.operand, ast.Constant) and st.operand.value == 1):
            return e.value
    return None


def _through_copies(e: ast.AST) -> ast.AST:
    while True:
        inner = _copy_source(e)
        if inner is None:
            return e
        e = inner


def ev(e: ast.AST, env: dict):
    """Value of `e` under `env` (name -> python value | Len), or UNK."""
    if isinstance(e, ast.Constant):
        return e.value
    if isinstance(e, ast.Name):
        if e.id in env:
            return env[e.id]
        # a test bound to a local first (`nothing = len(xs) < 1` ... `if nothing:`): follow the single reaching definition
        res = env.get("__resolve__")
        depth = env.get("__depth__", 0)
        if res is not None and depth < 4:
            v = res(e)
            if v is not None:
                return ev(v, dict(env, __depth__=depth + 1))
        return UNK
    if isinstance(e, (ast.List, ast.Tuple, ast.Set)):
        vals = [ev(x, env) for x in e.elts]
        if any(v is UNK or isinstance(v, Len) for v in vals):
            return UNK
        return tuple(vals) if isinstance(e, ast.Tuple) else list(vals)
    if isinstance(e, ast.UnaryOp) and isinstance(e.op, ast.Not):
        t = _truth(ev(e.operand, env))
        return UNK if t is UNK else (not t)
    if isinstance(e, ast.BoolOp):
        ts = [_truth(ev(v, env)) for v in e.values]
        if isinstance(e.op, ast.And):
            if any(t is False for t in ts):
                return False
            return True if all(t is True for t in ts) else UNK
        if any(t is True for t in ts):
            return True
        return False if all(t is False for t in ts) else UNK
    inner = _copy_source(e)
    if inner is not None:
        v = ev(inner, env)              # a copy has the length of the original
        if isinstance(v, Len):
            return v
        if isinstance(v, (list, tuple)) and isinstance(e, ast.Call) and isinstance(e.func, ast.Name) and e.func.id in ("list", "tuple"):
            return list(v) if e.func.id == "list" else tuple(v)
        return UNK
    if isinstance(e, ast.Call) and isinstance(e.func, ast.Name) and e.func.id == "len" and len(e.args) == 1 and not e.keywords:
        v = ev(e.args[0], env)
        if isinstance(v, Len):
            return v.n
        if isinstance(v, (list, str, tuple)):
            return len(v)
        return UNK
    if isinstance(e, ast.Compare):
        left = ev(e.left, env)
        for op, c in zip(e.ops, e.comparators):
            right = ev(c, env)
            r = _cmp(op, left, right)
            if r is UNK:
                return UNK
            if not r:
                return False
            left = right
        return True
    return UNK


def _iter_len(e: ast.AST, env: dict) -> Optional[int]:
    v = ev(e, env)
    if isinstance(v, Len):
        return v.n
    if isinstance(v, (list, str, tuple)):
        return len(v)
    if isinstance(e, ast.Call) and call_name(e) in ("enumerate", "zip", "reversed", "sorted", "list", "tuple", "iter") and e.args:
        ls = [_iter_len(a, env) for a in e.args]
        known = [x for x in ls if x is not None]
        if call_name(e) == "zip":
            return 0 if 0 in known else None
        return ls[0]
    return None


def _allowed_labels(n, env) -> Optional[set]:
    if isinstance(n, (ast.If, ast.While)):
        t = _truth(ev(n.test, env))
        if t is True:
            return {"true"}
        if t is False:
            return {"false"}
    if isinstance(n, (ast.For, ast.AsyncFor)):
        if _iter_len(n.iter, env) == 0:
            return {"done"}
    return None


def edge_kind(cfg, n, s) -> str:
    """Structural kind of the CFG edge n -> s.  (Edge labels are not used for branch edges: the false/done edge of the last
    statement of a loop body is labelled 'back'.)"""
    if isinstance(s, ast.ExceptHandler) or (s is cfg.RAISE and not isinstance(n, ast.Raise)):
        return "exc"
    if isinstance(n, (ast.If, ast.While)):
        return "true" if s is n.body[0] else "false"
    if isinstance(n, (ast.For, ast.AsyncFor)):
        return "iter" if s is n.body[0] else "done"
    return "next"


def succ(cfg, n, kind: str) -> list:
    return [s for s in cfg.g.successors(n) if edge_kind(cfg, n, s) == kind]


def _handler_names(h: ast.ExceptHandler) -> Optional[List[str]]:
    if h.type is None:
        return None
    ts = h.type.elts if isinstance(h.type, ast.Tuple) else [h.type]
    out = []
    for t in ts:
        d = dotted(t)
        out.append(d.split(".")[-1] if d else "?")
    return out


def _builtin_exc_mro(name: str) -> Optional[set]:
    k = getattr(builtins, name, None)
    if isinstance(k, type) and issubclass(k, BaseException):
        return {c.__name__ for c in k.__mro__}
    return None


def exception_ancestry(ctx, module, callee: ast.AST) -> Optional[set]:
    """Class names in the ancestry of the class `callee` names, when that is an exception/warning class whose whole
    ancestry is known (repo classes + builtins); None otherwise."""
    r = ctx.repo.resolve_expr(module, callee) if isinstance(callee, (ast.Name, ast.Attribute)) else None
    if r is not None and r.__class__.__name__ == "ClassInfo":
        names = set()
        for c in r.mro:
            names.add(c.name)
            for b in c.bases:
                if isinstance(b, str):
                    m = _builtin_exc_mro(b.split(".")[-1])
                    if m is None:
                        return None
                    names |= m
        return names if "BaseException" in names else None
    if isinstance(callee, ast.Name) and ctx.repo.resolve_name(module, callee.id) is None:
        return _builtin_exc_mro(callee.id)
    return None


def _raise_edge_ok(ctx, f):
    """Edge filter: a `raise X(...)` reaches an except clause only if the clause can catch X (when X's ancestry is known)."""
    def ok(n, s, labels):
        if isinstance(n, ast.Raise) and isinstance(s, ast.ExceptHandler):
            hn = _handler_names(s)
            if hn is None or any(x in ("Exception", "BaseException") for x in hn) or n.exc is None:
                return True
            callee = n.exc.func if isinstance(n.exc, ast.Call) else n.exc
            anc = exception_ancestry(ctx, f.module, callee)
            if anc is None:
                return True
            return bool(anc & set(hn))
        return True
    return ok


def find_path(cfg, starts, is_goal: Callable, avoid: Callable = None, env: dict = None, edge_ok: Callable = None):
    """A path from one of `starts` to a node satisfying is_goal that passes no node satisfying `avoid`, following only
    the branch edges compatible with `env`; None if there is none."""
    seen = set()
    stack = [(s, [s]) for s in starts]
    while stack:
        n, path = stack.pop()
        if is_goal(n):
            return path
        if id(n) in seen:
            continue
        seen.add(id(n))
        if avoid is not None and avoid(n):
            continue
        allowed = _allowed_labels(n, env) if env is not None else None
        for s in cfg.g.successors(n):
            labels = cfg.g[n][s]["labels"]
            if allowed is not None and edge_kind(cfg, n, s) not in allowed:
                continue
            if edge_ok is not None and not edge_ok(n, s, labels):
                continue
            stack.append((s, path + [s]))
    return None


def module_consts(ctx, f) -> dict:
    """Module-level constants a function body may refer to: names bound exactly once at module level to a literal (string, number,
    tuple/list/set of literals) that the function neither binds nor receives as a parameter.  A guard may test membership in such a
    hoisted table instead of an inline literal."""
    out = {}
    rd = ctx.rd(f)
    for nm, defs in f.module.assigns.items():
        if len(defs) != 1 or rd.is_local(nm) or nm in f.params:
            continue
        d = defs[0]
        val = d.value if isinstance(d, (ast.Assign, ast.AnnAssign)) else None
        if val is None or (isinstance(d, ast.Assign) and not (len(d.targets) == 1 and isinstance(d.targets[0], ast.Name))):
            continue
        v = ev(val, {})
        if v is not UNK and not isinstance(v, Len):
            out[nm] = v
    return out


def assume(ctx, f, **facts) -> dict:
    """Evaluation environment: the stated assumption on top of the module-level constants visible in `f`."""
    env = module_consts(ctx, f)
    env.update(facts)

    def resolve(name_node):
        if getattr(name_node, "_parent", None) is None or not isinstance(name_node.ctx, ast.Load):
            return None
        try:
            return single_def_value(ctx, f, name_node)
        except Exception:
            return None
    env["__resolve__"] = resolve
    return env


def decide_silent(cfg, starts, is_goal: Callable, avoid: Callable, env: dict, names, edge_ok: Callable = None):
    """Can a goal be reached from `starts` without passing an `avoid` node, under the assumption `env` on `names`?
    ("no", None): no compatible path.  ("yes", path): a path exists whatever the outcome of the branch tests that mention the
    assumed names but cannot be evaluated (both outcomes continue to a goal) - a positive reason for a violation.
    ("undecided", test): a path exists only for one outcome of such a test - the rule must not report."""
    loose = find_path(cfg, starts, is_goal, avoid=avoid, env=env, edge_ok=edge_ok)
    if loose is None:
        return "no", None
    names = set(names)
    memo: Dict[int, Optional[list]] = {}
    onstack: set = set()

    def mentions(e, depth=0):
        for x in ast.walk(e):
            if isinstance(x, ast.Name):
                if x.id in names:
                    return True
                res = env.get("__resolve__")
                v = res(x) if (res is not None and depth < 3) else None
                if v is not None and mentions(v, depth + 1):
                    return True
        return False

    def opaque(n):
        return isinstance(n, (ast.If, ast.While)) and _truth(ev(n.test, env)) is UNK and mentions(n.test)

    def go(n):
        if is_goal(n):
            return [n]
        if avoid is not None and avoid(n):
            return None
        if id(n) in memo:
            return memo[id(n)]
        if id(n) in onstack:
            return None
        onstack.add(id(n))
        allowed = _allowed_labels(n, env)
        succs = [s_ for s_ in cfg.g.successors(n)
                 if (allowed is None or edge_kind(cfg, n, s_) in allowed) and (edge_ok is None or edge_ok(n, s_, cfg.g[n][s_]["labels"]))]
        res = None
        if opaque(n):
            subs = [go(s_) for s_ in succs if edge_kind(cfg, n, s_) in ("true", "false")]
            if subs and all(p is not None for p in subs):
                res = [n] + subs[0]
        else:
            for s_ in succs:
                p = go(s_)
                if p is not None:
                    res = [n] + p
                    break
        onstack.discard(id(n))
        memo[id(n)] = res
        return res

    import sys
    lim = sys.getrecursionlimit()
    sys.setrecursionlimit(max(lim, 20000))
    try:
        for s0 in starts:
            p = go(s0)
            if p is not None:
                return "yes", p
    finally:
        sys.setrecursionlimit(lim)
    for n in loose:
        if opaque(n):
            return "undecided", n
    return "undecided", None


def branch_returns(ctx, f, node, label):
    """Witness path from the `label` branch of `node` to the normal exit, or None if that branch can only raise."""
    cfg = ctx.cfg(f)
    return find_path(cfg, succ(cfg, node, label), lambda n: n is cfg.EXIT, edge_ok=_raise_edge_ok(ctx, f))


def _stores(f, name: str) -> List[ast.AST]:
    return [n for n in walk_shallow(f.node) if isinstance(n, ast.Name) and n.id == name and isinstance(n.ctx, (ast.Store, ast.Del))]


def _is_docstring(st) -> bool:
    return isinstance(st, ast.Expr) and isinstance(st.value, ast.Constant) and isinstance(st.value.value, str)


def _strings_of(st) -> List[str]:
    if _is_docstring(st):
        return []
    return [n.value for n in header_nodes(st) if isinstance(n, ast.Constant) and isinstance(n.value, str)]


def _strip_not(e):
    neg = False
    while isinstance(e, ast.UnaryOp) and isinstance(e.op, ast.Not):
        neg = not neg
        e = e.operand
    return e, neg


def _self_call(call: ast.Call, f, name: str) -> bool:
    return isinstance(call.func, ast.Attribute) and call.func.attr == name and isinstance(call.func.value, ast.Name) \
        and call.func.value.id == f.self_name


def _super_call(call: ast.Call, name: Optional[str] = None, prefix: Optional[str] = None) -> bool:
    fn = call.func
    if not (isinstance(fn, ast.Attribute) and isinstance(fn.value, ast.Call) and isinstance(fn.value.func, ast.Name)
            and fn.value.func.id == "super"):
        return False
    return (name is None or fn.attr == name) and (prefix is None or fn.attr.startswith(prefix))


def _arg(call: ast.Call, pos: int, kw: str):
    for k in call.keywords:
        if k.arg == kw:
            return k.value
    if len(call.args) > pos and not any(isinstance(a, ast.Starred) for a in call.args[:pos + 1]):
        return call.args[pos]
    return None


def _is_private(f) -> bool:
    n = f.node.name
    return n.startswith("_") and not (n.startswith("__") and n.endswith("__"))


def _context_call_sites(ctx, f, contexts, depth=0, _seen=None) -> list:
    """Call sites (g, call) inside the functions named in `contexts` (qualnames) that run the private helper `f`, directly or
    through further private helpers.  Lets an obligation attached to a public function follow code extracted from it."""
    if not _is_private(f) or depth > 3:
        return []
    _seen = _seen if _seen is not None else set()
    if f in _seen:
        return []
    _seen.add(f)
    out = []
    for g, c in ctx.cg.call_sites_of(f):
        if g.qualname in contexts:
            out.append((g, c))
        else:
            out += [(h, c2) for h, c2 in _context_call_sites(ctx, g, contexts, depth + 1, _seen)]
    return out


def _in_raise(node: ast.AST) -> bool:
    return any(isinstance(a, ast.Raise) for a in ancestors(node))


def _only_while_raising(ctx, f, depth=0) -> bool:
    """The private helper `f` runs only while an exception is being raised: every call of it sits inside a `raise` statement
    (`raise X(self._message(...))`) or in another such helper.  Whatever it looks up or swallows, its caller raises."""
    if not _is_private(f) or depth > 3:
        return False
    sites = [(g, c) for g, c in ctx.cg.call_sites_of(f) if g != f]
    if not sites:
        return False
    return all(_in_raise(c) or _only_while_raising(ctx, g, depth + 1) for g, c in sites)


def _fresh_local(f, name: str) -> bool:
    """`name` is only ever bound to a fresh container display / constructor in `f` (a store into it does not outlive the call)."""
    if name in f.params:
        return False
    defs = [p_ for p_ in (parent(n) for n in _stores(f, name))]
    return bool(defs) and all(isinstance(d, ast.Assign) and isinstance(d.value, (ast.Dict, ast.List, ast.Set, ast.ListComp, ast.DictComp, ast.SetComp))
                              or (isinstance(d, ast.Assign) and isinstance(d.value, ast.Call) and isinstance(d.value.func, ast.Name)
                                  and d.value.func.id in ("dict", "list", "set") and not d.value.args) for d in defs)


def _effect_free(ctx, f) -> bool:
    """No mutation of anything that outlives the call, by the engine's interprocedural effect summaries (every variant)."""
    for n in walk_shallow(f.node):          # cheap syntactic screen before the (expensive, lazily built) effect summaries
        tgts = n.targets if isinstance(n, (ast.Assign, ast.Delete)) else ([n.target] if isinstance(n, (ast.AugAssign, ast.AnnAssign)) else [])
        if any(isinstance(t, (ast.Attribute, ast.Subscript)) and not (isinstance(t.value, ast.Name) and _fresh_local(f, t.value.id))
               for t in tgts for t in ([t] if not isinstance(t, (ast.Tuple, ast.List)) else t.elts)):
            return False
    eff = ctx.effects
    for v in eff.variants(f):
        if eff.mut.get((f, v)) or eff.gmut.get((f, v)) or eff.events_of(f, v):
            return False
    return True


def _loop_source(it: ast.AST) -> ast.AST:
    """the sequence a loop runs over: through enumerate()/reversed() and order-keeping copies"""
    while True:
        if isinstance(it, ast.Call) and isinstance(it.func, ast.Name) and it.func.id in ("enumerate", "reversed", "iter") and it.args:
            it = it.args[0]
            continue
        inner = _copy_source(it)
        if inner is None:
            return it
        it = inner


def _only_called_from(ctx, f, contexts, depth=0) -> set:
    """Qualnames of the functions in `contexts` that are the only (transitive, through private helpers) callers of the private
    helper `f`; empty when `f` is public, has no caller, or is also called from elsewhere."""
    if not _is_private(f) or depth > 3:
        return set()
    sites = ctx.cg.call_sites_of(f)
    if not sites:
        return set()
    out = set()
    for g, _ in sites:
        if g == f:
            continue
        if g.qualname in contexts:
            out.add(g.qualname)
            continue
        sub = _only_called_from(ctx, g, contexts, depth + 1)
        if not sub:
            return set()
        out |= sub
    return out


def _calls_of_stmt(st) -> List[ast.Call]:
    return [n for n in header_nodes(st) if isinstance(n, ast.Call)]


# ------------------------------------------------------------------------------------------------
# R1 — solver validation and dispatch
# ------------------------------------------------------------------------------------------------
def lint_table(ctx, rid, f, module, node, what: str, consequence: str, label: str = None, construct: str = None):
    """Obligation: no element of the constant string table `node` is an implicit concatenation of adjacent literals (a lost comma
    silently replaces two entries by one that matches nothing)."""
    _concat_self_check(rid)
    hits = implicit_concats(module.source, node)
    kw = dict(label=label) if f is not None else dict(construct=construct, loc=f"{module.rel}:{getattr(node, 'lineno', 1)}")
    if hits:
        e, toks = hits[0]
        ctx.violation(rid, f, node if f is not None else None,
                      f"{what}: the element {e.value!r} (line {e.lineno}) is written as the adjacent literals {' '.join(toks)} - a separator is "
                      f"missing, Python concatenates them into one entry and neither of the intended entries is in the table any more: "
                      f"{consequence}", {"element": e.value, "literals": toks}, **kw)
    else:
        ctx.ok(rid, f, node if f is not None else None, f"{what}: every element is a single string literal", nontrivial=False, **kw)


def module_tables_used(f) -> list:
    """[(name, value node)] of module-level constant string tables the function `f` refers to by name."""
    out = []
    local = {n.id for n in walk_shallow(f.node) if isinstance(n, ast.Name) and isinstance(n.ctx, (ast.Store, ast.Del))} | set(f.params)
    for nm in sorted({n.id for n in walk_shallow(f.node) if isinstance(n, ast.Name) and isinstance(n.ctx, ast.Load)} - local):
        defs = f.module.assigns.get(nm, [])
        if len(defs) == 1 and isinstance(defs[0], (ast.Assign, ast.AnnAssign)) and defs[0].value is not None and is_string_table(defs[0].value):
            out.append((nm, defs[0].value))
    return out


def _solver_param(f, rid, pname: str = "solver") -> str:
    if pname not in f.params:
        raise AnalysisError(f"{rid}: {f.qual} has no parameter `{pname}` (unrecognised signature)")
    if _stores(f, pname):
        raise AnalysisError(f"{rid}: {f.qual} re-binds `{pname}` (dispatch cannot be followed)")
    return pname


def _bind_args(callee, call: ast.Call) -> Dict[str, ast.AST]:
    """parameter name of `callee` -> actual argument expression at `call` (receiver of a method call skipped)."""
    a = callee.node.args
    pos = [x.arg for x in a.posonlyargs + a.args]
    if callee.cls is not None and not callee.is_static and isinstance(call.func, ast.Attribute):
        pos = pos[1:]
    out: Dict[str, ast.AST] = {}
    for i, arg in enumerate(call.args):
        if isinstance(arg, ast.Starred):
            break
        if i < len(pos):
            out[pos[i]] = arg
    for k in call.keywords:
        if k.arg:
            out[k.arg] = k.value
    return out


def _helper_target(ctx, cls, f, call: ast.Call):
    """The function a call made inside a method of an instance of `cls` runs: self.m(...) through the MRO of `cls`,
    a plain name through the module table; None for anything else."""
    fn = call.func
    if isinstance(fn, ast.Attribute) and isinstance(fn.value, ast.Name) and f.self_name is not None and fn.value.id == f.self_name:
        return ctx.repo.lookup_method(cls, fn.attr)
    if isinstance(fn, ast.Name) and fn.id not in f.nested:
        r = ctx.repo.resolve_name(f.module, fn.id)
        return r if r is not None and r.__class__.__name__ == "FunctionInfo" else None
    if isinstance(fn, ast.Attribute):
        r = ctx.repo.resolve_expr(f.module, fn)
        return r if r is not None and r.__class__.__name__ == "FunctionInfo" else None
    return None


def _is_supported_read(ctx, f, c: ast.AST, sup_params=frozenset(), seen: Optional[set] = None) -> Optional[bool]:
    """Is the expression `c` (the container of a membership test) the SUPPORTED_SOLVERS of the instance?
    True / False, or None when it is a local that cannot be followed."""
    if isinstance(c, ast.Call) and isinstance(c.func, ast.Name) and c.func.id in ("tuple", "list", "set", "frozenset") \
            and len(c.args) == 1 and not c.keywords:
        return _is_supported_read(ctx, f, c.args[0], sup_params, seen)
    if isinstance(c, ast.Name):
        if c.id in sup_params and not _stores(f, c.id):
            if seen is not None:
                seen.add(id(c))
            return True
        v = single_def_value(ctx, f, c) if isinstance(c.ctx, ast.Load) and getattr(c, "_parent", None) is not None else None
        if v is None:
            if c.id in f.params or not ctx.rd(f).is_local(c.id):
                return False          # a parameter / global that is not the instance's table
            return None
        if seen is not None:
            seen.add(id(c))
        return _is_supported_read(ctx, f, v, sup_params, seen)
    if not (isinstance(c, ast.Attribute) and c.attr == "SUPPORTED_SOLVERS"):
        return False
    recv = c.value
    okrecv = (isinstance(recv, ast.Name) and recv.id == f.self_name) \
        or (isinstance(recv, ast.Attribute) and recv.attr == "__class__" and isinstance(recv.value, ast.Name) and recv.value.id == f.self_name) \
        or (isinstance(recv, ast.Call) and isinstance(recv.func, ast.Name) and recv.func.id == "type" and len(recv.args) == 1
            and isinstance(recv.args[0], ast.Name) and recv.args[0].id == f.self_name)
    if not okrecv:
        raise AnalysisError(f"C20-R1: {f.qual}: SUPPORTED_SOLVERS is not read through the instance ({ast.unparse(c)}); unrecognised form")
    if seen is not None:
        seen.add(id(c))
    return True


def _membership_accept_label(ctx, cls, test: ast.AST, f, pname: str, sup_params=frozenset(), seen: Optional[set] = None,
                             depth: int = 0) -> Optional[str]:
    """`solver not in self.SUPPORTED_SOLVERS` -> 'false' (label of the accepting edge); `solver in ...` -> 'true'.
    The test may be a single-definition alias of the comparison, the container may be an alias of the class table, and the
    comparison may live in a one-expression helper (`return solver in self.SUPPORTED_SOLVERS`)."""
    e, neg = _strip_not(test)
    if isinstance(e, ast.Name) and getattr(e, "_parent", None) is not None:
        v = single_def_value(ctx, f, e)
        if v is not None:
            e2, neg2 = _strip_not(v)
            e, neg = e2, neg != neg2
    lab = None
    if isinstance(e, ast.Compare) and len(e.ops) == 1 and isinstance(e.left, ast.Name) and e.left.id == pname \
            and isinstance(e.ops[0], (ast.In, ast.NotIn)):
        isup = _is_supported_read(ctx, f, e.comparators[0], sup_params, seen)
        if isup is None:
            raise AnalysisError(f"C20-R1: {f.qual}: the container of `{ast.unparse(e)}` cannot be followed to a single definition")
        if not isup:
            return None
        lab = isinstance(e.ops[0], ast.In)
    elif isinstance(e, ast.Call) and depth < 3:
        g = _helper_target(ctx, cls, f, e)
        if g is None:
            return None
        b = _bind_args(g, e)
        gp = [k for k, v in b.items() if isinstance(v, ast.Name) and v.id == pname]
        if len(gp) != 1 or _stores(g, gp[0]):
            return None
        gsup = frozenset(k for k, v in b.items() if _is_supported_read(ctx, f, v, sup_params) is True)
        body = [st for st in g.node.body if not _is_docstring(st)]
        if not (len(body) == 1 and isinstance(body[0], ast.Return) and body[0].value is not None):
            return None
        inner = _membership_accept_label(ctx, cls, body[0].value, g, gp[0], gsup, None, depth + 1)
        if inner is None:
            return None
        lab = inner == "true"
    if lab is None:
        return None
    if neg:
        lab = not lab
    return "true" if lab else "false"


def _shortcut_label(ctx, f, test: ast.AST, pname: str):
    """(constant, label of the edge on which the constant is a substring of the solver name) for a test `[not] 'c' [not] in solver`
    (possibly bound to a local first), else None."""
    e, neg = _strip_not(test)
    if isinstance(e, ast.Name) and getattr(e, "_parent", None) is not None:
        v = single_def_value(ctx, f, e)
        if v is not None:
            e2, n2 = _strip_not(v)
            e, neg = e2, neg != n2
    if isinstance(e, ast.Compare) and len(e.ops) == 1 and isinstance(e.ops[0], (ast.In, ast.NotIn)) \
            and isinstance(e.left, ast.Constant) and isinstance(e.left.value, str) \
            and isinstance(e.comparators[0], ast.Name) and e.comparators[0].id == pname:
        holds_on_true = isinstance(e.ops[0], ast.In) != neg
        return e.left.value, ("true" if holds_on_true else "false")
    return None


def _unrecognised_supported_reads(f, seen: set) -> List[ast.AST]:
    """Reads of SUPPORTED_SOLVERS in `f` that are neither a recognised membership container nor message formatting."""
    def formatting(n):
        return any(isinstance(a, (ast.JoinedStr, ast.Raise)) for a in ancestors(n))
    out = []
    for n in walk_shallow(f.node):
        if not (isinstance(n, ast.Attribute) and n.attr == "SUPPORTED_SOLVERS" and isinstance(n.ctx, ast.Load)):
            continue
        if id(n) in seen or formatting(n):
            continue
        st = stmt_of_any(n)
        if isinstance(st, ast.Assign) and st.value is n and len(st.targets) == 1 and isinstance(st.targets[0], ast.Name):
            alias = st.targets[0].id
            uses = [u for u in walk_shallow(f.node) if isinstance(u, ast.Name) and u.id == alias and isinstance(u.ctx, ast.Load)]
            if all(id(u) in seen or formatting(u) for u in uses):
                continue
        out.append(n)
    return out


def _validator_sound(ctx, rid, cls, vf, depth=0, pname: str = "solver", sup_params=frozenset()):
    """(ok, reason, facts): does the validator `vf`, run on an instance of `cls`, return normally only for accepted names?"""
    if depth > 6:
        raise AnalysisError(f"{rid}: validator chain too deep")
    pname = _solver_param(vf, rid, pname)
    cfg = ctx.cfg(vf)
    paths = [p for p in enumerate_paths(cfg) if p[-1] is cfg.EXIT]
    facts = {"validator": vf.qual, "normal_paths": len(paths)}
    if not paths:
        return True, "validator never returns normally", facts
    seen: set = set()
    for p in paths:
        accepted = False
        for a, b in zip(p, p[1:]):
            if isinstance(a, (ast.If, ast.While)):
                lab = _membership_accept_label(ctx, cls, a.test, vf, pname, sup_params, seen)
                kind = edge_kind(cfg, a, b)
                if lab is not None and lab == kind:
                    accepted = True
                    break
                sc = _shortcut_label(ctx, vf, a.test, pname)
                if sc is not None and (cls.name, sc[0]) in VALIDATOR_SHORTCUTS and kind == sc[1]:
                    accepted = True
                    break
            if isinstance(a, ast.stmt) and not isinstance(a, (ast.If, ast.For, ast.While, ast.Try, ast.With)):
                for c in _calls_of_stmt(a):
                    if _super_call(c, "_validate_solver"):
                        arg = _arg(c, 0, "solver")
                        if not (isinstance(arg, ast.Name) and arg.id == pname):
                            raise AnalysisError(f"{rid}: {vf.qual}: super()._validate_solver is not handed `{pname}` unchanged")
                        nxt = ctx.repo.lookup_method(cls, "_validate_solver", after=vf.cls)
                        if nxt is None:
                            raise AnalysisError(f"{rid}: {vf.qual}: super()._validate_solver has no target in the MRO of {cls.name}")
                        okn, why, _ = _validator_sound(ctx, rid, cls, nxt, depth + 1)
                        if okn:
                            accepted = True
                        else:
                            return False, f"delegates to {nxt.qualname}, which is not sound: {why}", facts
                    elif not _super_call(c):
                        # an extracted helper that is handed the name (and possibly the table) and performs the test
                        g = _helper_target(ctx, cls, vf, c)
                        if g is None or g == vf:
                            continue
                        bnd = _bind_args(g, c)
                        gp = [k for k, v in bnd.items() if isinstance(v, ast.Name) and v.id == pname]
                        if len(gp) != 1 or gp[0] not in g.params or _stores(g, gp[0]):
                            continue
                        gsup = frozenset(k for k, v in bnd.items() if _is_supported_read(ctx, vf, v, sup_params, seen) is True)
                        okn, _why, _ = _validator_sound(ctx, rid, cls, g, depth + 1, gp[0], gsup)
                        if okn:
                            accepted = True
                if accepted:
                    break
        if not accepted:
            unrec = _unrecognised_supported_reads(vf, seen)
            if unrec:
                raise AnalysisError(f"{rid}: {vf.qual}: SUPPORTED_SOLVERS is consulted in a form that is not recognised "
                                    f"(`{norm(stmt_of_any(unrec[0]), 80)}`); cannot decide whether path {cfg.path_str(p)} accepts only declared names")
            facts["witness"] = cfg.path_str(p)
            return False, ("a path returns normally without the name having passed `solver in self.SUPPORTED_SOLVERS` "
                           f"(path {cfg.path_str(p)})"), facts
    return True, "every normal return has passed the membership test (or a sound super() validator / the frozen shortcut)", facts


def _is_impl_ref(n: ast.AST) -> bool:
    return isinstance(n, ast.Attribute) and n.attr.startswith("_solve_") and isinstance(n.ctx, ast.Load)


def _impl_aliases(ctx, rid, f) -> Dict[int, List[str]]:
    """id(call) -> implementation names, for calls `alias(...)` where every definition of the local `alias` that reaches
    the call binds a `<recv>._solve_<name>` method (the dispatcher picks the bound method first and calls it once).
    Any other use of a `_solve_<name>` reference is an unrecognised dispatch form."""
    rd = ctx.rd(f)
    out: Dict[int, List[str]] = {}
    alias_defs = set()
    for c in walk_shallow(f.node):
        if not (isinstance(c, ast.Call) and isinstance(c.func, ast.Name)):
            continue
        defs = rd.defs_reaching(c.func)
        if not defs:
            continue
        names = []
        for d in defs:
            from engine.dataflow import assigned_value
            v = assigned_value(d, c.func.id) if isinstance(d, ast.AST) else None
            vs = [v.body, v.orelse] if isinstance(v, ast.IfExp) else [v]
            if not all(x is not None and _is_impl_ref(x) for x in vs):
                names = None
                break
            names += [x.attr for x in vs]
            alias_defs.update(id(x) for x in vs)
        if names:
            out[id(c)] = names
    alias_names = {c.func.id for c in walk_shallow(f.node) if isinstance(c, ast.Call) and id(c) in out}
    for n in walk_shallow(f.node):
        if _is_impl_ref(n):
            p_ = parent(n)
            if isinstance(p_, ast.Call) and p_.func is n:
                continue
            if id(n) in alias_defs:
                continue
            raise AnalysisError(f"{rid}: {f.qual}: `{ast.unparse(n)}` is referenced without being called "
                                f"(`{norm(stmt_of_any(n), 80)}`); dispatch through values is not a recognised form")
        if isinstance(n, ast.Name) and n.id in alias_names and isinstance(n.ctx, ast.Load):
            p_ = parent(n)
            if not (isinstance(p_, ast.Call) and p_.func is n and id(p_) in out):
                raise AnalysisError(f"{rid}: {f.qual}: the selected solver method `{n.id}` is used other than by calling it "
                                    f"(`{norm(stmt_of_any(n), 80)}`)")
    return out


def _dispatch_points(ctx, rid, f, pname):
    """(implementation-call statements, super()._solve statements, inline solver blocks) of a `_solve` override."""
    impl, sup, inline = [], [], []
    aliases = _impl_aliases(ctx, rid, f)
    for st in walk_shallow(f.node):
        if not isinstance(st, ast.stmt) or isinstance(st, (ast.If, ast.For, ast.While, ast.Try, ast.With)):
            continue
        for c in _calls_of_stmt(st):
            if _super_call(c, "_solve"):
                sup.append((st, c))
            elif isinstance(c.func, ast.Attribute) and c.func.attr.startswith("_solve_"):
                impl.append((st, c))
            elif id(c) in aliases:
                impl.append((st, c))

    def has_dispatch(stmts):
        for b in stmts:
            for n in ast.walk(b):
                if isinstance(n, ast.Attribute) and (n.attr.startswith("_solve_") or n.attr == "_solve"):
                    return True
                if isinstance(n, ast.Call) and id(n) in aliases:
                    return True
        return False
    for st in walk_shallow(f.node):
        if isinstance(st, ast.If) and any(isinstance(n, ast.Name) and n.id == pname for n in ast.walk(st.test)):
            for branch in (st.body, st.orelse):
                if branch and not has_dispatch(branch) and not all(isinstance(b, (ast.Raise, ast.Pass)) for b in branch) \
                        and not (len(branch) == 1 and isinstance(branch[0], ast.If) and branch[0] in st.orelse):
                    inline.append(branch[0])
    return impl, sup, inline


def _validate_stmts(f, cfg, pname):
    out = []
    for st in cfg.stmts():
        if isinstance(st, (ast.If, ast.For, ast.While, ast.Try, ast.With)):
            continue
        for c in _calls_of_stmt(st):
            if _self_call(c, f, "_validate_solver"):
                a = _arg(c, 0, "solver")
                if isinstance(a, ast.Name) and a.id == pname:
                    out.append(st)
    return out


def _check_solver_uses(rid, f, pname):
    """Every read of `solver` must be a branch test, the validation argument, or the argument handed to super()._solve."""
    for n in walk_shallow(f.node):
        if not (isinstance(n, ast.Name) and n.id == pname and isinstance(n.ctx, ast.Load)):
            continue
        ok = False
        for a in ancestors(n):
            if isinstance(a, (ast.If, ast.While, ast.IfExp)) and contains(a.test, n):
                ok = True      # a branch test; a conditional expression selecting between values is a branch as well
                break
            if isinstance(a, ast.Call) and (_self_call(a, f, "_validate_solver") or _super_call(a, "_solve") or _super_call(a, "_validate_solver")):
                ok = True
                break
            if isinstance(a, ast.Assign) and len(a.targets) == 1 and isinstance(a.targets[0], ast.Name) and contains(a.value, n) \
                    and isinstance(a.value, (ast.BoolOp, ast.Compare)):
                ok = True      # a boolean derived from the name (e.g. is_dde = self._is_dde or 'dde' in solver)
                break
            if isinstance(a, ast.stmt):
                break
        if not ok:
            raise AnalysisError(f"{rid}: {f.qual}: `{pname}` is used outside a branch test / validation / super()._solve "
                                f"({norm(stmt_of_any(n))}); dynamic dispatch is not a recognised form")


def stmt_of_any(n):
    while n is not None and not isinstance(n, ast.stmt):
        n = parent(n)
    return n


def _supported(ctx, rid, cls) -> List[str]:
    at = ctx.repo.lookup_attr(cls, "SUPPORTED_SOLVERS")
    if at is None:
        raise AnalysisError(f"{rid}: {cls.name} has no SUPPORTED_SOLVERS")
    owner, node = at

    def lit(e, owner):
        if isinstance(e, (ast.Tuple, ast.List)) and all(isinstance(x, ast.Constant) and isinstance(x.value, str) for x in e.elts):
            return [x.value for x in e.elts]
        if isinstance(e, ast.BinOp) and isinstance(e.op, ast.Add):
            return lit(e.left, owner) + lit(e.right, owner)
        if isinstance(e, ast.Attribute) and e.attr == "SUPPORTED_SOLVERS":
            r = ctx.repo.resolve_expr(owner.module, e.value)
            if r is not None and r.__class__.__name__ == "ClassInfo":
                a2 = ctx.repo.lookup_attr(r, "SUPPORTED_SOLVERS")
                if a2 is not None:
                    return lit(a2[1], a2[0])
        raise AnalysisError(f"{rid}: SUPPORTED_SOLVERS of {owner.name} is not a literal tuple of strings ({ast.unparse(e)})")
    return lit(node, owner)


def _signature(ctx, rid, cls, f, name, depth=0):
    """(frozenset of (test, value) decisions, set of reachable implementation points) for solver == name."""
    if depth > 6:
        raise AnalysisError(f"{rid}: _solve chain too deep")
    pname = _solver_param(f, rid)
    cfg = ctx.cfg(f)
    env = {pname: name}
    reach = []
    find_path(cfg, [cfg.ENTRY], lambda n: (reach.append(n), False)[1], env=env)
    impl, sup, inline = _dispatch_points(ctx, rid, f, pname)
    sig, hits = set(), set()
    reach_ids = {id(n) for n in reach}
    for n in reach:
        if isinstance(n, (ast.If, ast.While)) and any(isinstance(x, ast.Name) and x.id == pname for x in ast.walk(n.test)):
            t = _truth(ev(n.test, env))
            sig.add((f.qualname + ":" + ast.unparse(n.test), "unk" if t is UNK else t))
        elif isinstance(n, ast.Assign) and any(isinstance(x, ast.Name) and x.id == pname for x in ast.walk(n.value)) \
                and isinstance(n.value, (ast.BoolOp, ast.Compare)):
            t = _truth(ev(n.value, env))
            sig.add((f.qualname + ":" + ast.unparse(n.value), "unk" if t is UNK else t))
    # decisions taken inside conditional expressions (`impl = self._solve_a if solver == 'a' else self._solve_b`)
    for n in reach:
        if not isinstance(n, ast.stmt):
            continue
        for x in header_nodes(n):
            if not (isinstance(x, ast.IfExp) and any(isinstance(y, ast.Name) and y.id == pname for y in ast.walk(x.test))):
                continue
            evaluated, child = True, x
            for a in ancestors(x):
                if a is n:
                    break
                if isinstance(a, ast.IfExp) and not contains(a.test, child):
                    t = _truth(ev(a.test, env))
                    if t is not UNK and contains(a.body if not t else a.orelse, child):
                        evaluated = False      # sits in the arm that is not selected for this name
                        break
            if evaluated:
                t = _truth(ev(x.test, env))
                sig.add((f.qualname + ":" + ast.unparse(x.test), "unk" if t is UNK else t))
    for st, c in impl:
        if id(st) in reach_ids:
            hits.add(f.qualname + ":" + ast.unparse(c.func))
    for st in inline:
        if id(st) in reach_ids:
            hits.add(f.qualname + ":inline:" + norm(st, 60))
    for st, c in sup:
        if id(st) in reach_ids:
            a = _arg(c, 0, "solver")
            if not (isinstance(a, ast.Name) and a.id == pname):
                raise AnalysisError(f"{rid}: {f.qual}: super()._solve is not handed `{pname}` unchanged")
            nxt = ctx.repo.lookup_method(cls, "_solve", after=f.cls)
            if nxt is None:
                raise AnalysisError(f"{rid}: {f.qual}: super()._solve has no target in the MRO of {cls.name}")
            s2, h2 = _signature(ctx, rid, cls, nxt, name, depth + 1)
            sig |= s2
            hits |= h2
    return frozenset(sig), hits


def r1_solver_validation(ctx, rid):
    classes = S.backend_classes(ctx)
    ctx.require(len(classes) >= 2, f"{rid}: fewer than two backend classes found")
    # ---- (b) the validator each class resolves to is sound
    sound: Dict[str, bool] = {}
    for cls in classes:
        vf = ctx.repo.lookup_method(cls, "_validate_solver")
        ctx.require(vf is not None, f"{rid}: {cls.name} resolves no _validate_solver")
        okv, why, facts = _validator_sound(ctx, rid, cls, vf)
        sound[cls.name] = okv
        facts["class"] = cls.name
        if okv:
            ctx.ok(rid, vf, vf.node, f"validator used by {cls.name}: {why}", facts, label=f"validator as resolved for {cls.name}")
        else:
            ctx.violation(rid, vf, vf.node, f"the solver validator that {cls.name} resolves to lets unsupported names through: {why}; "
                                            f"an unsupported solver would fall into a dispatcher branch and return numbers",
                          facts, label=f"validator as resolved for {cls.name}")
    # ---- the declared tables themselves: no lost separator
    linted = set()
    for cls in classes:
        at = ctx.repo.lookup_attr(cls, "SUPPORTED_SOLVERS")
        if at is None or id(at[1]) in linted:
            continue
        linted.add(id(at[1]))
        owner, node = at
        lint_table(ctx, rid, None, owner.module, node, f"{owner.name}.SUPPORTED_SOLVERS",
                   "a declared solver is refused and an undeclared name is accepted",
                   construct=f"{owner.module.rel}::{owner.name}::SUPPORTED_SOLVERS literals")
    # ---- (a) validation dominates every implementation call along the _solve chain
    verdicts: Dict[tuple, dict] = {}

    def walk_chain(cls, f, entry_validated, depth=0):
        if depth > 6:
            raise AnalysisError(f"{rid}: _solve chain too deep")
        pname = _solver_param(f, rid)
        _check_solver_uses(rid, f, pname)
        cfg = ctx.cfg(f)
        vs = _validate_stmts(f, cfg, pname)
        impl, sup, inline = _dispatch_points(ctx, rid, f, pname)

        def dominated(st):
            return any(cfg.dominates(v, st) for v in vs)
        for st, c in impl:
            rec = verdicts.setdefault((f, id(st)), {"f": f, "st": st, "what": ast.unparse(c.func) + "(...)", "bad": [], "good": [], "inline": False})
            (rec["good"] if (entry_validated or dominated(st)) else rec["bad"]).append(cls.name)
        for st in inline:
            rec = verdicts.setdefault((f, id(st)), {"f": f, "st": st, "what": "inline solver block", "bad": [], "good": [], "inline": True})
            (rec["good"] if (entry_validated or dominated(st)) else rec["bad"]).append(cls.name)
        for st, c in sup:
            nxt = ctx.repo.lookup_method(cls, "_solve", after=f.cls)
            if nxt is None:
                raise AnalysisError(f"{rid}: {f.qual}: super()._solve has no target in the MRO of {cls.name}")
            walk_chain(cls, nxt, entry_validated or dominated(st), depth + 1)
        if not impl and not sup and not inline:
            raise AnalysisError(f"{rid}: {f.qual} neither calls a _solve_* implementation nor super()._solve (unrecognised dispatcher)")

    for cls in classes:
        f0 = ctx.repo.lookup_method(cls, "_solve")
        ctx.require(f0 is not None, f"{rid}: {cls.name} resolves no _solve")
        walk_chain(cls, f0, False)
    for rec in verdicts.values():
        f, st = rec["f"], rec["st"]
        facts = {"validated_for": sorted(set(rec["good"])), "unvalidated_for": sorted(set(rec["bad"]))}
        if rec["bad"]:
            if rec["inline"]:
                raise AnalysisError(f"{rid}: {f.qual}: inline solver block `{norm(st, 60)}` is reached without validation for "
                                    f"{sorted(set(rec['bad']))}; whether its own branch test is a sufficient check is not decidable here")
            ctx.violation(rid, f, st, f"{rec['what']} can be reached for {', '.join(sorted(set(rec['bad'])))} without a dominating "
                                      f"self._validate_solver(solver) anywhere on the _solve chain: a solver outside SUPPORTED_SOLVERS "
                                      f"falls into this branch and returns numbers", facts)
        else:
            ctx.ok(rid, f, st, f"{rec['what']} is dominated by solver validation on every _solve chain that reaches it", facts)
    # ---- (c) the dispatcher separates the declared names
    for cls in classes:
        f0 = ctx.repo.lookup_method(cls, "_solve")
        names = _supported(ctx, rid, cls)
        ctx.require(names, f"{rid}: {cls.name}.SUPPORTED_SOLVERS is empty")
        groups: Dict[frozenset, List[str]] = {}
        nohit = []
        for nm in names:
            sig, hits = _signature(ctx, rid, cls, f0, nm)
            groups.setdefault(sig, []).append(nm)
            if not hits:
                nohit.append(nm)
        same = [g for g in groups.values() if len(g) > 1]
        facts = {"class": cls.name, "supported": names, "dispatcher": f0.qual}
        label = f"dispatch of {cls.name}.SUPPORTED_SOLVERS"
        if same:
            ctx.violation(rid, f0, f0.node, f"solver names {same[0]} of {cls.name} take identical branch decisions in the dispatcher: "
                                            f"`{same[0][0]}` silently runs the algorithm of `{same[0][-1]}` (a declared name without its own "
                                            f"branch, or a removed branch)", facts, label=label)
        elif nohit:
            ctx.violation(rid, f0, f0.node, f"solver name(s) {nohit} of {cls.name} reach no _solve_* implementation", facts, label=label)
        else:
            ctx.ok(rid, f0, f0.node, f"each of {names} takes its own branch and reaches an implementation", facts, label=label)


# ------------------------------------------------------------------------------------------------
# R2 — capability flags
# ------------------------------------------------------------------------------------------------
def _flag_reads(ctx, flag: str):
    out = []
    for m in ctx.repo.modules.values():
        for n in ast.walk(m.tree):
            if isinstance(n, ast.Call) and isinstance(n.func, ast.Name) and n.func.id == "getattr" and len(n.args) >= 2 \
                    and isinstance(n.args[1], ast.Constant) and n.args[1].value == flag:
                out.append((m, n, n.args[0]))
            elif isinstance(n, ast.Attribute) and n.attr == flag and isinstance(n.ctx, ast.Load):
                out.append((m, n, n.value))
    return out


def _root_expr(ctx, f, e, depth=0):
    if isinstance(e, ast.Name) and depth < 4:
        v = single_def_value(ctx, f, e)
        if v is not None:
            return _root_expr(ctx, f, v, depth + 1)
    return e


def _is_backend_expr(ctx, f, e, depth=0) -> bool:
    """Does `e` denote the backend object?  An attribute / local called `backend`, something typed as a BaseBackend, or a
    parameter that receives such a value at every call site."""
    root = _root_expr(ctx, f, e)
    if isinstance(root, ast.Attribute) and root.attr in ("backend", "_backend"):
        return True
    try:
        classes = ctx.cg.expr_classes(f, root)
    except Exception:
        classes = set()
    base = ctx.repo.get_class(S.BASE_REL, "BaseBackend")
    if classes and all(base in c.mro for c in classes):
        return True
    if isinstance(root, ast.Name):
        if root.id in f.params and not _stores(f, root.id) and depth < 3:
            sites = ctx.cg.call_sites_of(f)
            if sites:
                acts = [(g, _bind_args(f, c).get(root.id)) for g, c in sites]
                if all(a is not None and _is_backend_expr(ctx, g, a, depth + 1) for g, a in acts):
                    return True
        return root.id == "backend"
    return False


def _flag_tests(ctx, rid, f, cfg, node, flag):
    """The if statements that test the flag value read at `node` -> [(if statement, expression inside its test)].
    The read may be bound to a local first (`ok = getattr(backend, flag, True)` ... `if not ok:`)."""
    st = stmt_of(cfg, node)
    if isinstance(st, ast.If) and contains(st.test, node):
        return [(st, node)]
    if isinstance(st, ast.Assign) and st.value is node and len(st.targets) == 1 and isinstance(st.targets[0], ast.Name):
        alias = st.targets[0].id
        if len(_stores(f, alias)) == 1:
            uses = [n for n in walk_shallow(f.node) if isinstance(n, ast.Name) and n.id == alias and isinstance(n.ctx, ast.Load)]
            out = []
            for u in uses:
                us = stmt_of(cfg, u)
                if not (isinstance(us, ast.If) and contains(us.test, u)):
                    out = None
                    break
                out.append((us, u))
            if out:
                return out
    raise AnalysisError(f"{rid}: {f.qual}: {flag} is read outside an if test (`{norm(st)}`); unrecognised guard form")


def _selector_use(f, st, node) -> Optional[list]:
    """The flag read `node` is used as a capability *selector*, not as a refusal guard: a non-negated operand of `a and b and FLAG`
    that is returned by a predicate helper or tested by an if, where no sibling operand is an explicit on/off option of the caller
    (a parameter with a boolean default tested for truth - `if sparse and FLAG:` would silently ignore the request and stays
    unrecognised).  -> the sibling operands, or None."""
    top = st.value if isinstance(st, ast.Return) else (st.test if isinstance(st, (ast.If, ast.While)) else None)
    if top is None:
        return None
    if top is node and isinstance(st, ast.Return):
        sibs = []
    elif isinstance(top, ast.BoolOp) and isinstance(top.op, ast.And) and any(v is node for v in top.values) and len(top.values) > 1:
        sibs = [v for v in top.values if v is not node]
    else:
        return None
    for v in sibs:
        e, _neg = _strip_not(v)
        if isinstance(e, ast.Name) and e.id in f.params:
            d = _param_default(f, e.id)
            if d is None or (isinstance(d, ast.Constant) and (isinstance(d.value, bool) or d.value is None)):
                return None
    return sibs


def _flag_conjunct(rid, f, st: ast.If, node, flag):
    """(label of the branch taken when the flag is false, the other conditions that must hold for that branch).
    Forms: `[not] FLAG`, `a and ... and not FLAG` (refuses on true), `not a or ... or FLAG` (refuses on false)."""
    e, neg = _strip_not(st.test)
    if e is node:
        return ("true" if neg else "false"), []
    t = st.test
    if isinstance(t, ast.BoolOp):
        mine = [v for v in t.values if _strip_not(v)[0] is node]
        if len(mine) == 1:
            neg = _strip_not(mine[0])[1]
            rest = [v for v in t.values if v is not mine[0]]
            if isinstance(t.op, ast.And) and neg:
                return "true", rest
            if isinstance(t.op, ast.Or) and not neg:
                negated = []
                for v in rest:
                    e2, n2 = _strip_not(v)
                    if not n2:
                        negated = None
                        break
                    negated.append(e2)
                if negated is not None:
                    return "false", negated
    raise AnalysisError(f"{rid}: {f.qual}: the test `{ast.unparse(st.test)}` combines {flag} with other conditions; unrecognised guard form")


def _marker_form(ctx, f, test):
    """(marker attribute, receiver expression, negated) of a test `[not] getattr(x, 'm', False)` / `[not] x.m` (possibly bound to
    a local first), else None."""
    e, neg = _strip_not(test)
    if isinstance(e, ast.Name) and getattr(e, "_parent", None) is not None:
        v = single_def_value(ctx, f, e)
        if v is not None:
            e2, n2 = _strip_not(v)
            e, neg = e2, neg != n2
    if isinstance(e, ast.Call) and isinstance(e.func, ast.Name) and e.func.id == "getattr" and len(e.args) >= 2 \
            and isinstance(e.args[1], ast.Constant) and isinstance(e.args[1].value, str):
        dflt = e.args[2] if len(e.args) > 2 else None
        if dflt is not None and not (isinstance(dflt, ast.Constant) and not dflt.value):
            raise AnalysisError(f"C20-R2: {f.qual}: unrecognised default in `{ast.unparse(e)}`")
        return e.args[1].value, e.args[0], neg
    if isinstance(e, ast.Attribute) and isinstance(e.ctx, ast.Load):
        return e.attr, e.value, neg
    return None


def _constructed_class(ctx, rid, f, recv, marker, chain, depth=0):
    """Class of the object `recv` denotes in `f`, when it is constructed in `f` or - `recv` being a parameter of an extracted
    helper - in every caller.  `chain` collects (caller, call statement) pairs: the helper must run on every normal return."""
    root = _root_expr(ctx, f, recv)
    rc = ctx.repo.resolve_expr(f.module, root.func) if isinstance(root, ast.Call) and isinstance(root.func, (ast.Name, ast.Attribute)) else None
    if rc is not None and rc.__class__.__name__ == "ClassInfo":
        return rc, f
    if isinstance(root, ast.Name) and root.id in f.params and not _stores(f, root.id) and depth < 3:
        sites = ctx.cg.call_sites_of(f)
        found = None
        for g, c in sites:
            act = _bind_args(f, c).get(root.id)
            if act is None:
                raise AnalysisError(f"{rid}: {g.qual}: cannot see which object `{ast.unparse(c)}` hands over as `{root.id}`")
            chain.append((g, stmt_of(ctx.cfg(g), c)))
            cls_g, top = _constructed_class(ctx, rid, g, act, marker, chain, depth + 1)
            if found is not None and found[0] is not cls_g:
                raise AnalysisError(f"{rid}: {f.qual} is handed networks of different classes")
            found = (cls_g, top)
        if found is not None:
            return found
    raise AnalysisError(f"{rid}: {f.qual}: the object whose `{marker}` is tested is not a network constructed here ({ast.unparse(root)})")


def _names_true_at(f, st, inner=()) -> set:
    """Unmodified parameters of `f` that are necessarily true when `st` executes (and, for the expressions `inner` inside `st`, when
    they are evaluated): `if c:` body, `if not c:` else-branch, `x if c else y` arms."""
    def cond(test, in_true_arm):
        e, neg = _strip_not(test)
        if isinstance(e, ast.Name) and e.id in f.params and not _stores(f, e.id) and (in_true_arm != neg):
            return e.id
        if isinstance(e, ast.BoolOp) and isinstance(e.op, ast.And) and in_true_arm and not neg:
            return [v.id for v in e.values if isinstance(v, ast.Name) and v.id in f.params and not _stores(f, v.id)]
        return None

    def up(node):
        out = set()
        child = node
        for a in ancestors(node):
            if isinstance(a, (ast.FunctionDef, ast.AsyncFunctionDef, ast.Lambda)):
                break
            if isinstance(a, ast.If) and not contains(a.test, child):
                c = cond(a.test, any(contains(b, child) or b is child for b in a.body))
            elif isinstance(a, ast.IfExp) and not contains(a.test, child) and a.test is not child:
                c = cond(a.test, contains(a.body, child) or a.body is child)
            else:
                c = None
            if c:
                out |= set(c) if isinstance(c, list) else {c}
        return out
    sets = [up(n) for n in inner] or [up(st)]
    res = sets[0]
    for x in sets[1:]:
        res &= x
    return res


def _guard_covers(ctx, fv, st, gso, true_names) -> bool:
    """Under the assumption that the names in `true_names` are true, every path from the entry of `fv` to `st` passes one of the
    flag tests `gso` = [(if statement, other conditions of its refusal)] whose other conditions hold under that assumption."""
    cfg = ctx.cfg(fv)
    env = {c: True for c in true_names}
    active = [g for g, others in gso if all(_truth(ev(o, env)) is True for o in others)]
    if not active:
        return False
    return find_path(cfg, [cfg.ENTRY], lambda n: n is st, avoid=lambda n: any(n is g for g in active), env=env) is None


def _view_guards(ctx, rid, fv, flag) -> list:
    """[(if statement, other conditions)] for the tests of `flag` in the (inlined) function view `fv`."""
    out = []
    cfg = ctx.cfg(fv)
    for n in walk_shallow(fv.node):
        recv = None
        if isinstance(n, ast.Call) and isinstance(n.func, ast.Name) and n.func.id == "getattr" and len(n.args) >= 2 \
                and isinstance(n.args[1], ast.Constant) and n.args[1].value == flag:
            recv = n.args[0]
        elif isinstance(n, ast.Attribute) and n.attr == flag and isinstance(n.ctx, ast.Load):
            recv = n.value
        if recv is None:
            continue
        for st, tnode in _flag_tests(ctx, rid, fv, cfg, n, flag):
            fail_label, others = _flag_conjunct(rid, fv, st, tnode, flag)
            out.append((st, others))
    return out


def _callers_guard(ctx, rid, h, true_names, flag, depth=0):
    """The private helper `h` emits the feature (when its parameters `true_names` are true) without testing the flag itself: is every
    call of `h` covered by a flag test in the caller (seen with the caller's other private helpers spliced in)?
    -> (covered, description of where)."""
    from engine.inline import inlined
    # every call site the call graph knows (an emitter of the code generator is a public method of the backend, called by the
    # compute graph only; a function nobody calls is not covered by anything)
    sites = [(g, c) for g, c in ctx.cg.call_sites_of(h) if g != h]
    if not sites or depth > 3:
        return False, ""
    wheres = []
    for g in sorted({g for g, _ in sites}, key=lambda x: x.qual):
        gv = inlined(ctx, g, keep=(h.node.name,))
        if not getattr(gv, "inlined_helpers", None):
            gv = g
        calls = _calls_to(ctx, gv, h)
        if not calls:
            raise AnalysisError(f"{rid}: {g.qual}: the call of {h.qualname} was not found again after splicing the private helpers")
        gso = _view_guards(ctx, rid, gv, flag)
        gcfg = ctx.cfg(gv)
        for c in calls:
            cs = stmt_of(gcfg, c)
            bnd = _bind_args(h, c)
            need, never = set(), False
            for p_ in true_names:
                a = bnd.get(p_)
                if isinstance(a, ast.Constant) and not a.value:
                    never = True       # this call never takes the emitting branch
                elif isinstance(a, ast.Name) and a.id in gv.params and not _stores(gv, a.id):
                    need.add(a.id)
                elif a is None:
                    dflt = _param_default(h, p_)
                    if isinstance(dflt, ast.Constant) and not dflt.value:
                        never = True
            if never:
                continue
            tn = _names_true_at(gv, cs, [c]) | need
            if gso and _guard_covers(ctx, gv, cs, gso, tn):
                continue
            if not gso:
                ok2, w2 = _callers_guard(ctx, rid, g, tn, flag, depth + 1)
                if ok2:
                    wheres.append(w2)
                    continue
            return False, ""
        wheres.append(g.qualname)
    return True, ", ".join(sorted(set(wheres)))


def _param_default(f, pname: str):
    a = f.node.args
    pos = a.posonlyargs + a.args
    for arg, d in zip(pos[len(pos) - len(a.defaults):], a.defaults):
        if arg.arg == pname:
            return d
    for arg, d in zip(a.kwonlyargs, a.kw_defaults):
        if arg.arg == pname:
            return d
    return None


def r2_capability_flags(ctx, rid):
    base = ctx.repo.get_class(S.BASE_REL, "BaseBackend")
    flags = sorted(a for a in base.attrs if a.startswith("SUPPORTS_"))
    ctx.require(flags, f"{rid}: BaseBackend declares no SUPPORTS_* flag")
    guards: Dict[str, list] = {}
    for flag in flags:
        reads = _flag_reads(ctx, flag)
        if not reads:
            ctx.violation(rid, None, None, f"capability flag {flag} is declared but never consulted: a backend that sets it to False still "
                                           f"gets the feature compiled and returns numbers",
                          construct=f"{S.BASE_REL}::BaseBackend::{flag}", loc=f"{S.BASE_REL}:{base.attrs[flag].lineno}")
            continue
        for m, node, recv in reads:
            f = ctx.repo.enclosing_function(node)
            if f is None:
                raise AnalysisError(f"{rid}: {flag} is read at module level in {m.rel} (unrecognised form)")
            cfg = ctx.cfg(f)
            if not _is_backend_expr(ctx, f, recv):
                raise AnalysisError(f"{rid}: {f.qual}: {flag} is read from `{ast.unparse(_root_expr(ctx, f, recv))}`, which is not "
                                    f"recognisably the backend object")
            sel = _selector_use(f, stmt_of(cfg, node), node)
            if sel is not None:
                ctx.ok(rid, f, stmt_of(cfg, node), f"{flag} selects an emission variant: it is a positive condition (`... and {flag}`) next to conditions "
                                                   f"on the model ({', '.join(norm(x, 40) for x in sel) or 'none'}), none of which is an explicit on/off "
                                                   f"option of the caller; a backend without the capability takes the path of every model that does "
                                                   f"not need it", {"flag": flag, "other_conditions": [norm(x, 60) for x in sel]}, nontrivial=False)
                continue
            for st, tnode in _flag_tests(ctx, rid, f, cfg, node, flag):
                fail_label, others = _flag_conjunct(rid, f, st, tnode, flag)
                w = branch_returns(ctx, f, st, fail_label)
                facts = {"flag": flag, "test": ast.unparse(st.test), "unsupported_branch": fail_label}
                guards.setdefault(flag, []).append((f, st, others))
                if w is None:
                    ctx.ok(rid, f, st, f"the branch taken when {flag} is false can only raise", facts)
                else:
                    facts["witness"] = cfg.path_str(w)
                    ctx.violation(rid, f, st, f"the branch taken when the backend declares {flag} = False reaches the normal exit "
                                              f"({cfg.path_str(w)}): the unsupported feature is compiled instead of refused", facts)
    # ---- sparse Jacobian: the csr_matrix emission is covered by the guard
    SP = "SUPPORTS_SPARSE_JACOBIAN"
    n_feat = 0
    for f in ctx.repo.all_functions():
        if not any("csr_matrix" in (n.value if isinstance(n, ast.Constant) and isinstance(n.value, str) else "") for n in ast.walk(f.node)):
            continue
        cfg = ctx.cfg(f)
        feats = [st for st in cfg.stmts() if not isinstance(st, ast.Raise) and any("csr_matrix" in s for s in _strings_of(st))]
        if not feats:
            continue
        gso = [(g, others) for (gf, g, others) in guards.get(SP, []) if gf == f]
        gs = [g for g, _ in gso]
        for st in feats:
            n_feat += 1
            consts = [n for n in ast.walk(st) if isinstance(n, ast.Constant) and isinstance(n.value, str) and "csr_matrix" in n.value]
            true_names = _names_true_at(f, st, consts)
            facts = {"guards": [norm(g) for g in gs], "emitted_when": sorted(true_names)}
            okg = _guard_covers(ctx, f, st, gso, true_names)
            where = ""
            if not okg and not gso:
                # no guard in this function: the emission may have been extracted into a private helper whose callers guard it
                okg, where = _callers_guard(ctx, rid, f, true_names, SP)
                facts["guarded_in"] = where
            if okg:
                ctx.ok(rid, f, st, "csr_matrix is emitted only after the SUPPORTS_SPARSE_JACOBIAN test has been passed" + (f" (in {where})" if where else ""),
                       facts)
            else:
                ctx.violation(rid, f, st, "this statement emits `csr_matrix` code but is not covered by a SUPPORTS_SPARSE_JACOBIAN test whose "
                                          "failing branch raises: sparse=True on a backend that cannot build csr matrices is compiled anyway",
                              {"guards_in_function": [norm(g) for g in gs]})
    ctx.require(n_feat >= 1, f"{rid}: no statement emitting csr_matrix found (anchor vanished)")
    # ---- ring buffer: CircuitIR.__init__ consults the flag for every network that set the marker
    marker = None
    for f, G, others in guards.get("SUPPORTS_EDGE_DELAY_BUFFER", []):
        cfg = ctx.cfg(f)
        # the marker test: the nearest dominating `if [not] <network>.<marker>` (nested if, early return, or a conjunct of the flag test)
        M, mf = None, None
        if others:
            forms = [_marker_form(ctx, f, o) for o in others]
            if len(forms) != 1 or forms[0] is None or forms[0][2]:
                raise AnalysisError(f"{rid}: {f.qual}: unrecognised conditions next to SUPPORTS_EDGE_DELAY_BUFFER in `{ast.unparse(G.test)}`")
            M, mf = G, forms[0]
        else:
            for d in cfg.dominators(G):
                if d is G or not isinstance(d, ast.If):
                    continue
                form = _marker_form(ctx, f, d.test)
                if form is None or form[0].startswith("SUPPORTS_"):
                    continue
                M, mf = d, form
                break
        if M is None:
            raise AnalysisError(f"{rid}: {f.qual}: the SUPPORTS_EDGE_DELAY_BUFFER test is not nested in a test of the network's marker")
        marker, recv, neg = mf
        chain: list = []
        net_cls, top = _constructed_class(ctx, rid, f, recv, marker, chain)
        facts = {"marker": marker, "network_class": net_cls.name, "marker_test": ast.unparse(M.test)}
        w, wf = find_path(cfg, [cfg.ENTRY], lambda n: n is cfg.EXIT, avoid=lambda n: n is M, env={}), f
        for g, cs in chain:
            if w is not None:
                break
            gcfg = ctx.cfg(g)
            if cs is None or isinstance(cs, (ast.If, ast.For, ast.While, ast.Try, ast.With)):
                raise AnalysisError(f"{rid}: {g.qual}: the call of {f.qualname} is not a plain statement (unrecognised form)")
            w, wf = find_path(gcfg, [gcfg.ENTRY], lambda n: n is gcfg.EXIT, avoid=lambda n, cs=cs: n is cs, env={}), g
        top_node = M if top == f else [cs for g, cs in chain if g == top][0]
        if w is not None:
            facts["witness"] = ctx.cfg(wf).path_str(w)
            ctx.violation(rid, top, top_node, f"{wf.qualname} can return normally without testing the network's `{marker}` ({facts['witness']}): "
                                              f"a ring-buffer model is handed to a backend that cannot update the buffer", facts,
                          label="marker test on every return")
        else:
            ctx.ok(rid, top, top_node, f"every normal return of {top.qualname} passes the `{marker}` test", facts, label="marker test on every return")
        w = None if M is G else find_path(cfg, succ(cfg, M, "false" if neg else "true"), lambda n: n is cfg.EXIT, avoid=lambda n: n is G)
        if w is not None:
            facts["witness"] = cfg.path_str(w)
            ctx.violation(rid, f, G, f"with `{marker}` set, {f.qualname} can return without consulting SUPPORTS_EDGE_DELAY_BUFFER "
                                     f"({cfg.path_str(w)})", facts, label="flag test reached whenever the marker is set")
        else:
            ctx.ok(rid, f, G, "the flag test is reached whenever the marker is set", facts, label="flag test reached whenever the marker is set")
        # ---- pairing inside the network class
        _ring_buffer_pairing(ctx, rid, net_cls, marker)
    if marker is None:
        # no usable backend check: every ring-buffer emission is unprotected
        n_roll = 0
        for f in ctx.repo.all_functions():
            cfg = None
            for st in walk_shallow(f.node):
                if isinstance(st, ast.stmt) and not isinstance(st, (ast.If, ast.For, ast.While, ast.Try, ast.With, ast.FunctionDef)) \
                        and any("roll(" in s for s in _strings_of(st)):
                    n_roll += 1
                    ctx.violation(rid, f, st, "this statement emits an in-place ring buffer (`roll(`) but no SUPPORTS_EDGE_DELAY_BUFFER test "
                                              "exists that could refuse it on a backend with immutable arrays")
        ctx.require(n_roll >= 1, f"{rid}: no `roll(` equation template found (anchor vanished)")


def _ring_buffer_pairing(ctx, rid, net_cls, marker):
    def is_set(st, value=None):
        if not (isinstance(st, ast.Assign) and any(isinstance(t, ast.Attribute) and t.attr == marker for t in st.targets)):
            return False
        if value is None:
            return True
        return isinstance(st.value, ast.Constant) and st.value.value is value
    n_roll = 0
    setters = set()
    for f in net_cls.methods.values():
        cfg = ctx.cfg(f)
        sets_true = [st for st in cfg.stmts() if is_set(st, True)]
        if sets_true:
            setters.add(f)
        for st in cfg.stmts():
            if isinstance(st, (ast.If, ast.For, ast.While, ast.Try, ast.With)):
                continue
            if not any("roll(" in s for s in _strings_of(st)):
                continue
            n_roll += 1
            dom = any(cfg.dominates(t, st) for t in sets_true)
            after = find_path(cfg, list(cfg.g.successors(st)), lambda n: n is cfg.EXIT, avoid=lambda n: any(n is t for t in sets_true)) is None \
                if sets_true else False
            if dom or after:
                ctx.ok(rid, f, st, f"the `roll(` ring-buffer equation is emitted only together with `self.{marker} = True`",
                       {"setters": [norm(t) for t in sets_true]})
            else:
                ctx.violation(rid, f, st, f"this branch emits an in-place ring buffer (`roll(`) but does not set `self.{marker} = True` on the "
                                          f"same path: CircuitIR.__init__ will not refuse the model on a backend with immutable arrays and the "
                                          f"delayed value never accumulates", {"setters_in_function": [norm(t) for t in sets_true]})
    ctx.require(n_roll >= 1, f"{rid}: no `roll(` equation template found in {net_cls.name} (anchor vanished)")
    # the marker is never reset after it may have been set
    n_init = 0
    reach_setters = set()
    for f in net_cls.methods.values():
        if ctx.cg.reachable([f]) & setters:
            reach_setters.add(f)
    for f in net_cls.methods.values():
        cfg = ctx.cfg(f)
        for st in cfg.stmts():
            if is_set(st) and not is_set(st, True):
                bad = None
                for c, targets, how in ctx.cg.calls.get(f, []):
                    if any(t in reach_setters for t in targets):
                        cs = stmt_of(cfg, c)
                        if cs is not None and cfg.reachable_after(cs, st):
                            bad = cs
                            break
                if bad is not None:
                    ctx.violation(rid, f, st, f"`{norm(st)}` can execute after `{norm(bad)}`, which may have set the marker: the ring-buffer "
                                              f"requirement is forgotten and the backend check is skipped")
                else:
                    ctx.ok(rid, f, st, "the marker is initialised before any call that can set it")
                n_init += 1
    ctx.require(n_init >= 1, f"{rid}: {net_cls.name} never initialises `{marker}` (CircuitIR would read a missing attribute)")


# ------------------------------------------------------------------------------------------------
# R3 — backend arguments validated before compiling
# ------------------------------------------------------------------------------------------------
def r3_backend_args(ctx, rid):
    cls = ctx.repo.get_class(CIRCUIT_T, "CircuitTemplate")
    apply_f = ctx.repo.get_func(CIRCUIT_T, "CircuitTemplate.apply")
    val_f = ctx.repo.get_func(CIRCUIT_T, "CircuitTemplate._validate_backend_args")
    vparams = val_f.params
    ctx.require("backend" in vparams and "vectorize" in vparams, f"{rid}: signature of _validate_backend_args changed")
    sites = [(f, c) for f, c in ctx.cg.call_sites_of(apply_f) if any(k.arg == "backend" for k in c.keywords)]
    site_funcs = {f for f, _ in sites}
    for need in R3_ENTRIES:
        ef = ctx.repo.get_func(CIRCUIT_T, need)
        # the entry point compiles through apply itself or through extracted helpers
        ctx.require(bool(ctx.cg.reachable([ef]) & site_funcs),
                    f"{rid}: {need} no longer hands a backend to CircuitTemplate.apply (anchor vanished)")

    def validated_before(f, a_st, want_b: ast.AST, want_v: ast.AST, depth=0):
        """(good, why): a call of _validate_backend_args with the values `want_b`/`want_v` dominates statement `a_st` of `f` - in
        `f` itself or, when both values are unmodified parameters of an extracted helper, before every call of that helper."""
        cfg = ctx.cfg(f)
        sb, sv = ast.unparse(want_b), ast.unparse(want_v)
        for e in (want_b, want_v):
            if isinstance(e, ast.Constant):
                continue
            if not isinstance(e, ast.Name):
                raise AnalysisError(f"{rid}: {f.qual}: the setting `{ast.unparse(e)}` is not a plain name or constant (unrecognised form)")
            if _stores(f, e.id):
                raise AnalysisError(f"{rid}: {f.qual}: `{e.id}` is re-bound; cannot compare validated and compiled settings")
        vals = [c for c, targets, how in ctx.cg.calls.get(f, []) if val_f in targets]
        why = "no call of _validate_backend_args dominates the call of apply"
        for v in vals:
            v_st = stmt_of(cfg, v)
            if not cfg.dominates(v_st, a_st) or v_st is a_st:
                continue
            bnd = _bind_args(val_f, v)
            b, vz = bnd.get("backend"), bnd.get("vectorize")
            if b is not None and vz is not None and ast.unparse(b) == sb and ast.unparse(vz) == sv:
                return True, "", [norm(stmt_of(cfg, x)) for x in vals]
            why = (f"the dominating validation checks (backend={ast.unparse(b) if b is not None else '?'}, "
                   f"vectorize={ast.unparse(vz) if vz is not None else '?'}) but apply compiles (backend={sb}, vectorize={sv})")
        vtexts = [norm(stmt_of(cfg, x)) for x in vals]
        lift = all(isinstance(e, ast.Name) and e.id in f.params for e in (want_b, want_v)) and depth < 3 \
            and f.node.name.startswith("_") and not f.node.name.startswith("__")
        callers = ctx.cg.call_sites_of(f) if lift else []
        if callers and not vals:
            for g, c in callers:
                bnd = _bind_args(f, c)
                ab, av = bnd.get(want_b.id), bnd.get(want_v.id)
                if ab is None or av is None:
                    raise AnalysisError(f"{rid}: {g.qual}: cannot see which backend / vectorize values `{norm(c, 80)}` hands to {f.qualname}")
                okc, whyc, vt = validated_before(g, stmt_of(ctx.cfg(g), c), ab, av, depth + 1)
                vtexts += vt
                if not okc:
                    return False, f"{f.qualname} does not validate and its caller {g.qualname} does not either: {whyc}", vtexts
            return True, "", vtexts
        return False, why, vtexts

    for f, call in sites:
        cfg = ctx.cfg(f)
        a_st = stmt_of(cfg, call)
        kw = {k.arg: k.value for k in call.keywords if k.arg}
        if "vectorize" not in kw:
            raise AnalysisError(f"{rid}: {f.qual}: apply is called without vectorize= (unrecognised form)")
        good, why, vtexts = validated_before(f, a_st, kw["backend"], kw["vectorize"])
        facts = {"apply": norm(a_st), "validations": vtexts}
        # one obligation per site; a site inside a helper extracted from the public entry points counts once per entry it serves
        via = sorted({g.qualname for g, _ in _context_call_sites(ctx, f, R3_ENTRIES)}) if f.qualname not in R3_ENTRIES else []
        for label in ([f"{norm(a_st, 100)} (compiling for {q})" for q in via] or [None]):
            if good:
                ctx.ok(rid, f, a_st, "_validate_backend_args dominates apply and checks the settings that are compiled", facts, label=label)
            else:
                ctx.violation(rid, f, a_st, f"the template is compiled for a backend without prior validation of the backend arguments: {why}; "
                                            f"e.g. vectorize=True with the Fortran backend is compiled instead of refused", facts, label=label)
    # the backend tables the validator consults: no lost separator
    for tnode in [n for n in walk_shallow(val_f.node) if is_string_table(n)]:
        lint_table(ctx, rid, val_f, val_f.module, tnode, f"backend table {norm(tnode, 60)}", "a backend listed here is no longer matched",
                   label=f"literals of {norm(tnode, 60)}")
    for nm, tnode in module_tables_used(val_f):
        lint_table(ctx, rid, val_f, val_f.module, tnode, f"backend table {nm}", "a backend listed here is no longer matched",
                   label=f"literals of {nm}")
    # content: (vectorize=True, backend='fortran') can only raise
    for nm in ("backend", "vectorize"):
        if _stores(val_f, nm):
            raise AnalysisError(f"{rid}: {val_f.qual} re-binds `{nm}`")
    cfg = ctx.cfg(val_f)
    env = assume(ctx, val_f, vectorize=True, backend="fortran")
    verdict, w = decide_silent(cfg, [cfg.ENTRY], lambda n: n is cfg.EXIT, None, env, ("vectorize", "backend"), _raise_edge_ok(ctx, val_f))
    if verdict == "undecided":
        raise AnalysisError(f"{rid}: {val_f.qual}: cannot evaluate `{ast.unparse(w.test) if w is not None else '?'}` for vectorize=True, "
                            f"backend='fortran' (unrecognised form); cannot decide whether the combination is refused")
    if w is None:
        ctx.ok(rid, val_f, val_f.node, "with vectorize=True and backend='fortran' every path raises", label="fortran x vectorize refused")
    else:
        ctx.violation(rid, val_f, val_f.node, f"_validate_backend_args(backend='fortran', vectorize=True) can return normally ({cfg.path_str(w)}): "
                                              f"vectorization with the Fortran backend is not refused",
                      {"witness": cfg.path_str(w)}, label="fortran x vectorize refused")


# ------------------------------------------------------------------------------------------------
# R4 — a path that selects nothing is reported
# ------------------------------------------------------------------------------------------------
def _is_warn(ctx, f, st) -> bool:
    if not (isinstance(st, ast.Expr) and isinstance(st.value, ast.Call)):
        return False
    c = st.value
    return call_name(c) == "warn" and (ctx.repo.external_name(f.module, c.func) or "").startswith("warnings")


def _indexes_unconditionally(st, name: str) -> bool:
    if isinstance(st, (ast.If, ast.For, ast.While, ast.Try, ast.With)):
        return False
    for n in header_nodes(st):
        if isinstance(n, ast.Subscript) and isinstance(n.value, ast.Name) and n.value.id == name and isinstance(n.ctx, ast.Load) \
                and isinstance(n.slice, ast.Constant) and isinstance(n.slice.value, int):
            cond = False
            for a in ancestors(n):
                if a is st:
                    break
                if isinstance(a, (ast.IfExp, ast.BoolOp, ast.Lambda, ast.ListComp, ast.SetComp, ast.DictComp, ast.GeneratorExp)):
                    cond = True
                    break
            if not cond:
                return True
    return False


def _result_position(value: ast.AST, is_result: Callable) -> Optional[tuple]:
    """() when `value` is the result itself, (i,) when it is element i of a tuple display, None otherwise."""
    if is_result(value):
        return ()
    if isinstance(value, ast.Tuple):
        idx = [i for i, e in enumerate(value.elts) if is_result(e)]
        if len(idx) == 1 and not any(isinstance(e, ast.Starred) for e in value.elts):
            return (idx[0],)
    return None


def _bound_name(rid, g, st, call, pos: tuple) -> str:
    """Local of `g` that receives position `pos` of the value returned by `call` in statement `st`."""
    if isinstance(st, ast.Assign) and _through_copies(st.value) is call and len(st.targets) == 1:
        t = st.targets[0]
        if st.value is not call and pos != ():
            t = None
        if pos == () and isinstance(t, ast.Name):
            return t.id
        if len(pos) == 1 and isinstance(t, (ast.Tuple, ast.List)) and len(t.elts) > pos[0] \
                and not any(isinstance(e, ast.Starred) for e in t.elts) and isinstance(t.elts[pos[0]], ast.Name):
            return t.elts[pos[0]].id
    raise AnalysisError(f"{rid}: {g.qual}: the result of the node look-up is not bound to a local name (`{norm(st)}`); unrecognised form")


def _r4_lift(ctx, rid, f, pos, must_raise, depth, via):
    """The look-up result leaves the private helper `f` through its return value (position `pos`): follow it into every caller."""
    callers = ctx.cg.call_sites_of(f) if (_is_private(f) and depth < 3) else []
    if not callers:
        return (f, via, "returns the empty result to its caller")
    for g, c in callers:
        gcfg = ctx.cfg(g)
        cst = stmt_of(gcfg, c)
        r2 = _bound_name(rid, g, cst, c, pos)
        w = _r4_follow(ctx, rid, g, cst, r2, must_raise or g.qualname in R4_MUST_RAISE, depth + 1)
        if w is not None:
            return w
    return None


def _r4_follow(ctx, rid, f, st, r, must_raise, depth=0, starts=None, extra_env=None, passthrough=()):
    """Under the assumption that the local `r` (bound at `st`) is empty: a witness (function, path, how) of a silent continuation,
    or None when every continuation passes a reporter.  A private helper that hands `r` back to its callers is followed there."""
    from engine.dataflow import stmt_defs
    cfg = ctx.cfg(f)

    def reporter(x):
        if isinstance(x, ast.Raise):
            return True
        if isinstance(x, ast.stmt) and _indexes_unconditionally(x, r):
            return True
        if not must_raise and isinstance(x, ast.stmt) and _is_warn(ctx, f, x):
            return True
        return False

    def is_r(e):
        return _same_length_as(e, r)
    hands_back = {id(x): _result_position(x.value, is_r) for x in cfg.stmts()
                  if isinstance(x, ast.Return) and x.value is not None and _result_position(x.value, is_r) is not None} \
        if _is_private(f) and ctx.cg.call_sites_of(f) else {}

    def goal(x):
        return x is cfg.EXIT or x is st or (isinstance(x, (ast.stmt, ast.ExceptHandler)) and r in stmt_defs(x) and id(x) not in passthrough)
    env = assume(ctx, f, **{r: Len(0)})
    if extra_env:
        env.update(extra_env)
    eok = _raise_edge_ok(ctx, f)
    starts = list(cfg.g.successors(st)) if starts is None else starts
    verdict, w = decide_silent(cfg, starts, goal, lambda x: reporter(x) or id(x) in hands_back, env, (r,), eok)
    if verdict == "undecided":
        raise AnalysisError(f"{rid}: {f.qual}: cannot evaluate `{ast.unparse(w.test) if w is not None else '?'}` for an empty `{r}` "
                            f"(unrecognised form); cannot decide whether an empty selection is reported")
    if w is not None:
        end = "the next definition of the result (next loop iteration)" if w[-1] is not cfg.EXIT else "the normal exit"
        return (f, [st] + w, f"reaches {end}")
    for x in cfg.stmts():
        if id(x) in hands_back:
            wx = find_path(cfg, starts, lambda n, x=x: n is x, avoid=reporter, env=env, edge_ok=eok)
            if wx is not None:
                res = _r4_lift(ctx, rid, f, hands_back[id(x)], must_raise, depth, [st] + wx)
                if res is not None:
                    return res
    return None


def _same_length_as(e: ast.AST, r: str) -> bool:
    """`e` has exactly as many elements as the local sequence `r`: `r` itself, an order-keeping copy, or an unfiltered
    comprehension with one element per element of `r` (`[(n, f(n)) for i, n in enumerate(r)]`) - empty iff `r` is empty."""
    e = _through_copies(e)
    if isinstance(e, ast.Name):
        return e.id == r
    if isinstance(e, (ast.ListComp, ast.GeneratorExp, ast.SetComp)) and len(e.generators) == 1 and not e.generators[0].ifs \
            and not isinstance(e, ast.SetComp):
        src = _loop_source(e.generators[0].iter)
        return isinstance(src, ast.Name) and src.id == r
    return False


def _hands_selection_back(cfg, st, call) -> bool:
    """the look-up result itself (possibly copied, possibly as a tuple element) is returned by the function"""
    if isinstance(st, ast.Return):
        return st.value is not None and _result_position(st.value, lambda e: _through_copies(e) is call) is not None
    if isinstance(st, ast.Assign) and _through_copies(st.value) is call and len(st.targets) == 1 and isinstance(st.targets[0], ast.Name):
        r = st.targets[0].id
        return any(isinstance(x, ast.Return) and x.value is not None
                   and _result_position(x.value, lambda e: _same_length_as(e, r)) is not None
                   for x in cfg.stmts())
    return False


def _narrowings(ctx, f, cfg, st, r, narrowers) -> list:
    """Statements of `f` that bind a narrowed version of the selection `r` (bound at `st`): [(statement, new name, argument name)].
    Narrowing = a call of one of the `narrowers` (the private filters of the look-up implementation, e.g. by operator / variable)
    that is handed the selection, or a filtering comprehension `[n for n in sel if ...]` / `list(filter(p, sel))`."""
    from engine.dataflow import assigned_value
    rd = ctx.rd(f)

    def is_selection(e, at, depth=0) -> Optional[str]:
        e = _through_copies(e)
        if not isinstance(e, ast.Name) or depth > 3:
            return None
        defs = rd.defs_reaching_at(at, e.id)
        if not defs:
            return None
        for d in defs:
            if d is st and e.id == r:
                continue
            v = assigned_value(d, e.id) if isinstance(d, ast.AST) else None
            if v is None or is_selection(v, d, depth + 1) is None:
                return None
        return e.id
    out = []
    for st2 in cfg.stmts():
        if st2 is st or not (isinstance(st2, ast.Assign) and len(st2.targets) == 1 and isinstance(st2.targets[0], ast.Name)):
            continue
        v = st2.value
        arg = None
        if isinstance(v, ast.Call):
            targets, how = ctx.cg.resolve_call(f, v)
            if targets and all(t in narrowers for t in targets):
                for a in list(v.args) + [k.value for k in v.keywords]:
                    nm = is_selection(a, st2)
                    if nm is not None:
                        arg = nm
            elif isinstance(v.func, ast.Name) and v.func.id == "list" and len(v.args) == 1 and isinstance(v.args[0], ast.Call) \
                    and isinstance(v.args[0].func, ast.Name) and v.args[0].func.id == "filter" and len(v.args[0].args) == 2:
                arg = is_selection(v.args[0].args[1], st2)
        elif isinstance(v, ast.ListComp) and len(v.generators) == 1 and v.generators[0].ifs:
            arg = is_selection(_loop_source(v.generators[0].iter), st2)
        if arg is not None:
            out.append((st2, st2.targets[0].id, arg))
    return out


def r4_empty_selection_reported(ctx, rid):
    gn = ctx.repo.get_func(CIRCUIT_T, "CircuitTemplate.get_nodes")
    n = 0
    covered: set = set()
    # the implementation of get_nodes: the method itself plus the private helpers only it (transitively) calls; their recursive
    # calls descend the circuit hierarchy and are not look-ups of a user path
    impl = {gn}
    grew = True
    while grew:
        grew = False
        for m in list(impl):
            for g in ctx.cg.callees(m):
                if g not in impl and _is_private(g) and g.cls is gn.cls:
                    callers = {h for h, _ in ctx.cg.call_sites_of(g)}
                    if callers and callers <= impl:
                        impl.add(g)
                        grew = True
    # the private filters the look-up itself applies (whoever else calls them): handed a selection, they narrow it
    narrowers, todo = set(), [gn]
    while todo:
        for g in ctx.cg.callees(todo.pop()):
            if g not in narrowers and g != gn and _is_private(g) and g.cls is gn.cls:
                narrowers.add(g)
                todo.append(g)
    for f, call in sorted(ctx.cg.call_sites_of(gn), key=lambda fc: (fc[0].module.rel, fc[1].lineno)):
        if f in impl:
            continue
        ident = _arg(call, 0, "node_identifier")
        if ident is None:
            raise AnalysisError(f"{rid}: {f.qual}: get_nodes call without a node identifier")
        try:
            lit = ast.literal_eval(ident)
        except Exception:
            lit = None
        if lit is not None:
            ctx.info(rid, f, stmt_of(ctx.cfg(f), call), f"constant identifier {lit!r}: selects by construction, not by a user path")
            continue
        if f.qualname in R4_QUERIES:
            ctx.info(rid, f, stmt_of(ctx.cfg(f), call), f"query: {R4_QUERIES[f.qualname]}")
            continue
        if _in_raise(call) or _only_while_raising(ctx, f):
            ctx.info(rid, f, stmt_of(ctx.cfg(f), call), "look-up made while composing the message of an exception that is raised "
                                                        "regardless of its result: nothing can be silently dropped here")
            continue
        qs = _only_called_from(ctx, f, R4_QUERIES)
        if qs:
            ctx.info(rid, f, stmt_of(ctx.cfg(f), call), f"look-up extracted from the quer{'y' if len(qs) == 1 else 'ies'} {', '.join(sorted(qs))}: "
                                                        f"{R4_QUERIES[sorted(qs)[0]]}")
            continue
        cfg = ctx.cfg(f)
        st = stmt_of(cfg, call)
        # a look-up extracted from a must-raise function into a private helper inherits the requirement and counts once per use
        uses = [] if f.qualname in R4_MUST_RAISE else _context_call_sites(ctx, f, R4_MUST_RAISE)
        must_raise = f.qualname in R4_MUST_RAISE or bool(uses)
        # a private helper without any effect that does not hand the selection itself back (that case is followed into the callers)
        # and serves no must-raise function is a read-only query
        if not must_raise and _is_private(f) and ctx.cg.call_sites_of(f) and not _hands_selection_back(cfg, st, call) and _effect_free(ctx, f):
            ctx.info(rid, f, st, f"read-only helper: {f.qualname} changes nothing (no store, no mutating call on its arguments, module state or "
                                 f"anything reachable from them), so it cannot apply or drop an input / update; it only answers its caller")
            continue
        n += 1
        if isinstance(st, ast.Return) and st.value is not None and _result_position(st.value, lambda e: e is call) is not None:
            r = "<returned>"
            wit = _r4_lift(ctx, rid, f, _result_position(st.value, lambda e: e is call), must_raise, 0, [st])
        elif isinstance(st, (ast.For, ast.AsyncFor)) and _loop_source(st.iter) is call:
            # the result is iterated directly: an empty selection skips the loop body
            r = "<iterated>"
            wit = _r4_follow(ctx, rid, f, st, r, must_raise, starts=succ(cfg, st, "done"))
        else:
            r = _bound_name(rid, f, st, call, ())
            # nothing narrowed stays nothing: a narrowing of the (empty) selection neither ends the path nor hides the later test
            narrowed = _narrowings(ctx, f, cfg, st, r, narrowers)
            wit = _r4_follow(ctx, rid, f, st, r, must_raise, extra_env={x: Len(0) for _, x, _a in narrowed},
                             passthrough={id(s2) for s2, x, _a in narrowed if x == r})
        has_var = _arg(call, 1, "var_identifier") is not None
        facts = {"result": r, "selects_by": "node path and variable" if has_var else "node path", "required": "raise" if must_raise else "warn or raise"}
        if uses:
            facts["look_up"] = f"{f.qualname}: {norm(st, 100)}"
        places, seen_labels = [], {}
        for g, c in (uses or [(f, call)]):
            gst = stmt_of(ctx.cfg(g), c)
            k = seen_labels.get((g, norm(gst)), 0)
            seen_labels[(g, norm(gst))] = k + 1
            places.append((g, gst, None if k == 0 else f"{norm(gst)} #{k + 1}"))
        for g, gst, label in places:
            covered.add(g.qualname)
            if wit is None:
                ctx.ok(rid, g, gst, f"when `{r}` is empty every continuation passes a {'raise' if must_raise else 'warn/raise'}", facts, label=label)
            else:
                wf, wpath, how = wit
                ps = ctx.cfg(wf).path_str(wpath)
                ctx.violation(rid, g, gst, f"when the path selects nothing (`{r}` empty) {wf.qualname} {how} without "
                                           f"{'raising' if must_raise else 'a warning or an exception'} ({ps}): the "
                                           f"{'requested output is silently omitted' if must_raise else 'input / parameter update is silently dropped'}",
                              dict(facts, witness=ps), label=label)
        # ---- a narrowing of the resolved selection (filter by operator / variable) is a selection of its own: a non-empty
        # selection narrowed to nothing must be reported AFTER the narrowing; a test placed before it does not count
        if r not in ("<returned>", "<iterated>"):
            for st2, x, a_name in _narrowings(ctx, f, cfg, st, r, narrowers):
                extra = {} if a_name == x else {a_name: Len(1)}
                if r not in (x, a_name):
                    extra[r] = Len(1)
                wit2 = _r4_follow(ctx, rid, f, st2, x, must_raise, extra_env=extra)
                lab2 = f"narrowed selection: {norm(st2, 100)}"
                if wit2 is None:
                    ctx.ok(rid, f, st2, f"when the narrowing leaves nothing of a non-empty selection (`{x}` empty) every continuation passes a "
                                        f"{'raise' if must_raise else 'warn/raise'}", {"narrowed_from": a_name}, label=lab2)
                else:
                    wf, wpath, how = wit2
                    ps = ctx.cfg(wf).path_str(wpath)
                    ctx.violation(rid, f, st2, f"`{norm(st2, 80)}` narrows the resolved selection `{a_name}`; when nodes were addressed but none passes "
                                               f"the filter (`{x}` empty) {wf.qualname} {how} without a warning or an exception ({ps}) - the emptiness "
                                               f"test before the narrowing does not see this case: the input / parameter update is silently dropped",
                                  {"witness": ps, "narrowed_from": a_name}, label=lab2)
    ctx.require(n >= 1, f"{rid}: no get_nodes look-up of a user path found")
    # every must-raise function still performs a look-up (itself or through an extracted helper); the two branches of
    # get_variable_positions may legitimately be merged into one loop, so the numeric floor counts functions, not sites
    for q in R4_MUST_RAISE:
        ctx.require(q in covered, f"{rid}: no node look-up of a user path found in {q} (anchor vanished)")


# ------------------------------------------------------------------------------------------------
# R5 — exceptions are raised, broad handlers do not swallow
# ------------------------------------------------------------------------------------------------
def _unraised_constructions(ctx, module, tree):
    """Expression statements that only build an exception / warning object."""
    out = []
    for n in ast.walk(tree):
        if isinstance(n, ast.Expr) and isinstance(n.value, ast.Call) and isinstance(n.value.func, (ast.Name, ast.Attribute)):
            anc = exception_ancestry(ctx, module, n.value.func)
            if anc is not None:
                out.append(n)
    return out


_CONTROL_SRC = '''
def control(x):
    if x:
        ValueError("built, not raised")
    raise KeyError(x)
'''


def r5_raised_not_built(ctx, rid):
    # positive control: the detector must see a synthetic instance on every run
    ctl = ast.parse(_CONTROL_SRC)
    set_parents(ctl)
    some_module = ctx.repo.get_module(S.BASE_REL)
    if len(_unraised_constructions(ctx, some_module, ctl)) != 1:
        raise AnalysisError(f"{rid}: positive control failed: the detector does not see a constructed-but-not-raised exception")
    for m in sorted(ctx.repo.modules.values(), key=lambda m: m.rel):
        hits = _unraised_constructions(ctx, m, m.tree)
        n_raise = sum(1 for n in ast.walk(m.tree) if isinstance(n, ast.Raise))
        for h in hits:
            f = ctx.repo.enclosing_function(h)
            key = (m.rel, f.qualname if f is not None else "<module>")
            if key in UNRAISED_KNOWN:
                ctx.info(rid, f, h, f"exception object built but not raised (outside the pipeline: {UNRAISED_KNOWN[key]})")
                continue
            msg = (f"`{norm(h, 80)}` only constructs the exception/warning object; without `raise` (or warn) the unsupported request "
                   f"continues and returns a value")
            if f is not None:
                ctx.violation(rid, f, h, msg)
            else:
                ctx.violation(rid, None, None, msg, construct=f"{m.rel}::<module>::{norm(h)}", loc=f"{m.rel}:{h.lineno}")
        if m.rel in ANCHORED:
            ctx.ok(rid, None, None, f"{n_raise} raise statements; no exception object is built without being raised",
                   {"raise_statements": n_raise}, nontrivial=False, construct=f"{m.rel}::<module>::no unraised exception construction",
                   loc=f"{m.rel}:1")
    # broad handlers that swallow failures of PyRates' own code
    seen_keys = set()
    raising_cache: Dict[object, bool] = {}

    def swallowed(f, body):
        """(own, sw): `own` = names of PyRates' own functions the try body calls (plus 'raise' for a raise statement and '?name' for
        a call that cannot be resolved); `sw` = the subset that can raise, i.e. what a handler around `body` swallows, with a description."""
        own: set = set()
        sw: Dict[str, str] = {}
        for b in body:
            for x in ast.walk(b):
                if isinstance(x, ast.Raise):
                    own.add("raise")
                    sw["raise"] = "a raise statement"
        calls = {id(c): (c, t, how) for c, t, how in ctx.cg.calls.get(f, [])}
        for b in body:
            for x in ast.walk(b):
                if isinstance(x, ast.Call) and id(x) in calls:
                    c, targets, how = calls[id(x)]
                    if how.startswith("unresolved"):
                        nm = "?" + (call_name(c) or ast.unparse(c.func))
                        own.add(nm)
                        sw[nm] = f"the unresolved call {ast.unparse(c.func)}(...)"
                    for t in targets:
                        own.add(t.node.name)
                        if t not in raising_cache:
                            raising_cache[t] = any(any(isinstance(y, ast.Raise) for y in ast.walk(g.node)) for g in ctx.cg.reachable([t]))
                        if raising_cache[t]:
                            sw.setdefault(t.node.name, f"{t.qualname}, which can raise")
        return own, sw

    def frozen_site(f, own: set):
        """The frozen best-effort site this handler is: same module, the frozen function itself or a private helper extracted
        from it, and the try body calls nothing of PyRates beyond the functions whose failure the entry was justified for."""
        for key, why in BROAD_HANDLERS.items():
            rel, qn, allowed = key
            if f.module.rel != rel or not own or not own <= set(allowed):
                continue
            if f.qualname == qn or f.qualname.startswith(qn + "."):
                return key
            owner = ctx.repo.find_func(rel, qn)
            if owner is not None and _is_private(f) and f in ctx.cg.reachable([owner]):
                return key
        return None

    for f in ctx.repo.all_functions():
        for tr in walk_shallow(f.node):
            if not isinstance(tr, ast.Try):
                continue
            for h in tr.handlers:
                hn = _handler_names(h)
                broad = hn is None or any(x in ("Exception", "BaseException") for x in hn)
                if not broad:
                    continue
                reports = any(isinstance(x, ast.Raise) for b in h.body for x in ast.walk(b)) or \
                    any(isinstance(x, ast.Call) and call_name(x) in ("warn", "print_exc", "exception", "error", "warning")
                        for b in h.body for x in ast.walk(b))
                if reports:
                    ctx.ok(rid, f, tr.body[0], "broad handler re-raises or reports", label=f"broad handler around {norm(tr.body[0], 100)}", nontrivial=False)
                    continue
                if _only_while_raising(ctx, f):
                    ctx.info(rid, f, tr.body[0], f"broad silent handler in {f.qualname}, which only runs while its caller raises an exception "
                                                 f"(every call sits in a `raise` statement): a failure swallowed here cannot turn the refusal "
                                                 f"into a normal continuation")
                    continue
                own, sw = swallowed(f, tr.body)
                key = frozen_site(f, own)
                if key is not None:
                    seen_keys.add(key)
                    ctx.ok(rid, f, tr.body[0], f"frozen best-effort site: {BROAD_HANDLERS[key]}", {"calls": sorted(own), "swallows": sorted(sw)},
                           label=f"broad handler around calls of {'/'.join(sorted(own))}", nontrivial=False)
                    continue
                if not sw:
                    ctx.info(rid, f, tr.body[0], f"broad silent handler around calls that raise nothing of PyRates' own (own callees: {sorted(own)}); "
                                                 f"no PyRates guard can be swallowed")
                    continue
                what = sw[sorted(sw)[0]]
                ctx.violation(rid, f, tr.body[0], f"a broad `except {'/'.join(hn) if hn else ''}` whose body neither re-raises nor reports swallows "
                                                  f"{what} (the try body calls {sorted(own)}): a refusal raised inside is turned into a normal continuation",
                              {"swallows": sorted(sw)}, label=f"broad handler around {norm(tr.body[0], 100)}")
    missing = set(BROAD_HANDLERS) - seen_keys
    if missing:
        ctx.notes.append(f"{rid}: frozen broad-handler sites no longer present: {sorted(missing)}")


# ------------------------------------------------------------------------------------------------
# R6 — remaining guards
# ------------------------------------------------------------------------------------------------
def r6_remaining_guards(ctx, rid):
    _r6_check_vname(ctx, rid)
    _r6_single_output(ctx, rid)
    _r6_leftover_updates(ctx, rid)
    _r6_cycle(ctx, rid)
    _r6_edge_output(ctx, rid)
    _r6_verify_path_listing(ctx, rid)


def _target_ir_call(ctx, rid, f):
    calls = [c for c in walk_shallow(f.node) if isinstance(c, ast.Call) and _self_call(c, f, "target_ir")]
    if len(calls) != 1:
        raise AnalysisError(f"{rid}: {f.qual}: expected one self.target_ir(...) call, found {len(calls)}")
    return calls[0]


def _operator_apply_view(ctx):
    """(OperatorTemplate.apply, the view to analyse): the method itself, or - when parts of it were extracted into private helpers -
    the synthetic function with those helpers spliced back in.  Obligations are reported against the original method."""
    f0 = ctx.repo.get_func(OP_T, "OperatorTemplate.apply")
    from engine.inline import inlined
    fv = inlined(ctx, f0)
    if not getattr(fv, "inlined_helpers", None):
        fv = f0
    return f0, fv


def _calls_to(ctx, fv, target) -> List[ast.Call]:
    """Calls of `target` in the (possibly inlined) function view `fv`."""
    if fv in ctx.cg.calls:
        return [c for c, targets, how in ctx.cg.calls.get(fv, []) if target in targets]
    return [c for c in walk_shallow(fv.node) if isinstance(c, ast.Call) and target in ctx.cg.resolve_call(fv, c)[0]]


def _r6_check_vname(ctx, rid):
    f0, f = _operator_apply_view(ctx)
    chk = ctx.repo.get_func(OP_T, "check_vname")
    cfg = ctx.cfg(f)
    tcall = _target_ir_call(ctx, rid, f)
    v = _arg(tcall, 99, "variables")
    if not isinstance(v, ast.Name):
        raise AnalysisError(f"{rid}: {f.qual}: target_ir is not handed a local `variables=` list")
    appends = [st for st in cfg.stmts() if isinstance(st, ast.Expr) and isinstance(st.value, ast.Call) and call_name(st.value) == "append"
               and isinstance(st.value.func.value, ast.Name) and st.value.func.value.id == v.id]
    if not appends:
        raise AnalysisError(f"{rid}: {f.qual}: `{v.id}` is not filled by append (unrecognised form)")
    checks = _calls_to(ctx, f, chk)
    for ap in appends:
        item = ap.value.args[0] if ap.value.args else None
        if not (isinstance(item, ast.Tuple) and item.elts and isinstance(item.elts[0], ast.Name)):
            raise AnalysisError(f"{rid}: {f.qual}: unrecognised item appended to `{v.id}`: {norm(ap)}")
        vn = item.elts[0].id
        loops = [a for a in ancestors(ap) if isinstance(a, ast.For) and any(isinstance(x, ast.Name) and x.id == vn for x in ast.walk(a.target))]
        if not loops:
            raise AnalysisError(f"{rid}: {f.qual}: `{vn}` is not the variable of an enclosing loop")
        L = loops[0]
        good = False
        for c in checks:
            a0 = _arg(c, 0, "v")
            cs = stmt_of(cfg, c)
            if isinstance(a0, ast.Name) and a0.id == vn and contains(L, cs) and cfg.dominates(cs, ap):
                good = True
        rebinds = [x for b in L.body for x in ast.walk(b) if isinstance(x, ast.Name) and x.id == vn and isinstance(x.ctx, ast.Store)]
        if rebinds:
            raise AnalysisError(f"{rid}: {f.qual}: `{vn}` is re-bound inside the loop")
        if good:
            ctx.ok(rid, f0, ap, f"every variable handed to the OperatorIR has passed check_vname({vn}, ...) in the same iteration")
        else:
            ctx.violation(rid, f0, ap, f"a variable is appended to the list handed to the OperatorIR without a dominating check_vname({vn}, ...): "
                                      f"a reserved name (y, dy, pi, *_buffer ...) is compiled and silently collides with PyRates' own variables")
    # the reserved-name tables are enforced by a raise
    ccfg = ctx.cfg(chk)
    vparam = chk.params[0]

    def is_table(v):
        return isinstance(v, (ast.List, ast.Tuple, ast.Set)) and v.elts \
            and all(isinstance(x, ast.Constant) and isinstance(x.value, str) for x in v.elts)
    tables = [(st.targets[0].id, st) for st in ccfg.stmts() if isinstance(st, ast.Assign) and len(st.targets) == 1
              and isinstance(st.targets[0], ast.Name) and is_table(st.value)]
    local_names = {t for t, _ in tables}
    # tables hoisted to module level count as well
    for nm in sorted({n.id for n in walk_shallow(chk.node) if isinstance(n, ast.Name) and isinstance(n.ctx, ast.Load)} - local_names):
        if ctx.rd(chk).is_local(nm):
            continue
        defs = chk.module.assigns.get(nm, [])
        if len(defs) == 1 and isinstance(defs[0], (ast.Assign, ast.AnnAssign)) and defs[0].value is not None and is_table(defs[0].value):
            tables.append((nm, defs[0]))
    if not tables:
        raise AnalysisError(f"{rid}: {chk.qual}: no reserved-name table found")

    def membership(e, d=None):
        """accept-polarity of `x in y` / `x not in y` (True: the expression is true on a match), None if `e` is no such comparison"""
        if isinstance(e, ast.Compare) and len(e.ops) == 1 and isinstance(e.ops[0], (ast.In, ast.NotIn)):
            return isinstance(e.ops[0], ast.In)
        return None
    table_values = {id(tb.value) for _, tb in tables}
    for tname, tb in tables:
        lint_table(ctx, rid, chk, chk.module, tb.value, f"reserved-name table {tname}",
                   "the reserved names hidden in the merged entry are accepted as variable names", label=f"reserved-name table {tname} literals")
    for tnode in [n for n in walk_shallow(chk.node) if is_string_table(n) and id(n) not in table_values]:
        lint_table(ctx, rid, chk, chk.module, tnode, f"reserved-name table {norm(tnode, 60)}",
                   "the reserved names hidden in the merged entry are accepted as variable names", label=f"literals of {norm(tnode, 60)}")
    for tname, tb in tables:
        uses = [n for n in walk_shallow(chk.node) if isinstance(n, ast.Name) and n.id == tname and isinstance(n.ctx, ast.Load)]
        enforced, witness, recognised_use = False, None, False
        for u in uses:
            st = stmt_of(ccfg, u)
            tests = []
            if isinstance(st, ast.If) and contains(st.test, u):
                tests = [st]
            elif isinstance(st, ast.For) and st.iter is u and isinstance(st.target, ast.Name):
                d = st.target.id
                tests = [x for x in ast.walk(st) if isinstance(x, ast.If) and any(isinstance(y, ast.Name) and y.id == d for y in ast.walk(x.test))]
            if not tests and isinstance(st, ast.Assign) and len(st.targets) == 1 and isinstance(st.targets[0], ast.Name) \
                    and isinstance(st.value, ast.Call) and isinstance(st.value.func, ast.Name) and st.value.func.id in ("next", "any") \
                    and st.value.args and isinstance(st.value.args[0], (ast.GeneratorExp, ast.ListComp)) \
                    and len(st.value.args[0].generators) == 1 and st.value.args[0].generators[0].iter is u:
                # first match / any match bound to a local: `m = next((p for p in table if p in v), None)` ... `if m is not None: raise`
                gen, kind = st.value.args[0], st.value.func.id
                conds = gen.generators[0].ifs if kind == "next" else [gen.elt]
                dflt_ok = kind == "any" or (len(st.value.args) == 2 and isinstance(st.value.args[1], ast.Constant) and st.value.args[1].value is None)
                if len(conds) == 1 and membership(conds[0]) is True and dflt_ok and (kind == "any" or not gen.generators[0].ifs[1:]) \
                        and any(isinstance(y, ast.Name) and y.id == vparam for y in ast.walk(conds[0])) \
                        and len(_stores(chk, st.targets[0].id)) == 1:
                    m = st.targets[0].id
                    recognised_use = True
                    for t in [x for x in ccfg.stmts() if isinstance(x, ast.If) and any(isinstance(y, ast.Name) and y.id == m for y in ast.walk(x.test))]:
                        tv = _truth(ev(t.test, {m: True if kind == "any" else "match"}))
                        if tv is UNK:
                            raise AnalysisError(f"{rid}: {chk.qual}: unrecognised reserved-name test `{ast.unparse(t.test)}`")
                        w = branch_returns(ctx, chk, t, "true" if tv else "false")
                        if w is None:
                            enforced = True
                        else:
                            witness = ccfg.path_str(w)
                    continue
            if tests:
                recognised_use = True
            for t in tests:
                e, neg = _strip_not(t.test)
                pol = membership(e)
                if pol is None and isinstance(e, ast.Call) and isinstance(e.func, ast.Name) and e.func.id == "any" and len(e.args) == 1 \
                        and isinstance(e.args[0], (ast.GeneratorExp, ast.ListComp)) and len(e.args[0].generators) == 1 \
                        and not e.args[0].generators[0].ifs:
                    pol = membership(e.args[0].elt)           # any(part in v for part in table)
                if pol is None:
                    raise AnalysisError(f"{rid}: {chk.qual}: unrecognised reserved-name test `{ast.unparse(t.test)}`")
                if not any(isinstance(y, ast.Name) and y.id == vparam for y in ast.walk(t.test)):
                    continue
                w = branch_returns(ctx, chk, t, "true" if pol != neg else "false")
                if w is None:
                    enforced = True
                else:
                    witness = ccfg.path_str(w)
        if enforced and witness is None:
            ctx.ok(rid, chk, tb, f"a name matching `{tname}` can only raise", label=f"reserved-name table {tname} enforced")
        elif uses and not recognised_use and witness is None:
            raise AnalysisError(f"{rid}: {chk.qual}: the reserved-name table `{tname}` is consulted in a form that is not recognised "
                                f"(`{norm(stmt_of(ccfg, uses[0]), 80)}`)")
        else:
            ctx.violation(rid, chk, tb, f"a variable name matching the reserved table `{tname}` does not lead to a raise"
                                        f"{' (' + witness + ')' if witness else ''}: the reserved name is accepted",
                          label=f"reserved-name table {tname} enforced")


def _r6_single_output(ctx, rid):
    f0, f = _operator_apply_view(ctx)
    cfg = ctx.cfg(f)
    tcall = _target_ir_call(ctx, rid, f)
    o = _arg(tcall, 99, "output")
    if not isinstance(o, ast.Name):
        raise AnalysisError(f"{rid}: {f.qual}: target_ir is not handed a local `output=` name")
    assigns = [st for st in cfg.stmts() if isinstance(st, ast.Assign) and any(isinstance(t, ast.Name) and t.id == o.id for t in st.targets)
               and any(isinstance(a, ast.For) for a in ancestors(st))]
    if not assigns:
        raise AnalysisError(f"{rid}: {f.qual}: `{o.id}` is not assigned inside the variable loop (unrecognised form)")
    class _Set:
        """Stands for `some value that is not None` in the three-valued evaluation."""
        def __bool__(self):
            return True
    was_set = _Set()
    eok = _raise_edge_ok(ctx, f)
    from engine.dataflow import stmt_defs
    stores = [st for st in cfg.stmts() if o.id in stmt_defs(st)]

    def refuses(st) -> bool:
        """`st` hands the current output to a helper that can only raise when it is not None (an extracted guard)."""
        if isinstance(st, (ast.If, ast.For, ast.While, ast.Try, ast.With)):
            return False
        for c in _calls_of_stmt(st):
            if not any(isinstance(x, ast.Name) and x.id == o.id for x in list(c.args) + [k.value for k in c.keywords]):
                continue
            targets, how = ctx.cg.resolve_call(f, c)
            if how == "external":
                continue
            if len(targets) != 1:
                raise AnalysisError(f"{rid}: {f.qual}: `{o.id}` is handed to `{norm(c, 60)}`, which cannot be resolved; cannot decide whether it "
                                    f"refuses a second output")
            g = targets[0]
            ps = [k for k, v in _bind_args(g, c).items() if isinstance(v, ast.Name) and v.id == o.id]
            if len(ps) == 1 and not _stores(g, ps[0]):
                gcfg = ctx.cfg(g)
                if find_path(gcfg, [gcfg.ENTRY], lambda n: n is gcfg.EXIT, env={ps[0]: was_set}, edge_ok=_raise_edge_ok(ctx, g)) is None:
                    return True
        return False

    for a in assigns:
        loop = [x for x in ancestors(a) if isinstance(x, ast.For)][0]
        starts = succ(cfg, loop, "iter")
        others = [st for st in stores if st is not a] + [loop]      # stay within one iteration, with `output` unchanged
        # a second declaration: `output` already holds a name; is there a way from the top of the iteration to the assignment?
        w = find_path(cfg, starts, lambda n: n is a, avoid=lambda n: any(n is x for x in others) or (isinstance(n, ast.stmt) and refuses(n)),
                      env={o.id: was_set}, edge_ok=eok)
        first = None
        if w is None:
            # non-vacuity: the first declaration (output still None) does reach the assignment
            first = find_path(cfg, starts, lambda n: n is a, avoid=lambda n: any(n is x for x in others), env={o.id: None}, edge_ok=eok)
            if first is None:
                raise AnalysisError(f"{rid}: {f.qual}: `{norm(a)}` is not reachable within one iteration while `{o.id}` is None (unrecognised form)")
        tests = [n for n in (first or []) if isinstance(n, (ast.If, ast.While)) and any(isinstance(x, ast.Name) and x.id == o.id for x in ast.walk(n.test))]
        if w is None:
            ctx.ok(rid, f0, a, "a second output declaration can only raise", {"guard": norm(tests[0]) if tests else "helper"})
        elif not any(isinstance(n, (ast.If, ast.While)) and any(isinstance(x, ast.Name) and x.id == o.id for x in ast.walk(n.test)) for n in w):
            ctx.violation(rid, f0, a, f"`{norm(a)}` is not guarded by a test that `{o.id}` is still None: a second output declaration silently "
                                     f"replaces the first instead of raising", {"witness": cfg.path_str(w)})
        else:
            undecided = [n for n in w if isinstance(n, (ast.If, ast.While)) and any(isinstance(x, ast.Name) and x.id == o.id for x in ast.walk(n.test))
                         and _truth(ev(n.test, {o.id: was_set})) is UNK]
            if undecided:
                raise AnalysisError(f"{rid}: {f.qual}: cannot evaluate the output guard `{ast.unparse(undecided[0].test)}` for an output that is "
                                    f"already set (unrecognised form)")
            ctx.violation(rid, f0, a, f"when a second variable is declared as output the loop reaches `{norm(a)}` ({cfg.path_str(w)}) instead of "
                                     f"raising: more than one output per operator is accepted silently", {"witness": cfg.path_str(w)})


def _r6_leftover_updates(ctx, rid):
    f = ctx.repo.get_func(OPGRAPH_T, "OperatorGraphTemplate.apply")
    cfg = ctx.cfg(f)
    pops = []
    for c in walk_shallow(f.node):
        if isinstance(c, ast.Call) and call_name(c) == "pop" and isinstance(c.func.value, ast.Name):
            loops = [a for a in ancestors(c) if isinstance(a, ast.For)]
            if loops and "operators" in ast.unparse(loops[-1].iter):
                pops.append((c, loops[-1]))
    if len(pops) != 1:
        raise AnalysisError(f"{rid}: {f.qual}: expected one `<updates>.pop(...)` inside the loop over the operators, found {len(pops)}")
    c, loop = pops[0]
    d = c.func.value.id
    guards = []
    for st in cfg.stmts():
        if isinstance(st, ast.If) and not contains(loop, st) and cfg.dominates(loop, st):
            t1 = _truth(ev(st.test, {d: Len(1)}))
            t0 = _truth(ev(st.test, {d: Len(0)}))
            if t1 is not UNK and t0 is not UNK and t1 != t0:
                guards.append((st, "true" if t1 else "false"))
    good = None
    for g, lab in guards:
        if branch_returns(ctx, f, g, lab) is None:
            good = g
    after = succ(cfg, loop, "done")
    if good is not None and find_path(cfg, after, lambda n: n is cfg.EXIT, avoid=lambda n: n is good) is None:
        ctx.ok(rid, f, good, f"after the operators consumed their updates, a non-empty `{d}` can only raise", {"dict": d})
    else:
        ctx.violation(rid, f, loop, f"values addressed to operators that do not exist stay in `{d}` after the loop, and the function can return "
                                    f"without raising: a node-level value for a misspelt operator is silently dropped", {"dict": d},
                      label=f"leftover {d} raise")


def _r6_cycle(ctx, rid):
    f = ctx.repo.get_func(OPGRAPH_IR, "OperatorGraph.__init__")
    cfg = ctx.cfg(f)
    sts = [st for st in cfg.stmts() if not isinstance(st, (ast.If, ast.For, ast.While, ast.Try, ast.With))
           and any(call_name(c) == "find_cycle" for c in _calls_of_stmt(st))]
    if len(sts) != 1:
        raise AnalysisError(f"{rid}: {f.qual}: expected one find_cycle(...) statement, found {len(sts)}")
    st = sts[0]
    call = [c for c in _calls_of_stmt(st) if call_name(c) == "find_cycle"][0]
    if not (call.args and isinstance(call.args[0], ast.Name) and call.args[0].id == f.self_name):
        raise AnalysisError(f"{rid}: {f.qual}: find_cycle is not applied to the graph itself")
    w = find_path(cfg, succ(cfg, st, "next"), lambda n: n is cfg.EXIT, edge_ok=_raise_edge_ok(ctx, f))
    w2 = find_path(cfg, [cfg.ENTRY], lambda n: n is cfg.EXIT, avoid=lambda n: n is st)
    if w is None and w2 is None:
        ctx.ok(rid, f, st, "find_cycle is on every path and its normal completion (a cycle exists) can only raise")
    elif w is not None:
        ctx.violation(rid, f, st, f"when find_cycle returns a cycle the constructor continues to its normal exit ({cfg.path_str([st] + w)}): "
                                  f"a cyclic operator graph is accepted", {"witness": cfg.path_str([st] + w)})
    else:
        ctx.violation(rid, f, st, f"the constructor can finish without running the cycle check ({cfg.path_str(w2)})", {"witness": cfg.path_str(w2)})


def _r6_edge_output(ctx, rid):
    f = ctx.repo.get_func(EDGE_IR, "EdgeIR.output")
    cfg = ctx.cfg(f)
    cands = [st for st in cfg.stmts() if isinstance(st, (ast.Assign, ast.AnnAssign)) and "out_degree" in ast.unparse(st)]
    if len(cands) != 1:
        raise AnalysisError(f"{rid}: {f.qual}: the list of output operators (out_degree == 0) was not found")
    st = cands[0]
    tgt = st.targets[0] if isinstance(st, ast.Assign) else st.target
    if not isinstance(tgt, ast.Name) or _stores(f, tgt.id) != [tgt]:
        raise AnalysisError(f"{rid}: {f.qual}: unrecognised binding of the output-operator list")
    env = assume(ctx, f, **{tgt.id: Len(2)})
    verdict, w = decide_silent(cfg, list(cfg.g.successors(st)), lambda n: n is cfg.EXIT, None, env, (tgt.id,), _raise_edge_ok(ctx, f))
    if verdict == "undecided":
        raise AnalysisError(f"{rid}: {f.qual}: cannot evaluate `{ast.unparse(w.test) if w is not None else '?'}` for two output "
                            f"operators (unrecognised form)")
    if w is None:
        ctx.ok(rid, f, st, "with two output operators every path raises", label="more than one output operator refused")
    else:
        ctx.violation(rid, f, st, f"with more than one output operator EdgeIR.output returns normally ({cfg.path_str([st] + w)}) instead of raising",
                      {"witness": cfg.path_str([st] + w)}, label="more than one output operator refused")


def _r6_verify_path_listing(ctx, rid):
    f = ctx.repo.find_func(CIRCUIT_IR, "NetworkGraph._parse_source_vars")
    if f is None:
        return
    for c in walk_shallow(f.node):
        if isinstance(c, ast.Call) and _self_call(c, f, "_verify_path"):
            ctx.info(rid, f, stmt_of(ctx.cfg(f), c), "source path verified (listed only: a missing endpoint also fails with KeyError in later look-ups, "
                                                     "so this call is not a necessary condition of loudness)")


# ------------------------------------------------------------------------------------------------
# R7 — a fixed-step solver that cannot feed the history refuses it (D-14)
# ------------------------------------------------------------------------------------------------
def r7_history_fed_or_refused(ctx, rid):
    for s in S.solver_instances(ctx):
        h = s.hist
        key = (s.cls.name, s.solver)
        facts = {k: v for k, v in h.items() if k != "node"}
        kind = h.get("kind")
        if kind == "updates":
            ctx.ok(rid, s.f, s.f.node, "feeds the DDEHistory (its correctness is C10)", facts, label="history fed or refused", nontrivial=False)
        elif kind == "raises":
            rs = stmt_of_any(h["node"])
            cfg = ctx.cfg(s.f)
            guard = [a for a in ancestors(rs) if isinstance(a, ast.If)]
            first = s.loop if s.loop is not None else None
            if guard and first is not None and not cfg.dominates(guard[-1], first):
                ctx.violation(rid, s.f, rs, "the refusal of a DDEHistory does not precede the integration loop", facts, label="history fed or refused")
            else:
                ctx.ok(rid, s.f, rs, "refuses a DDEHistory argument before integrating", facts, label="history fed or refused")
        elif key in HISTORY_EXCEPTIONS:
            ctx.info(rid, s.f, s.f.node, f"neither updates nor refuses; frozen exception: {HISTORY_EXCEPTIONS[key]}")
        else:
            ctx.violation(rid, s.f, s.f.node, f"{s.f.qualname} neither feeds the DDEHistory after each step nor raises when handed one: a delayed "
                                              f"model is integrated against the constant initial history and returns numbers instead of failing",
                          facts, label="history fed or refused")


# ------------------------------------------------------------------------------------------------
# R8 — every key of a supplied value dict is examined against the declared variables
# ------------------------------------------------------------------------------------------------
_KEY_VIEWS = ("items", "keys")


def _iter_base(e: ast.AST):
    """(collection expression, yields (key, value) pairs?) of a loop iterable: `d`, `d.keys()`, `d.items()`, possibly wrapped in
    list()/sorted()/tuple()/set()."""
    while isinstance(e, ast.Call) and isinstance(e.func, ast.Name) and e.func.id in ("list", "sorted", "tuple", "set", "iter") and len(e.args) == 1:
        e = e.args[0]
    if isinstance(e, ast.Call) and isinstance(e.func, ast.Attribute) and e.func.attr in _KEY_VIEWS and not e.args:
        return e.func.value, e.func.attr == "items"
    return e, False


def _value_dict_roles(ctx, f):
    """Role predicates for a method that writes supplied values into the declared variables of an operator graph:
    is_declared(e): `e` is the variable table of an operator of this graph (`self.<nodes|operators|...>[op]["variables"]`, possibly
    through single-definition locals); is_supplied(e): `e` is (an entry of) a dict parameter of the method."""
    params = {p for p in f.params if p != f.self_name}
    rd = ctx.rd(f)

    def root_name(e):
        while isinstance(e, (ast.Subscript, ast.Attribute, ast.Call)):
            e = e.value if not isinstance(e, ast.Call) else e.func
        return e.id if isinstance(e, ast.Name) else None

    def is_declared(e, depth=0):
        if isinstance(e, ast.Name) and depth < 4 and getattr(e, "_parent", None) is not None and isinstance(e.ctx, ast.Load):
            v = single_def_value(ctx, f, e)
            return v is not None and is_declared(v, depth + 1)
        return isinstance(e, ast.Subscript) and isinstance(e.slice, ast.Constant) and e.slice.value == "variables" \
            and f.self_name is not None and root_name(e.value) == f.self_name

    def is_supplied(e, depth=0):
        if isinstance(e, ast.Name):
            if e.id in params and not _stores(f, e.id):
                return True
            if depth >= 4 or getattr(e, "_parent", None) is None or not isinstance(e.ctx, ast.Load):
                return False
            defs = rd.defs_reaching(e)
            if not defs:
                return False
            for d in defs:
                if isinstance(d, (ast.For, ast.AsyncFor)):
                    base, pairs = _iter_base(d.iter)
                    t = d.target
                    if pairs and isinstance(t, (ast.Tuple, ast.List)) and len(t.elts) == 2 and isinstance(t.elts[1], ast.Name) \
                            and t.elts[1].id == e.id and is_supplied(base, depth + 1):
                        continue
                    return False
                from engine.dataflow import assigned_value
                v = assigned_value(d, e.id) if isinstance(d, ast.AST) else None
                if v is None or not is_supplied(v, depth + 1):
                    return False
            return True
        if isinstance(e, ast.Subscript):
            return is_supplied(e.value, depth + 1)
        if isinstance(e, ast.Call) and isinstance(e.func, ast.Attribute) and e.func.attr in ("get", "pop") and e.args:
            return is_supplied(e.func.value, depth + 1)
        return False
    return is_declared, is_supplied


def _keys_base(e: ast.AST) -> ast.AST:
    """`d` for `set(d)`, `d.keys()`, `set(d.keys())`, `frozenset(d)`, `list(d)`."""
    while True:
        if isinstance(e, ast.Call) and isinstance(e.func, ast.Name) and e.func.id in ("set", "frozenset", "list", "tuple", "sorted") and len(e.args) == 1:
            e = e.args[0]
        elif isinstance(e, ast.Call) and isinstance(e.func, ast.Attribute) and e.func.attr == "keys" and not e.args:
            e = e.func.value
        else:
            return e


def _difference_reported(ctx, f, cfg, is_supplied, is_declared) -> Optional[ast.AST]:
    """A statement that reports (raise / warn on every continuation) the supplied keys that are not declared variables:
    `if set(S) - set(D): raise`, `for k in S.keys() - D.keys(): raise`, `if not set(S) <= set(D): raise`,
    `if [k for k in S if k not in D]: raise`; the difference may be bound to a local first."""
    def is_diff(e, depth=0):
        if isinstance(e, ast.Name) and depth < 3 and getattr(e, "_parent", None) is not None and isinstance(e.ctx, ast.Load):
            v = single_def_value(ctx, f, e)
            return v is not None and is_diff(v, depth + 1)
        if isinstance(e, ast.Call) and isinstance(e.func, ast.Name) and e.func.id in ("sorted", "list", "tuple", "set", "len") and len(e.args) == 1:
            return is_diff(e.args[0], depth)
        if isinstance(e, ast.BinOp) and isinstance(e.op, ast.Sub):
            return is_supplied(_keys_base(e.left)) and is_declared(_keys_base(e.right))
        if isinstance(e, ast.Call) and isinstance(e.func, ast.Attribute) and e.func.attr == "difference" and len(e.args) == 1:
            return is_supplied(_keys_base(e.func.value)) and is_declared(_keys_base(e.args[0]))
        if isinstance(e, (ast.ListComp, ast.SetComp, ast.GeneratorExp)) and len(e.generators) == 1 and isinstance(e.generators[0].target, ast.Name):
            g = e.generators[0]
            k = g.target.id
            return is_supplied(_iter_base(g.iter)[0]) and len(g.ifs) == 1 and isinstance(g.ifs[0], ast.Compare) and len(g.ifs[0].ops) == 1 \
                and isinstance(g.ifs[0].ops[0], ast.NotIn) and isinstance(g.ifs[0].left, ast.Name) and g.ifs[0].left.id == k \
                and is_declared(_keys_base(g.ifs[0].comparators[0]))
        return False

    def is_subset(e):
        if isinstance(e, ast.Compare) and len(e.ops) == 1 and isinstance(e.ops[0], (ast.LtE, ast.Lt)):
            return is_supplied(_keys_base(e.left)) and is_declared(_keys_base(e.comparators[0]))
        if isinstance(e, ast.Call) and isinstance(e.func, ast.Attribute) and e.func.attr == "issubset" and len(e.args) == 1:
            return is_supplied(_keys_base(e.func.value)) and is_declared(_keys_base(e.args[0]))
        return False

    def reports_all(starts, loop=None):
        def rep(x):
            return isinstance(x, ast.Raise) or (isinstance(x, ast.stmt) and _is_warn(ctx, f, x))
        return find_path(cfg, starts, lambda x: x is cfg.EXIT or (loop is not None and x is loop), avoid=rep, edge_ok=_raise_edge_ok(ctx, f)) is None
    for st in cfg.stmts():
        if isinstance(st, ast.If):
            e, neg = _strip_not(st.test)
            if isinstance(e, ast.Compare) and len(e.ops) == 1 and isinstance(e.ops[0], (ast.Gt, ast.NotEq)) \
                    and isinstance(e.comparators[0], ast.Constant) and e.comparators[0].value == 0:
                e = e.left                                   # len(diff) > 0
            if (is_diff(e) and not neg and reports_all(succ(cfg, st, "true"))) \
                    or (is_subset(e) and reports_all(succ(cfg, st, "true" if neg else "false"))):
                return st
        elif isinstance(st, (ast.For, ast.AsyncFor)) and is_diff(st.iter) and reports_all(succ(cfg, st, "iter"), loop=st):
            return st
    return None


class _KeyFlow:
    """Does a dict handed on by a function still contain every key of the dict it received?  `origin(name, defnode)` says which
    definition is the received dict.  classify() -> 'keeps' | 'fresh' (unrelated to the received dict) | ('drops', why, node);
    anything that involves the received dict in a form that is not understood raises AnalysisError."""

    def __init__(self, ctx, rid, fv, origin):
        self.ctx, self.rid, self.f, self.origin = ctx, rid, fv, origin
        self.rd = ctx.rd(fv)
        self.cfg = ctx.cfg(fv)
        self._busy = set()

    def name_at(self, name: str, st):
        """combined verdict over every definition of `name` reaching statement `st`"""
        key = (name, id(st))
        if key in self._busy:
            return "keeps"          # loop-carried self reference: decided by the other definitions
        self._busy.add(key)
        try:
            from engine.dataflow import assigned_value
            verdicts = []
            for d in self.rd.defs_reaching_at(st, name):
                if self.origin(name, d):
                    verdicts.append("keeps")
                elif isinstance(d, (ast.Assign, ast.AnnAssign)) and assigned_value(d, name) is not None:
                    v = self.classify(assigned_value(d, name), d)
                    if v == "fresh" and not self._guarded_by_absence(d):
                        v = "unrelated"
                    verdicts.append(v)
                elif isinstance(d, ast.arguments):
                    verdicts.append("unrelated")
                else:
                    verdicts.append("opaque")
            return self._combine(verdicts)
        finally:
            self._busy.discard(key)

    @staticmethod
    def _combine(vs):
        for v in vs:
            if isinstance(v, tuple):
                return v
        if "keeps" in vs:
            return "keeps" if all(v in ("keeps", "fresh") for v in vs) else "mixed"
        if vs and all(v == "fresh" for v in vs):
            return "fresh"
        return "unrelated" if vs and all(v in ("unrelated", "fresh") for v in vs) else ("opaque" if vs else "unrelated")

    def is_src(self, e, st) -> bool:
        return isinstance(e, ast.Name) and isinstance(e.ctx, ast.Load) and self.name_at(e.id, st) == "keeps"

    def mentions_src(self, e, st) -> bool:
        return any(isinstance(x, ast.Name) and isinstance(x.ctx, ast.Load) and self.name_at(x.id, st) in ("keeps", "mixed") for x in ast.walk(e))

    def _guarded_by_absence(self, d) -> bool:
        """`x = {}` only replaces a dict that was not supplied: `if x is None:` / `if not x:`"""
        for a in ancestors(d):
            if isinstance(a, ast.If) and any(contains(b, d) or b is d for b in a.body):
                e, neg = _strip_not(a.test)
                if neg and self.is_src(e, a):
                    return True
                if isinstance(e, ast.Compare) and len(e.ops) == 1 and isinstance(e.ops[0], (ast.Is, ast.Eq)) and not neg \
                        and isinstance(e.comparators[0], ast.Constant) and e.comparators[0].value is None and self.is_src(e.left, a):
                    return True
        return False

    def classify(self, v, st):
        src = lambda e: self.is_src(e, st)
        if isinstance(v, ast.Name):
            r = self.name_at(v.id, st)
            if r in ("keeps", "fresh") or isinstance(r, tuple):
                return r
            return "fresh" if r in ("unrelated", "opaque") else self._unknown(v, st)
        if (isinstance(v, ast.Dict) and not v.keys) or (isinstance(v, ast.Call) and isinstance(v.func, ast.Name) and v.func.id == "dict"
                                                       and not v.args and not v.keywords):
            return "fresh"
        if isinstance(v, ast.BoolOp) and isinstance(v.op, ast.Or):
            parts = [self.classify(x, st) for x in v.values]
            return self._combine_expr(parts, v, st)
        if isinstance(v, ast.IfExp):
            return self._combine_expr([self.classify(v.body, st), self.classify(v.orelse, st)], v, st)
        if isinstance(v, ast.Call):
            fn = v.func
            nm = fn.id if isinstance(fn, ast.Name) else (fn.attr if isinstance(fn, ast.Attribute) else None)
            if nm in ("dict", "copy", "deepcopy", "OrderedDict") and len(v.args) == 1 and src(v.args[0]) and all(k.arg is not None for k in v.keywords):
                return "keeps"
            if nm == "dict" and any(k.arg is None and src(k.value) for k in v.keywords):
                return "keeps"
            if nm == "copy" and isinstance(fn, ast.Attribute) and not v.args and src(fn.value):
                return "keeps"
        if isinstance(v, ast.Dict) and any(k is None and src(x) for k, x in zip(v.keys, v.values)):
            return "keeps"
        if isinstance(v, ast.BinOp) and isinstance(v.op, ast.BitOr) and (src(v.left) or src(v.right)):
            return "keeps"
        if isinstance(v, ast.DictComp) and len(v.generators) == 1:
            g = v.generators[0]
            base, pairs = _iter_base(g.iter)
            if src(base):
                k = g.target.elts[0] if pairs and isinstance(g.target, (ast.Tuple, ast.List)) and g.target.elts else g.target
                if not (isinstance(k, ast.Name) and isinstance(v.key, ast.Name) and v.key.id == k.id):
                    return self._unknown(v, st)
                if not g.ifs:
                    return "keeps"
                if all(isinstance(c, ast.Compare) and len(c.ops) == 1 and isinstance(c.ops[0], (ast.In, ast.NotIn)) for c in g.ifs):
                    return ("drops", f"the comprehension keeps only the supplied keys that pass `{ast.unparse(g.ifs[0])}`", v)
                return self._unknown(v, st)
            if isinstance(base, ast.BinOp) and isinstance(base.op, ast.BitAnd) and self.mentions_src(base, st):
                return ("drops", f"the comprehension runs over the intersection `{ast.unparse(base)}`", v)
            if self.mentions_src(v, st):
                return ("drops", f"the dict is rebuilt from the keys of `{ast.unparse(base)}` and only looks the supplied entries up "
                                 f"(`{norm(v.value, 50)}`)", v)
            return "fresh"
        if not self.mentions_src(v, st):
            return "fresh"
        return self._unknown(v, st)

    def _combine_expr(self, parts, v, st):
        for p_ in parts:
            if isinstance(p_, tuple):
                return p_
        if "keeps" in parts and all(p_ in ("keeps", "fresh") for p_ in parts):
            return "keeps"
        if all(p_ == "fresh" for p_ in parts):
            return "fresh"
        return self._unknown(v, st)

    def _unknown(self, v, st):
        raise AnalysisError(f"{self.rid}: {self.f.qual}: the supplied value dict is passed on through `{norm(v, 80)}`, a form that is not "
                            f"recognised; cannot decide whether every supplied key survives")

    def removals(self):
        """[(statement, key expression)] that delete entries from the received dict"""
        out = []
        for st in self.cfg.stmts():
            if isinstance(st, ast.Delete):
                for t in st.targets:
                    if isinstance(t, ast.Subscript) and self.is_src(t.value, st):
                        out.append((st, t.slice))
            elif not isinstance(st, (ast.If, ast.For, ast.While, ast.Try, ast.With)):
                for c in _calls_of_stmt(st):
                    if isinstance(c.func, ast.Attribute) and c.func.attr in ("pop", "popitem", "clear") and self.is_src(c.func.value, st):
                        out.append((st, c.args[0] if c.args else None))
        return out


def _r8_keys_survive(ctx, rid, f0, fv, flow: "_KeyFlow", sinks, what: str, label: str):
    """One obligation: every expression in `sinks` = [(expr, stmt)] hands on a dict that keeps every supplied key, and no entry is
    deleted from it on the way."""
    for st, kexpr in flow.removals():
        guard = None
        for a in ancestors(st):
            if isinstance(a, ast.If):
                e, neg = _strip_not(a.test)
                if isinstance(e, ast.Compare) and len(e.ops) == 1 and isinstance(e.ops[0], (ast.In, ast.NotIn)) and isinstance(kexpr, ast.Name) \
                        and isinstance(e.left, ast.Name) and e.left.id == kexpr.id:
                    guard = a
                    break
        reported = guard is not None and any(isinstance(x, ast.Raise) or (isinstance(x, ast.stmt) and _is_warn(ctx, fv, x))
                                             for b in guard.body + guard.orelse for x in ast.walk(b))
        if reported:
            continue            # the removed entry is reported in the same branch
        if guard is not None:
            ctx.violation(rid, f0, st, f"{what}: `{norm(st, 60)}` removes a supplied entry under the test `{ast.unparse(guard.test)}` without a raise or "
                                       f"warning: a value addressed to a variable that does not exist is dropped before the consumer that would "
                                       f"report it (KeyError in the node IR) sees it", label=label)
            return
        raise AnalysisError(f"{rid}: {fv.qual}: `{norm(st, 80)}` removes entries from the supplied value dict (unrecognised form)")
    verdicts = []
    for e, st in sinks:
        verdicts.append(flow.classify(e, st))
    bad = [v for v in verdicts if isinstance(v, tuple)]
    if bad:
        _, why, node = bad[0]
        ctx.violation(rid, f0, stmt_of_any(node) if getattr(node, "_parent", None) is not None else f0.node,
                      f"{what}: {why}; supplied keys that are not declared names disappear here without a raise or warning, so a node-level "
                      f"value addressed to a variable that does not exist never reaches the consumer that reports it (KeyError in "
                      f"VectorizedOperatorGraph) and is dropped silently", {"expression": norm(node, 120)}, label=label)
    elif verdicts and all(v == "keeps" for v in verdicts):
        ctx.ok(rid, f0, f0.node, f"{what}: every supplied key is handed on (entries are only added)", label=label)
    else:
        raise AnalysisError(f"{rid}: {fv.qual}: {what}: the dict handed on is not recognisably the supplied one ({verdicts})")


def _r8_upstream(ctx, rid):
    """The value dict on its way from the caller to the key-examining consumers: OperatorTemplate.apply hands its `values` back,
    OperatorGraphTemplate.apply stores what it got back under the operator key and passes the collection to the IR constructor."""
    from engine.inline import inlined
    from engine.dataflow import assigned_value
    # ---- OperatorTemplate.apply: parameter -> returned tuple
    f0, fv = _operator_apply_view(ctx)
    cfg = ctx.cfg(fv)
    rets = [st for st in cfg.stmts() if isinstance(st, ast.Return) and st.value is not None]
    ctx.require(rets, f"{rid}: {f0.qual} returns nothing")
    params = [p for p in fv.params if p != fv.self_name]
    position = None
    for P in params:
        flow = _KeyFlow(ctx, rid, fv, lambda name, d, P=P: name == P and isinstance(d, ast.arguments))
        pos_sets = []
        for r in rets:
            elts = r.value.elts if isinstance(r.value, ast.Tuple) else [r.value]
            # conditional expression selecting between two tuples
            if isinstance(r.value, ast.IfExp) and isinstance(r.value.body, ast.Tuple) and isinstance(r.value.orelse, ast.Tuple):
                elts = None
                cands = [r.value.body.elts, r.value.orelse.elts]
            else:
                cands = [elts]
            for el in cands:
                pos_sets.append({i for i, e in enumerate(el) if isinstance(e, ast.Name)
                                 and (e.id == P or flow.name_at(e.id, r) in ("keeps", "mixed") or isinstance(flow.name_at(e.id, r), tuple))})
        common = set.intersection(*pos_sets) if pos_sets else set()
        if len(common) == 1 and _default_is_none_or_dict(fv, P):
            position = common.pop()
            sinks = []
            for r in rets:
                tuples = [r.value.body, r.value.orelse] if isinstance(r.value, ast.IfExp) else [r.value]
                for t in tuples:
                    el = t.elts if isinstance(t, ast.Tuple) else [t]
                    sinks.append((el[position], r))
            _r8_keys_survive(ctx, rid, f0, fv, flow, sinks, f"{f0.qualname} hands the supplied `{P}` back to its caller",
                             "supplied value keys survive to the returned dict")
            break
    if position is None:
        raise AnalysisError(f"{rid}: {f0.qual}: no dict parameter is recognisably handed back in the returned tuple")
    # ---- OperatorGraphTemplate.apply: what came back is stored and passed to the IR
    g0 = ctx.repo.get_func(OPGRAPH_T, "OperatorGraphTemplate.apply")
    gv = inlined(ctx, g0)
    if not getattr(gv, "inlined_helpers", None):
        gv = g0
    gcfg = ctx.cfg(gv)
    label2 = "returned value keys survive to the IR constructor"
    what2 = f"{g0.qualname} passes the values returned by {f0.qualname} on to the IR constructor"
    tcall = _target_ir_call(ctx, rid, gv)
    coll = _arg(tcall, 99, "values")
    if not isinstance(coll, ast.Name):
        raise AnalysisError(f"{rid}: {gv.qual}: target_ir is not handed a local `values=` collection")
    calls = _calls_to(ctx, gv, f0)
    ctx.require(calls, f"{rid}: {g0.qual} no longer calls {f0.qualname} (anchor vanished)")
    unpack, gathered = [], set()
    for c in calls:
        st = stmt_of(gcfg, c)
        if isinstance(st, ast.Assign) and st.value is c and len(st.targets) == 1 and isinstance(st.targets[0], (ast.Tuple, ast.List)) \
                and len(st.targets[0].elts) > position and isinstance(st.targets[0].elts[position], ast.Name):
            unpack.append((st, st.targets[0].elts[position].id))
        elif isinstance(st, ast.Expr) and isinstance(st.value, ast.Call) and call_name(st.value) == "append" and st.value.args \
                and st.value.args[0] is c and isinstance(st.value.func.value, ast.Name):
            gathered.add(st.value.func.value.id)          # the result tuples are collected in a list first
        else:
            raise AnalysisError(f"{rid}: {gv.qual}: the result of {f0.qualname} is neither unpacked into locals nor collected in a list "
                                f"(`{norm(st, 80)}`)")
    if gathered and not unpack:
        # collection built afterwards: {key: op_values for _, op_values, key in results}
        v = single_def_value(ctx, gv, coll)
        ok_form = False
        if len(gathered) == 1 and isinstance(v, ast.DictComp) and len(v.generators) == 1 and not v.generators[0].ifs:
            g = v.generators[0]
            L = next(iter(gathered))
            others = [x for x in walk_shallow(gv.node) if isinstance(x, ast.Name) and x.id == L and isinstance(x.ctx, ast.Load)
                      and not (isinstance(parent(x), ast.Attribute) and parent(x).attr == "append") and not contains(g.iter, x) and x is not g.iter]
            comps_only = all(any(isinstance(a, (ast.DictComp, ast.ListComp, ast.SetComp, ast.GeneratorExp)) for a in ancestors(x)) for x in others)
            if isinstance(g.iter, ast.Name) and g.iter.id == L and isinstance(g.target, (ast.Tuple, ast.List)) and len(g.target.elts) > position \
                    and isinstance(g.target.elts[position], ast.Name) and isinstance(v.value, ast.Name) \
                    and v.value.id == g.target.elts[position].id and len(_stores(gv, L)) == 1 and comps_only:
                ok_form = True
        if ok_form:
            ctx.ok(rid, g0, g0.node, f"{what2}: every returned dict is handed on unchanged", label=label2)
            return
        if isinstance(v, ast.DictComp) and isinstance(v.value, ast.DictComp):
            ctx.violation(rid, g0, stmt_of_any(v), f"{what2}: the returned dicts are rebuilt entry by entry (`{norm(v.value, 80)}`); supplied keys can "
                                                   f"disappear here without a raise or warning", label=label2)
            return
        raise AnalysisError(f"{rid}: {gv.qual}: `{coll.id}` is built from the collected results in a form that is not recognised")
    if gathered:
        raise AnalysisError(f"{rid}: {gv.qual}: the results of {f0.qualname} are handled in two different ways (unrecognised form)")
    stores = [st for st in gcfg.stmts() if isinstance(st, ast.Assign) and len(st.targets) == 1 and isinstance(st.targets[0], ast.Subscript)
              and isinstance(st.targets[0].value, ast.Name) and st.targets[0].value.id == coll.id]
    if not stores:
        raise AnalysisError(f"{rid}: {gv.qual}: `{coll.id}` is not filled by item assignment (unrecognised form)")
    names = {nm for _, nm in unpack}
    sts = {id(st) for st, _ in unpack}
    flow = _KeyFlow(ctx, rid, gv, lambda name, d: name in names and id(d) in sts)
    _r8_keys_survive(ctx, rid, g0, gv, flow, [(st.value, st) for st in stores], what2, label2)


def _default_is_none_or_dict(f, pname: str) -> bool:
    d = _param_default(f, pname)
    return d is None or (isinstance(d, ast.Constant) and d.value is None) or isinstance(d, ast.Dict)


def r8_supplied_keys_examined(ctx, rid):
    n = 0
    from engine.inline import inlined
    for f0 in sorted(ctx.repo.all_functions(), key=lambda x: x.qual):
        if f0.module.rel != OPGRAPH_IR or f0.cls is None or f0.self_name is None:
            continue
        # decide on the view with the private helpers spliced in (the pairing loop may have been extracted); report against f0
        f = inlined(ctx, f0)
        if not getattr(f, "inlined_helpers", None):
            f = f0
        is_declared, is_supplied = _value_dict_roles(ctx, f)
        cfg = ctx.cfg(f)
        examined, declared_side, silent_skip, other = [], [], [], []
        for L in [x for x in walk_shallow(f.node) if isinstance(x, (ast.For, ast.AsyncFor))]:
            base, pairs = _iter_base(L.iter)
            t = L.target
            if pairs:
                k = t.elts[0].id if isinstance(t, (ast.Tuple, ast.List)) and len(t.elts) == 2 and isinstance(t.elts[0], ast.Name) else None
            else:
                k = t.id if isinstance(t, ast.Name) else None
            side = "supplied" if is_supplied(base) else ("declared" if is_declared(base) else None)
            if side is None:
                continue
            other_is = is_declared if side == "supplied" else is_supplied
            body_nodes = [x for b in L.body for x in ast.walk(b)]
            if not any(other_is(x) for x in body_nodes if isinstance(x, (ast.Name, ast.Subscript))):
                continue          # the loop does not pair the two sides
            if k is None or any(isinstance(x, ast.Name) and x.id == k and isinstance(x.ctx, ast.Store) for x in body_nodes):
                other.append((L, k, None))      # the key cannot be followed; decides nothing by itself
                continue

            def keyed(x, pred):
                """`x` looks the loop key up in the collection described by `pred`: (kind, node) or None"""
                if isinstance(x, ast.Subscript) and isinstance(x.slice, ast.Name) and x.slice.id == k and pred(x.value):
                    return "index"
                if isinstance(x, ast.Call) and isinstance(x.func, ast.Attribute) and x.func.attr in ("get", "pop", "setdefault") and x.args \
                        and isinstance(x.args[0], ast.Name) and x.args[0].id == k and pred(x.func.value):
                    return "get" if (x.func.attr != "pop" or len(x.args) > 1) else "index"
                if isinstance(x, ast.Compare) and len(x.ops) == 1 and isinstance(x.ops[0], (ast.In, ast.NotIn)) \
                        and isinstance(x.left, ast.Name) and x.left.id == k and pred(_iter_base(x.comparators[0])[0]):
                    return "in"
                return None
            if side == "declared":
                hits = [x for x in body_nodes if keyed(x, is_supplied)]
                (declared_side if hits else other).append((L, k, hits))
                continue
            # the loop runs over the supplied keys: the declared table must be indexed with every one of them
            def checks(st):
                return isinstance(st, ast.Raise) or (isinstance(st, ast.stmt) and _is_warn(ctx, f, st)) \
                    or (isinstance(st, ast.stmt) and any(keyed(x, is_declared) == "index" for x in header_nodes(st)))
            w = find_path(cfg, succ(cfg, L, "iter"), lambda x: x is L or x is cfg.EXIT, avoid=checks, edge_ok=_raise_edge_ok(ctx, f))
            if w is None:
                examined.append((L, k))
            elif any(isinstance(x, ast.stmt) and any(keyed(y, is_declared) in ("in", "get") for y in header_nodes(x)) for x in w):
                silent_skip.append((L, k, w))
            else:
                other.append((L, k, w))
        if not (examined or declared_side or silent_skip or other):
            continue
        n += 1
        label = "supplied value keys examined against the declared variables"
        diff = _difference_reported(ctx, f, cfg, is_supplied, is_declared) if not examined else None
        if diff is not None:
            ctx.ok(rid, f0, diff, "supplied keys that are not declared variables are reported by an explicit difference / subset test",
                   {"test": norm(diff, 100)}, label=label)
        elif silent_skip and not examined:
            L, k, w = silent_skip[0]
            ctx.violation(rid, f0, L, f"{f.qualname} tests / fetches the supplied key `{k}` in the declared variables without raising or warning when it "
                                     f"is absent ({cfg.path_str([L] + w)}): a value addressed to a variable that does not exist is skipped silently",
                          {"witness": cfg.path_str([L] + w)}, label=label)
        elif declared_side and not examined:
            L, k, hits = declared_side[0]
            ctx.violation(rid, f0, L, f"{f.qualname} iterates over the DECLARED variables (`{norm(L.iter, 60)}`) and looks each one up in the supplied value "
                                     f"dict (`{norm(hits[0], 60)}`): keys of the supplied dict that are not declared variables are never examined, so a "
                                     f"node-level value / parameter update addressed to a variable that does not exist is dropped without an "
                                     f"exception or warning (only iterating the supplied keys and indexing the declared table reports it)",
                          {"loop": norm(L, 100)}, label=label)
        elif examined:
            L, k = examined[0]
            ctx.ok(rid, f0, L, f"every supplied key `{k}` indexes the declared variable table (KeyError for an unknown variable) on every path of the "
                              f"iteration", {"loop": norm(L, 100)}, label=label)
        else:
            L = other[0][0]
            raise AnalysisError(f"{rid}: {f.qual}: `{norm(L, 80)}` pairs supplied values with declared variables in a form that is not recognised; "
                                f"cannot decide whether unknown keys are reported")
    _r8_upstream(ctx, rid)
    ctx.require(n >= 1, f"{rid}: no method pairing a supplied value dict with the declared variables found in {OPGRAPH_IR} (anchor vanished)")


RULES = [
    ("C20-R1", r1_solver_validation, 20),
    ("C20-R2", r2_capability_flags, 8),
    ("C20-R3", r3_backend_args, 4),
    ("C20-R4", r4_empty_selection_reported, 5),
    ("C20-R5", r5_raised_not_built, 8),
    ("C20-R6", r6_remaining_guards, 7),
    ("C20-R7", r7_history_fed_or_refused, 3),
    ("C20-R8", r8_supplied_keys_examined, 4),
]
