"""C09 — discrete edge delays shift the source by round(delay/dt) steps (DESIGN §4 C09)."""
from __future__ import annotations

import ast
from dataclasses import dataclass, field
from typing import Dict, List, Optional

import sympy as sp

from engine import AnalysisError, symx
from engine.srcmodel import walk_shallow, norm, parent, const_str
from engine.util import call_name, is_attr_of, contains, fstring_template
from engine.dataflow import assigned_value
from . import _delay_util as U

PROPERTY = "C09"
REL = U.REL
FORTRAN = "pyrates/backend/fortran/fortran_backend.py"

EXPLANATION = (
    "Trajectory equality with the delayed recurrence is not decidable statically.  Decided, on the ring-buffer construction of "
    "NetworkGraph (pyrates/ir/circuit.py), whose siblings are found by enumerating every equation list that a method adds to an "
    "operator's `equations` and that contains a `roll(...)` template (today: _add_edge_buffer scalar form, _add_edge_buffer matrix "
    "form, _add_matrix_delay ring branch): R1 each sibling emits exactly roll -> write -> read in that order; the roll moves the whole "
    "buffer by +1 along the delay axis (the axis the write and the read select on; an axis-less roll only on a 1-D buffer), the write "
    "stores the source variable (the parameter whose node variable the buffer is shaped after) into slot 0 of the same buffer, the read "
    "assigns the variable that `op_info['output']` and the edges' `source_var` are re-pointed to, selecting slots of the same buffer by "
    "the discretised delays (provenance: the `delays` parameter, directly or through a constant registered with value `delays`, or "
    "`_preprocess_delay(delay, discretize=True)`); the write slot is the same constant in all siblings; FortranBackend.expr_to_str "
    "negates the shift where `roll` is emitted as `cshift` (opposite direction).  R2 the extent of the delay axis in the buffer's "
    "declared shape normalises (sympy) to M + c, c >= 1, with M the maximum of the very delays that index the read.  R3 the only "
    "conversion time -> steps, _preprocess_delay, is int(<rounding call>(delay / self.step_size)); every call site hands the caller's "
    "own `discretize` flag (or the constant True) on.  R4 every literal that _collect_delays_from_edges (or a helper extracted from its per-edge loop) substitutes for a missing/zero "
    "delay (whole edge - on the arm taken when the delay is None, however the test is spelt -, or None entry of a delay list; the "
    "construct is named by this role and the literal, not by statement text) equals the slot into which the ring buffers of _add_edge_buffer (the consumer of the "
    "collected delays) write the current value.  R5 delays, spreads and source indices are accumulated once "
    "per edge in the order of `edges` (directly, or as one tuple per edge that is unzipped front to back after the loop); every _add_edge_buffer call receives edges/delays/nodes of the same _collect_delays_from_edges "
    "result at the same granularity; the re-pointing loop walks `edges` in order and advances the slot range by len(nodes[i]).  "
    "R7 the conversion depends on self.step_size and the caller's flag: a step count may be remembered across calls only under a "
    "key that contains them (class/module-level containers outlive the network and need the step size in the key; shared lint "
    "persistent_memo_key on the conversion functions only).  "
    "R8 where entries of the buffered vector are identified by an integer pair code a*stride+b (to let equal (delay, source element) "
    "pairs share a slot), the stride exceeds every b: max(b)+c with c >= 1 or the declared extent of the indexed variable; a count of "
    "(distinct) entries of b is a violation.  "
    "NOT decided: zero pre-history values, equality with the recurrence, what the backends do with index/index_2d/index_axis (C02), the "
    "DDE `past(...)` branch (C10), the Julia/Matlab spelling of roll with an axis argument (circshift; not executable here)."
)
RULE_TEXT = ("instances = ring-buffer siblings (equation lists containing a roll template) x protocol obligations, conversion call "
             "sites, default-delay literals, _add_edge_buffer call sites; non-trivial = template algebra, provenance through reaching "
             "definitions, or an ordering/positional argument")
ASSUMPTIONS = [
    "roll(x, 1[, axis]) is numpy.roll: element k moves to k+1; index(x, i) = x[i]; index_axis(x, i, 1) = x[:, i]; "
    "index_2d(x, r, c) = x[r, c]; index_axis(x) = x[:] (in-place target).  These registry bindings are C02's subject.",
    "Fortran's cshift(x, s) shifts towards lower indices for positive s (language semantics), i.e. cshift(x, -s) = roll(x, s).",
]

IDX_FUNCS = {"index", "index_1d", "index_2d", "index_axis"}


# ---------------------------------------------------------------------------------------------
# ring-buffer siblings
# ---------------------------------------------------------------------------------------------

@dataclass
class Sel:
    """A decoded selection `index*(buf, ...)`."""
    buf: Optional[str]
    slot: Optional[ast.AST]      # index along the delay axis (None: whole buffer)
    axis: Optional[int]
    rows: Optional[ast.AST] = None


@dataclass
class Ring:
    f: object
    group: ast.List
    stmt: ast.stmt
    ems: list
    kinds: List[Optional[str]]
    label: str = ""
    roll: object = None
    write: object = None
    read: object = None
    chain: list = field(default_factory=list)


def _decode(eq: U.Eq, call: ast.Call, where: str) -> Sel:
    cn = call_name(call)
    a = call.args
    if call.keywords or not a:
        raise AnalysisError(f"{where}: unrecognised selection `{eq.show(call)}`")
    buf = eq.name(a[0])
    if cn in ("index", "index_1d") and len(a) == 2:
        return Sel(buf, a[1], 0)
    if cn == "index_2d" and len(a) == 3:
        return Sel(buf, a[2], 1, a[1])
    if cn == "index_axis":
        if len(a) == 1:
            return Sel(buf, None, None)
        if len(a) == 2:
            return Sel(buf, a[1], 0)
        if len(a) == 3:
            ax = eq.const_int(a[2])
            if ax is None:
                raise AnalysisError(f"{where}: axis of `{eq.show(call)}` is not an integer literal")
            return Sel(buf, a[1], ax)
    raise AnalysisError(f"{where}: unrecognised selection `{eq.show(call)}`")


def _kind(eq: U.Eq) -> Optional[str]:
    L, R = eq.lhs, eq.rhs
    if isinstance(R, ast.Call) and call_name(R) == "roll":
        return "roll"
    r_is_sel = isinstance(R, ast.Call) and call_name(R) in IDX_FUNCS
    if isinstance(L, ast.Call) and call_name(L) in IDX_FUNCS and not r_is_sel:
        return "write"
    if isinstance(L, ast.Name) and r_is_sel:
        return "read"
    return None


def ring_siblings(ctx) -> List[Ring]:
    cached = getattr(ctx, "_c09_rings", None)
    if cached is not None:
        return cached
    cls = U.graph_class(ctx)
    rings: List[Ring] = []
    for f in cls.methods.values():
        ems = U.emissions(ctx, f)
        groups: Dict[int, list] = {}
        for e in ems:
            has_roll = "roll(" in e.text
            if e.group is None:
                if has_roll:
                    raise AnalysisError(f"{f.qual}: a roll equation is appended outside a list literal ({norm(e.stmt)}): unrecognised "
                                        f"ring-buffer form")
                continue
            groups.setdefault(id(e.group), []).append(e)
        for es in groups.values():
            if not any(_kind(e.eq) == "roll" for e in es):
                continue
            # equations appended to the same list after the literal (e.g. a read-out that is emitted separately because it is also
            # emitted, alone, when the buffer already exists) belong to the sibling, in emission order
            chain0 = U.branch_chain(es[0].stmt)
            later = [e for e in ems if e.group is None and e.listname == es[0].listname and e.stmt.lineno > es[0].stmt.lineno
                     and U.loop_of(e.stmt) is U.loop_of(es[0].stmt) and U.compatible(ctx, f, U.branch_chain(e.stmt), chain0)
                     and _kind(e.eq) in ("read", "write", "roll") and not e.eq.ode]
            es = es + sorted(later, key=lambda e: (e.stmt.lineno, e.stmt.col_offset))
            rings.append(Ring(f=f, group=es[0].group, stmt=es[0].stmt, ems=es, kinds=[_kind(e.eq) for e in es],
                              chain=U.branch_chain(es[0].stmt)))
        stray = U.stray_equation_strings(ctx, f, [e.node for e in ems], lambda t: "roll(" in t)
        if stray:
            raise AnalysisError(f"{f.qual}: a string containing `roll(` is not part of a recognised equation list: {norm(stray[0])}")
    # labels: function + delay axis (decided from the write equation when there is one)
    seen = {}
    for r in rings:
        ax = "?"
        for e, k in zip(r.ems, r.kinds):
            if k == "write":
                try:
                    ax = _decode(e.eq, e.eq.lhs, r.f.qual).axis
                except AnalysisError:
                    pass
        lab = f"ring buffer (delay axis {ax})"
        n = seen.get((r.f.qual, lab), 0)
        seen[(r.f.qual, lab)] = n + 1
        r.label = lab if n == 0 else f"{lab} #{n + 1}"
    ctx._c09_rings = rings
    return rings


def _hole_node(em, text: str) -> Optional[ast.AST]:
    """The expression node of the hole ⟨text⟩ inside the emitting string."""
    for n in ast.walk(em.node):
        if isinstance(n, ast.FormattedValue) and ast.unparse(n.value) == text:
            return n.value
    return None


def _single_hole(t: Optional[str]) -> Optional[str]:
    if t and t.startswith("⟨") and t.endswith("⟩") and t.count("⟨") == 1:
        return t[1:-1]
    return None


def _source_param(ctx, f) -> str:
    """The parameter that names the source variable: last path component of the `self[f"{node}/{op}/{var}"]` lookup."""
    cands = set()
    for n in walk_shallow(f.node):
        if isinstance(n, ast.Subscript) and isinstance(n.value, ast.Name) and n.value.id == f.self_name \
                and isinstance(n.slice, (ast.JoinedStr, ast.Name, ast.BinOp)):
            t = fstring_template(n.slice) if isinstance(n.slice, ast.JoinedStr) else U.render_expr(ctx, f, n.slice)
            parts = t.split("/")
            h = _single_hole(parts[-1])
            if len(parts) == 3 and h in f.params:
                cands.add(h)
    if len(cands) != 1:
        raise AnalysisError(f"{f.qual}: cannot identify the source-variable parameter (lookups self[f'{{node}}/{{op}}/{{var}}'] found: {sorted(cands)})")
    return cands.pop()


def _output_wiring(ctx, f):
    """(template assigned to op_info['output'], template assigned to edge['source_var'], their statements); the assignment may sit
    in a helper that receives the value as a parameter (then the statement is the call and the template that of the argument)."""
    outs, srcs = [], []

    def stores(g):
        for n in walk_shallow(g.node):
            if isinstance(n, ast.Assign) and len(n.targets) == 1 and isinstance(n.targets[0], ast.Subscript):
                k = const_str(n.targets[0].slice)
                if k in ("output", "source_var"):
                    yield k, n

    for k, n in stores(f):
        (outs if k == "output" else srcs).append((U.render_expr(ctx, f, n.value), n))
    for call, g, binding in U.helper_calls(ctx, f):
        for k, n in stores(g):
            v = n.value
            if isinstance(v, ast.Name) and U.is_param(ctx, g, v) and v.id in binding:
                (outs if k == "output" else srcs).append((U.render_expr(ctx, f, binding[v.id]), U.stmt_of_expr(call)))
            elif k == "output":
                raise AnalysisError(f"{f.qual}: the helper {g.qualname} sets an operator's 'output' to `{ast.unparse(v)}`, which is not a value "
                                    f"handed in by the caller (unrecognised form)")
    return outs, srcs


def _delay_sources(ctx, ring: Ring, em, node: ast.AST, vdefs, depth=0) -> List[dict]:
    """Where the index that selects the delayed slot(s) comes from."""
    f = ring.f
    where = f"{f.qual} {ring.label}"
    eq = em.eq
    t = eq.name(node) if isinstance(node, ast.Name) else None
    if t is None:
        raise AnalysisError(f"{where}: the read index `{eq.show(node)}` is not a plain name or hole")
    h = _single_hole(t)
    if h is not None:
        hn = _hole_node(em, h)
        if hn is None:
            raise AnalysisError(f"{where}: cannot locate the hole ⟨{h}⟩ of the read index")
        return _resolve_delay_expr(ctx, ring, hn, vdefs, None)
    return _resolve_registered(ctx, ring, t, vdefs)


def _resolve_registered(ctx, ring, tpl: str, vdefs) -> List[dict]:
    f = ring.f
    ds = [v for v in vdefs if v.name == tpl and U.compatible(ctx, f, U.branch_chain(v.stmt), ring.chain)]
    if len(ds) != 1 or "value" not in ds[0].fields:
        raise AnalysisError(f"{f.qual} {ring.label}: the read index names `{tpl}`, which is not registered exactly once with a value")
    v = ds[0].fields["value"]
    if isinstance(v, ast.Name) and U.selection_of_param(ctx, f, v) is not None:
        return [{"kind": "list", "param": U.selection_of_param(ctx, f, v), "via": tpl}]
    if isinstance(v, ast.Name):
        return [{"kind": "local", "name": v.id, "via": tpl}]
    raise AnalysisError(f"{f.qual} {ring.label}: value of `{tpl}` has an unrecognised form: {ast.unparse(v)}")


def _resolve_delay_expr(ctx, ring, e: ast.AST, vdefs, guard) -> List[dict]:
    f = ring.f
    where = f"{f.qual} {ring.label}"
    if isinstance(e, ast.Name):
        if U.is_param(ctx, f, e):
            return [{"kind": "param", "param": e.id}]
        v = U.single_value(ctx, f, e)
        if v is None:
            raise AnalysisError(f"{where}: read index `{e.id}` has no single plain definition")
        if isinstance(v, ast.Call) and call_name(v) == "_preprocess_delay" and v.args and isinstance(v.args[0], ast.Name) \
                and U.is_param(ctx, f, v.args[0]):
            disc = [k.value for k in v.keywords if k.arg == "discretize"]
            disc_ok = not disc or (isinstance(disc[0], ast.Constant) and disc[0].value is True)
            return [{"kind": "steps", "name": e.id, "param": v.args[0].id, "discretize_true": disc_ok, "stmt": norm(U.parent(v))}]
        return _resolve_delay_expr(ctx, ring, v, vdefs, guard)
    if isinstance(e, ast.IfExp):
        return _resolve_delay_expr(ctx, ring, e.body, vdefs, (e.test, True)) + _resolve_delay_expr(ctx, ring, e.orelse, vdefs, (e.test, False))
    if isinstance(e, ast.Call) and call_name(e) in ("str", "int") and len(e.args) == 1:
        return _resolve_delay_expr(ctx, ring, e.args[0], vdefs, guard)
    if isinstance(e, ast.Subscript) and isinstance(e.value, ast.Name) and U.selection_of_param(ctx, f, e.value) is not None \
            and isinstance(e.slice, ast.Constant) and e.slice.value == 0:
        p = U.selection_of_param(ctx, f, e.value)
        # reading only the first delay is right only when there is exactly one
        ok_guard = False
        if guard is not None:
            test, arm = guard
            verdict = _len_is_one(ctx, f, test, p)
            if verdict == "unknown":
                raise AnalysisError(f"{where}: guard `{ast.unparse(test)}` of `{ast.unparse(e)}` involves len({p}) in an unrecognised form")
            ok_guard = verdict is not None and verdict == arm
        return [{"kind": "first", "param": p, "guarded_by_len_1": ok_guard}]
    t = U.render(ctx, f, e)
    if t is not None:
        return _resolve_registered(ctx, ring, t, vdefs)
    raise AnalysisError(f"{where}: read index expression `{ast.unparse(e)}` has an unrecognised form")


def _len_is_one(ctx, f, test, p: str):
    """Arm (True = body) of `test` on which len(p) == 1 holds: `len(p) == 1`, `1 == len(p)`, `len(p) != 1` (other arm), `len(p) < 2`,
    `len(p) <= 1`, `len(p) > 1`/`>= 2` (other arm), `not ...`, with the length possibly held in a local.  None: the test is not about
    len(p); 'unknown': it is, in an unrecognised way."""
    neg = False
    while isinstance(test, ast.UnaryOp) and isinstance(test.op, ast.Not):
        test, neg = test.operand, not neg

    def is_len(x, depth=0):
        if isinstance(x, ast.Call) and call_name(x) == "len" and len(x.args) == 1 and isinstance(x.args[0], ast.Name) \
                and U.selection_of_param(ctx, f, x.args[0]) == p:
            return True
        if isinstance(x, ast.Name) and depth < 3:
            v = U.single_value(ctx, f, x)
            return v is not None and is_len(v, depth + 1)
        return False

    about = any(is_len(x) for x in ast.walk(test) if isinstance(x, (ast.Call, ast.Name)))
    if not about:
        return None
    if isinstance(test, ast.Compare) and len(test.ops) == 1:
        l, op, r = test.left, test.ops[0], test.comparators[0]
        flip = {ast.Lt: ast.Gt, ast.Gt: ast.Lt, ast.LtE: ast.GtE, ast.GtE: ast.LtE}
        if is_len(r) and isinstance(l, ast.Constant):
            l, r = r, l
            op = flip.get(type(op), type(op))()
        if is_len(l) and isinstance(r, ast.Constant) and isinstance(r.value, int):
            c = r.value
            arm = None
            if isinstance(op, ast.Eq) and c == 1:
                arm = True
            elif isinstance(op, ast.NotEq) and c == 1:
                arm = False
            elif (isinstance(op, ast.Lt) and c == 2) or (isinstance(op, ast.LtE) and c == 1):
                arm = True          # the function returns early on empty `delays`
            elif (isinstance(op, ast.Gt) and c == 1) or (isinstance(op, ast.GtE) and c == 2):
                arm = False
            if arm is not None:
                return arm != neg
    return "unknown"


def _buffer_shape(ctx, ring: Ring, buf: str, vdefs) -> ast.Tuple:
    f = ring.f
    where = f"{f.qual} {ring.label}"
    ds = [v for v in vdefs if v.name == buf and U.compatible(ctx, f, U.branch_chain(v.stmt), ring.chain)]
    if len(ds) != 1 or "shape" not in ds[0].fields:
        raise AnalysisError(f"{where}: buffer `{buf}` is not declared exactly once with a shape on the sibling's branch")
    sh = ds[0].fields["shape"]
    if isinstance(sh, ast.Name):
        cands = []
        for d in ctx.rd(f).defs_reaching(sh):
            v = assigned_value(d, sh.id) if isinstance(d, ast.stmt) else None
            if v is None:
                raise AnalysisError(f"{where}: shape `{sh.id}` of `{buf}` has a definition of unrecognised form")
            if U.compatible(ctx, f, U.branch_chain(d), ring.chain):
                cands.append(v)
        if len(cands) != 1:
            raise AnalysisError(f"{where}: cannot associate one definition of `{sh.id}` with this sibling (found {len(cands)})")
        sh = cands[0]
    # `shape = A if cond else B`: the alternative that belongs to this sibling's branch (cond, or its negation, guards the sibling)
    hops = 0
    while isinstance(sh, ast.IfExp) and hops < 3:
        hops += 1
        pick = None
        for gi, arm in ring.chain:
            rel = U.test_relation(ctx, f, sh.test, gi.test)
            if rel:
                pick = (arm if rel == 1 else not arm)
                break
        if pick is None:
            raise AnalysisError(f"{where}: cannot tell which alternative of the shape `{ast.unparse(sh)}` of `{buf}` belongs to this sibling "
                                f"(its test is not one of the conditions that guard the sibling)")
        sh = sh.body if pick else sh.orelse
    if not isinstance(sh, ast.Tuple) or not sh.elts:
        raise AnalysisError(f"{where}: shape of `{buf}` is not a tuple literal: {ast.unparse(sh)}")
    return sh


def _analyse(ctx, ring: Ring):
    """Decode the three equations of a sibling whose kinds are a permutation of roll/write/read."""
    for e, k in zip(ring.ems, ring.kinds):
        if k == "roll":
            ring.roll = e
        elif k == "write":
            ring.write = e
        elif k == "read":
            ring.read = e


# ---------------------------------------------------------------------------------------------
# R1
# ---------------------------------------------------------------------------------------------

def r1_ring_protocol(ctx, rid):
    rings = ring_siblings(ctx)
    ctx.require(rings, f"{rid}: no ring-buffer sibling (equation list with a roll template) found in {U.CLS}")
    write_slots = {}
    for r in rings:
        f = r.f
        where = f"{f.qual} {r.label}"
        facts = {"equations": [e.text for e in r.ems], "kinds": r.kinds}
        if None in r.kinds:
            bad = r.ems[r.kinds.index(None)].text
            raise AnalysisError(f"{rid}: {where}: equation `{bad}` is neither roll, write nor read (unrecognised form)")
        # ---- (a) exactly one of each, in the order roll -> write -> read
        if sorted(r.kinds) != ["read", "roll", "write"]:
            others = [e for e in U.emissions(ctx, f) if e.listname == r.ems[0].listname and all(e is not x for x in r.ems)
                      and U.compatible(ctx, f, U.branch_chain(e.stmt), r.chain)]
            if others and len(r.kinds) < 3:
                raise AnalysisError(f"{rid}: {where}: the list holds only {r.kinds}; further equations are added to `{r.ems[0].listname}` elsewhere "
                                    f"({norm(others[0].stmt, 60)}): the protocol of this sibling is not recognised")
            ctx.violation(rid, f, r.stmt, f"{r.label}: the emitted list does not consist of exactly one roll, one write and one read "
                                          f"equation (found {r.kinds})", facts, label=f"{r.label}: order")
            continue
        _analyse(ctx, r)
        if r.kinds == ["roll", "write", "read"]:
            ctx.ok(rid, f, r.stmt, "equations are emitted in the order roll -> write slot 0 -> read slot d", facts, label=f"{r.label}: order")
        else:
            ctx.violation(rid, f, r.stmt, f"{r.label}: equations are emitted in the order {' -> '.join(r.kinds)} instead of roll -> write -> read: "
                                          f"the target would see the source {'one step late (read before the current value is stored)' if r.kinds.index('read') < r.kinds.index('write') else 'shifted by one slot (stored value rolled away before it is read)'}",
                          facts, label=f"{r.label}: order")
        vdefs = U.var_defs(ctx, f)
        # ---- decode
        req, weq, deq = r.roll.eq, r.write.eq, r.read.eq
        wsel = _decode(weq, weq.lhs, where)
        rsel = _decode(deq, deq.rhs, where)
        roll_call = req.rhs
        if roll_call.keywords or len(roll_call.args) not in (2, 3):
            raise AnalysisError(f"{rid}: {where}: unrecognised roll call `{req.show(roll_call)}`")
        roll_buf = req.name(roll_call.args[0])
        shift = req.const_int(roll_call.args[1])
        roll_axis = req.const_int(roll_call.args[2]) if len(roll_call.args) == 3 else None
        if shift is None or (len(roll_call.args) == 3 and roll_axis is None):
            raise AnalysisError(f"{rid}: {where}: shift/axis of `{req.show(roll_call)}` is not an integer literal")
        if isinstance(req.lhs, ast.Call) and call_name(req.lhs) in IDX_FUNCS:
            lsel = _decode(req, req.lhs, where)
            roll_target, whole = lsel.buf, lsel.slot is None
        else:
            roll_target, whole = req.name(req.lhs), isinstance(req.lhs, ast.Name)
        buf = wsel.buf
        shape = _buffer_shape(ctx, r, buf, vdefs) if buf else None
        ndim = len(shape.elts) if shape is not None else None
        # ---- (b) roll: whole buffer, +1, along the delay axis
        rf = {"roll": req.text, "shift": shift, "axis": roll_axis, "delay_axis": wsel.axis, "buffer_ndim": ndim}
        problems = []
        if not (whole and roll_target == roll_buf == buf):
            problems.append(f"the roll does not map the whole buffer `{buf}` onto itself (target `{roll_target}`, argument `{roll_buf}`)")
        if shift != 1:
            problems.append(f"the shift is {shift}, not +1: with the current value written to slot 0, slot k no longer holds the value written k steps ago")
        if roll_axis is None:
            if ndim != 1:
                problems.append(f"the roll has no axis although the buffer has {ndim} dimensions (numpy rolls the flattened array: values "
                                f"leak from one source element's history into the next)")
        elif roll_axis != wsel.axis:
            problems.append(f"the roll runs along axis {roll_axis} but the slots are selected on axis {wsel.axis}: the history is never shifted "
                            f"(and the source elements are permuted instead)")
        if problems:
            ctx.violation(rid, f, r.stmt, f"{r.label}: " + "; ".join(problems), rf, label=f"{r.label}: roll")
        else:
            ctx.ok(rid, f, r.stmt, "the whole buffer is rolled by +1 along the delay axis", rf, label=f"{r.label}: roll")
        # ---- (c) write: slot 0 of the same buffer <- the source variable
        slot = weq.const_int(wsel.slot) if wsel.slot is not None else None
        if slot is None:
            raise AnalysisError(f"{rid}: {where}: the write slot of `{weq.text}` is not an integer literal")
        write_slots[(f.qual, r.label)] = (slot, r)
        src_param = _source_param(ctx, f)
        rhs_t = weq.name(weq.rhs)
        wf = {"write": weq.text, "slot": slot, "source_parameter": src_param, "delay_axis_is_last": ndim == (wsel.axis or 0) + 1}
        problems = []
        if rhs_t != f"⟨{src_param}⟩":
            problems.append(f"the stored value is `{weq.show(weq.rhs)}`, not the source variable ⟨{src_param}⟩")
        if slot != 0:
            problems.append(f"the current value goes to slot {slot}; with a +1 roll the value written k steps ago is in slot {slot}+k, "
                            f"but the read selects slot d")
        if ndim is not None and wsel.axis is not None and wsel.axis != ndim - 1:
            problems.append(f"the slot axis {wsel.axis} is not the axis whose extent is the number of delay steps (shape {ast.unparse(shape)})")
        if problems:
            ctx.violation(rid, f, r.stmt, f"{r.label}: " + "; ".join(problems), wf, label=f"{r.label}: write")
        else:
            ctx.ok(rid, f, r.stmt, f"the source variable ⟨{src_param}⟩ is stored into slot 0 of the buffer", wf, label=f"{r.label}: write")
        # ---- (d) read: buffered output <- slots of the same buffer selected by the delays
        srcs = _delay_sources(ctx, r, r.read, rsel.slot, vdefs) if rsel.slot is not None else []
        r.delay_sources = srcs
        outs, edge_srcs = _output_wiring(ctx, f)
        out_t = deq.name(deq.lhs)
        df = {"read": deq.text, "delay_index": deq.show(rsel.slot) if rsel.slot is not None else None, "delay_provenance": srcs,
              "output": [o for o, _ in outs], "edge_source_var": [s for s, _ in edge_srcs]}
        problems = []
        if rsel.buf != buf:
            problems.append(f"the read selects from `{rsel.buf}` but the current value is written to `{buf}`")
        if rsel.slot is None:
            problems.append("the read does not select a slot")
        if rsel.axis != wsel.axis:
            problems.append(f"the read selects on axis {rsel.axis}, the write on axis {wsel.axis}")
        params = {s.get("param") for s in srcs}
        for s in srcs:
            if s["kind"] == "first" and not s["guarded_by_len_1"]:
                problems.append(f"only the first entry of `{s['param']}` is used without a len({s['param']}) == 1 guard: other edges lose their own delay")
            if s["kind"] == "steps" and not s["discretize_true"]:
                problems.append(f"`{s['name']}` is computed without discretisation: the slot index would be a time, not a number of steps")
            if s["kind"] == "local":
                problems.append(f"the index variable `{s['via']}` holds the local `{s['name']}`, not the delays handed to this function")
        if len(params) != 1 or None in params:
            problems.append(f"the slot index does not come from exactly one delay parameter (found {sorted(map(str, params))})")
        if rsel.rows is not None:
            rt = deq.name(rsel.rows)
            rows_ok = False
            rd_ = [v for v in vdefs if v.name == rt and U.compatible(ctx, f, U.branch_chain(v.stmt), r.chain)]
            if len(rd_) == 1 and isinstance(rd_[0].fields.get("value"), ast.Name):
                # whose elements are the row indices?  (a selection `source_idx[keep]` still holds source indices, whatever `keep` was
                # computed from)
                eps = U.element_params(ctx, f, rd_[0].fields["value"])
                if eps is None:
                    raise AnalysisError(f"{rid}: {where}: cannot trace the elements of the row index `{rt}` "
                                        f"(`{ast.unparse(rd_[0].fields['value'])}`: unrecognised form)")
                df["row_index_elements_from"] = sorted(eps)
                rows_ok = eps == {"nodes"}
            if not rows_ok:
                problems.append(f"the row index `{rt}` of the read does not hold the edges' source indices (parameter `nodes`)")
        if not outs or not edge_srcs:
            raise AnalysisError(f"{rid}: {where}: op_info['output'] / edge['source_var'] assignment not found")
        if any(o != out_t for o, _ in outs):
            problems.append(f"the read assigns `{out_t}` but op_info['output'] is {[o for o, _ in outs]}")
        if any(not s.endswith("/" + out_t) for s, _ in edge_srcs):
            problems.append(f"the read assigns `{out_t}` but the edges are re-pointed to {[s for s, _ in edge_srcs]}")
        if problems:
            ctx.violation(rid, f, r.stmt, f"{r.label}: " + "; ".join(problems), df, label=f"{r.label}: read")
        else:
            ctx.ok(rid, f, r.stmt, f"`{out_t}` (the operator output the edges are re-pointed to) reads the slots selected by the discretised "
                                   f"delays `{params.copy().pop()}` from the same buffer and axis", df, label=f"{r.label}: read")
    # ---- (e) the write slot is one constant across siblings
    slots = {k: v[0] for k, v in write_slots.items()}
    if slots:
        any_ring = next(iter(write_slots.values()))[1]
        if len(set(slots.values())) == 1:
            ctx.ok(rid, any_ring.f, any_ring.stmt, f"all {len(slots)} siblings write the current value to slot {next(iter(slots.values()))}",
                   {"slots": {f"{a} {b}": s for (a, b), s in slots.items()}}, label="write slot agrees across siblings", nontrivial=False)
        else:
            ctx.violation(rid, any_ring.f, any_ring.stmt, "the ring-buffer siblings disagree on the slot that receives the current value",
                          {"slots": {f"{a} {b}": s for (a, b), s in slots.items()}}, label="write slot agrees across siblings")
    _fortran_hook(ctx, rid)


def _fortran_hook(ctx, rid):
    """roll is emitted as cshift by the Fortran registry; cshift shifts the other way, so expr_to_str must negate the shift."""
    from .helpers import Registry
    reg = Registry(ctx, "fortran")
    ent = reg.entries.get("roll")
    f = ctx.repo.get_func(FORTRAN, "FortranBackend.expr_to_str")
    if ent is None or const_str(ent.get("call")) != "cshift":
        raise AnalysisError(f"{rid}: fortran_funcs['roll'] is no longer bound to 'cshift' (re-derive the direction argument)")
    ctx.require(len(f.params) == 2, f"{rid}: FortranBackend.expr_to_str signature changed")
    p_expr, p_args = f.params
    label = "cshift shift negation"

    # does the function deal with cshift calls at all?  (a membership / find test with the literal, in either polarity)
    mentions_cshift = [n for n in walk_shallow(f.node) if isinstance(n, ast.Constant) and isinstance(n.value, str) and n.value.startswith("cshift")]
    # replacements: replace(subject, old, new) or subject.replace(old, new)
    reps = []
    for c in walk_shallow(f.node):
        if isinstance(c, ast.Call) and call_name(c) == "replace":
            if isinstance(c.func, ast.Attribute) and len(c.args) >= 2 and not (isinstance(c.func.value, ast.Name) and c.func.value.id in ("re", "np", "str")):
                reps.append((c, c.func.value, c.args[0], c.args[1]))
            elif len(c.args) >= 3:
                reps.append((c, c.args[0], c.args[1], c.args[2]))
    if not mentions_cshift and not reps:
        ctx.violation(rid, f, f.node, "FortranBackend.expr_to_str no longer rewrites cshift calls: roll(buf, 1) is emitted as cshift(buf, 1), "
                                      "which shifts towards lower indices (slot k would hold the value written max-k steps ago)", label=label)
        return
    if not mentions_cshift or not reps:
        raise AnalysisError(f"{rid}: {f.qual}: the cshift rewrite is not recognised ({len(mentions_cshift)} cshift literal(s), {len(reps)} replace call(s))")
    # the replacement of the shift argument: old/new are built from the last operator argument
    hole = "⟨" + p_args
    neg = None
    for c, subj, old, new_ in reps:
        old_t = U.render_expr(ctx, f, old)
        new_t = U.render_expr(ctx, f, new_)
        if old_t.startswith(hole) or new_t.lstrip("-").startswith(hole):
            neg = (c, old_t, new_t)
            break
    if neg is None:
        raise AnalysisError(f"{rid}: {f.qual}: cannot find the replacement of the shift argument among the replace calls (unrecognised form)")
    c, old_t, new_t = neg
    facts = {"old": old_t, "new": new_t, "registry": "fortran_funcs['roll']['call'] = 'cshift'"}

    # the rewritten text must reach the return value: some `return` yields a value built (through locals / an enclosing replace of
    # the expression) from this replacement
    def reaches(e, depth=0, seen=None):
        seen = seen if seen is not None else set()
        for n in ast.walk(e):
            if n is c:
                return True
            if isinstance(n, ast.Name) and isinstance(n.ctx, ast.Load) and depth < 6:
                for d in ctx.rd(f).defs_reaching(n):
                    if isinstance(d, ast.stmt) and id(d) not in seen:
                        seen.add(id(d))
                        v = assigned_value(d, n.id)
                        if v is not None and reaches(v, depth + 1, seen):
                            return True
        return False

    rets = [st for st in walk_shallow(f.node) if isinstance(st, ast.Return) and st.value is not None]
    returned = any(reaches(st.value) for st in rets)
    three = [r for r in ring_siblings(ctx) for e, k in zip(r.ems, r.kinds) if k == "roll" and len(e.eq.rhs.args) == 3]
    st_c = U.stmt_of_expr(c)
    if three:
        ctx.info(rid, f, st_c, f"{len(three)} sibling(s) emit roll with an axis argument; the hook negates the token of args[-1] (the axis, which equals the shift "
                               f"literal today), giving cshift(buf, -1, -1).  gfortran rejects that (invalid dim) and the `buf(,1)` subscripts of the 2-D form: "
                               f"the Fortran 2-D ring buffer fails loudly at compile time (confirmed by a probe), it does not run wrongly",
                 label="cshift with axis argument (loud)")
    if new_t == "-" + old_t and returned:
        ctx.ok(rid, f, st_c, "the shift of a cshift call is replaced by its negation before the expression is returned "
                             "(cshift(x, -1) = roll(x, 1))", facts, label=label)
    else:
        ctx.violation(rid, f, st_c, f"the cshift rewrite does not negate the shift (replaces `{old_t}` by `{new_t}`"
                                    f"{'' if returned else ', result not returned'}): the Fortran ring buffer would move "
                                    f"towards lower slots", facts, label=label)


# ---------------------------------------------------------------------------------------------
# R2
# ---------------------------------------------------------------------------------------------

def r2_capacity(ctx, rid):
    rings = ring_siblings(ctx)
    for r in rings:
        f = r.f
        where = f"{f.qual} {r.label}"
        if sorted(k or "" for k in r.kinds) != ["read", "roll", "write"]:
            continue        # reported by R1
        _analyse(ctx, r)
        vdefs = U.var_defs(ctx, f)
        wsel = _decode(r.write.eq, r.write.eq.lhs, where)
        rsel = _decode(r.read.eq, r.read.eq.rhs, where)
        if wsel.buf is None or rsel.slot is None or wsel.axis is None:
            raise AnalysisError(f"{rid}: {where}: cannot decode buffer / delay axis")
        shape = _buffer_shape(ctx, r, wsel.buf, vdefs)
        if wsel.axis >= len(shape.elts):
            ctx.violation(rid, f, r.stmt, f"{r.label}: the buffer is declared with shape {ast.unparse(shape)} but slots are selected on axis {wsel.axis}",
                          label=f"{r.label}: capacity")
            continue
        extent = shape.elts[wsel.axis]
        srcs = _delay_sources(ctx, r, r.read, rsel.slot, vdefs)
        # symbols of the extent
        names = [n for n in ast.walk(extent) if isinstance(n, ast.Name)]
        try:
            e = symx.to_sympy(extent)
        except symx.Unsupported as ex:
            raise AnalysisError(f"{rid}: {where}: extent `{ast.unparse(extent)}` not arithmetic: {ex}")
        free = sorted(e.free_symbols, key=str)
        if len(free) != 1:
            raise AnalysisError(f"{rid}: {where}: extent `{ast.unparse(extent)}` does not depend on exactly one name")
        M = free[0]
        c = sp.simplify(e - M)
        if not c.is_Integer:
            raise AnalysisError(f"{rid}: {where}: extent `{ast.unparse(extent)}` is not of the form M + c")
        mnode = [n for n in names if n.id == str(M)][0]
        # what is M?
        m_desc, m_ok = None, False
        steps = [s for s in srcs if s["kind"] == "steps"]
        params = {s.get("param") for s in srcs}
        if steps and all(s["name"] == mnode.id for s in steps):
            m_desc, m_ok = f"the slot index `{mnode.id}` itself", True
        else:
            v = U.single_value(ctx, f, mnode)
            if isinstance(v, ast.Call) and call_name(v) in ("max", "amax", "nanmax") and len(v.args) == 1 and isinstance(v.args[0], ast.Name):
                m_desc = f"{call_name(v)}({v.args[0].id})"
                m_ok = U.is_param(ctx, f, v.args[0]) and params == {v.args[0].id}
            elif v is not None:
                m_desc = ast.unparse(v)
            else:
                m_desc = f"`{mnode.id}` (no single definition)"
        facts = {"shape": ast.unparse(shape), "delay_axis": wsel.axis, "extent": ast.unparse(extent), "M": m_desc, "c": int(c),
                 "read_index_provenance": srcs}
        if not m_ok:
            ctx.violation(rid, f, r.stmt, f"{r.label}: the extent `{ast.unparse(extent)}` of the delay axis is built from {m_desc}, which is not the "
                                          f"maximum of the delays that index the read ({sorted(map(str, params))})", facts, label=f"{r.label}: capacity")
        elif int(c) < 1:
            ctx.violation(rid, f, r.stmt, f"{r.label}: the delay axis has extent `{ast.unparse(extent)}` = M{int(c):+d}: slot M (the largest delay) does not "
                                          f"exist; capacity must be largest delay + 1 because slot 0 holds the current value", facts,
                          label=f"{r.label}: capacity")
        else:
            ctx.ok(rid, f, r.stmt, f"delay-axis extent normalises to M + {int(c)} with M = {m_desc}", facts, label=f"{r.label}: capacity")


# ---------------------------------------------------------------------------------------------
# R3
# ---------------------------------------------------------------------------------------------

def r3_rounding(ctx, rid):
    f = U.method(ctx, "_preprocess_delay")
    selfn = f.self_name
    params = [p for p in f.params if p != selfn]
    ctx.require(len(params) >= 1, f"{rid}: _preprocess_delay signature changed")
    dpar = params[0]
    quot = [n for n in walk_shallow(f.node) if isinstance(n, ast.BinOp) and isinstance(n.op, (ast.Div, ast.FloorDiv))
            and is_attr_of(n.right, selfn, "step_size")]
    ctx.require(quot, f"{rid}: no quotient by self.step_size in _preprocess_delay (unrecognised form)")
    for q in quot:
        if not (isinstance(q.left, ast.Name) and q.left.id == dpar):
            raise AnalysisError(f"{rid}: quotient `{ast.unparse(q)}` does not divide the delay parameter `{dpar}`")
        chain = []
        node = q
        while True:
            p = parent(node)
            if isinstance(p, ast.Call) and p.args and p.args[0] is node:
                rc = U.rounding_call(p)
                if rc is not None:
                    chain.append(rc[0])
                elif call_name(p) == "int":
                    chain.append("int")
                else:
                    raise AnalysisError(f"{rid}: quotient is wrapped by the unrecognised call `{ast.unparse(p.func)}`")
                node = p
                continue
            # `n_steps = round(...)` ... `int(n_steps)`: follow a local that is defined only here and read exactly once
            if isinstance(p, (ast.Assign, ast.AnnAssign)) and p.value is node:
                tg = p.targets if isinstance(p, ast.Assign) else [p.target]
                if len(tg) == 1 and isinstance(tg[0], ast.Name):
                    loads = [x for x in walk_shallow(f.node) if isinstance(x, ast.Name) and isinstance(x.ctx, ast.Load) and x.id == tg[0].id]
                    if len(loads) == 1 and ctx.rd(f).defs_reaching(loads[0]) == [p]:
                        node = loads[0]
                        continue
            break
        facts = {"expression": ast.unparse(node), "wrappers_inner_to_outer": chain}
        st = q
        while not isinstance(st, ast.stmt):
            st = parent(st)
        if isinstance(q.op, ast.FloorDiv):
            ctx.violation(rid, f, st, "the step count is computed by floor division: 0.3/0.1 gives 2 steps instead of 3 (the property says round)",
                          facts, label="time -> steps conversion")
        elif chain and chain[0] == "round":
            ctx.ok(rid, f, st, "steps = int(round(delay / step_size)): the quotient is rounded before it is made an integer", facts,
                   label="time -> steps conversion")
        elif chain and chain[0] in ("int", "trunc"):
            ctx.violation(rid, f, st, f"the quotient delay/step_size is truncated ({chain[0]}) without rounding first: 0.3/0.1 = 2.9999999999999996 "
                                      f"gives 2 steps instead of 3", facts, label="time -> steps conversion")
        else:
            raise AnalysisError(f"{rid}: the quotient `{ast.unparse(q)}` is returned without an integer conversion (unrecognised form)")
    # call sites: the flag handed on is the caller's own `discretize` parameter or the constant True
    sites = ctx.cg.call_sites_of(f)
    ctx.require(sites, f"{rid}: no call site of _preprocess_delay resolved")
    for g, call in sorted(sites, key=lambda s: (s[0].qual, s[1].lineno, s[1].col_offset)):
        kw = [k.value for k in call.keywords if k.arg == "discretize"]
        if len(call.args) > 1:
            kw = [call.args[1]]
        st = call
        while not isinstance(st, ast.stmt):
            st = parent(st)
        idx = [c for c in ast.walk(st) if isinstance(c, ast.Call) and call_name(c) == "_preprocess_delay"].index(call)
        label = f"conversion call #{idx + 1} in `{norm(st, 60)}`"
        if not kw and "discretize" in g.params:
            ctx.violation(rid, g, st, f"{g.qualname} has its own `discretize` flag but calls _preprocess_delay without it (default True): the caller's "
                                      f"request to keep a delay continuous is not honoured", label=label)
        elif not kw:
            ctx.ok(rid, g, st, "delay converted with the default discretize=True", label=label, nontrivial=False)
        elif isinstance(kw[0], ast.Constant) and kw[0].value is True:
            ctx.ok(rid, g, st, "delay converted with discretize=True", label=label, nontrivial=False)
        elif isinstance(kw[0], ast.Name) and kw[0].id in g.params and U.is_param(ctx, g, kw[0]):
            ctx.ok(rid, g, st, f"the caller's own `{kw[0].id}` flag is handed on unchanged", label=label)
        elif isinstance(kw[0], ast.Constant) and kw[0].value is False and any(r.f is g for r in ring_siblings(ctx)):
            ctx.violation(rid, g, st, "a delay used next to a ring buffer is converted with discretize=False: the slot index would be a time",
                          label=label)
        else:
            ctx.violation(rid, g, st, f"the discretize flag handed to _preprocess_delay is `{ast.unparse(kw[0])}`, neither the caller's own flag "
                                      f"nor True: the caller's request (discretise / keep continuous) is not honoured", label=label)


# ---------------------------------------------------------------------------------------------
# R4
# ---------------------------------------------------------------------------------------------

def _list_of_constant(v) -> "Optional[ast.AST]":
    """The element c of a list built as `[c] * n`, `n * [c]`, `[c]`, `[c for _ in ...]`; None if `v` is not of that form."""
    if isinstance(v, ast.BinOp) and isinstance(v.op, ast.Mult):
        for a in (v.left, v.right):
            if isinstance(a, ast.List) and len(a.elts) == 1:
                return a.elts[0]
        return None
    if isinstance(v, ast.List) and len(v.elts) == 1:
        return v.elts[0]
    if isinstance(v, ast.ListComp) and isinstance(v.elt, ast.Constant):
        return v.elt
    return None


def _default_delay_literals(ctx, coll):
    """Constructs that substitute a literal for a missing (None / zero) delay while the delays of `edges` are collected.
    The statements are looked for in the function that reads the edge attribute 'delay' into a local: the collector itself or a
    helper extracted from it.  Returns (scope, local, [(stmt, literal node, role)])."""
    g, holders = U.edge_attr_scope(ctx, coll, ("delay",), exclude=_conversion_anchors(ctx))
    d = holders["delay"]
    out = []

    def assigns_holder(st):
        if isinstance(st, ast.Assign):
            return any(isinstance(t, ast.Name) and t.id == d for t in st.targets)
        return isinstance(st, ast.AnnAssign) and isinstance(st.target, ast.Name) and st.target.id == d and st.value is not None

    for n in walk_shallow(g.node):
        # (a) element-wise: [<c> if x is None else x for x in d]   (either polarity of the test)
        if isinstance(n, ast.ListComp) and len(n.generators) == 1 and isinstance(n.generators[0].iter, ast.Name) \
                and n.generators[0].iter.id == d and isinstance(n.generators[0].target, ast.Name):
            x = n.generators[0].target.id
            elt = n.elt
            if not isinstance(elt, ast.IfExp):
                continue
            when_none = U.truth_when_none(ctx, None, elt.test, x)
            if when_none is None:
                if U.mentions(elt.test, x) and any(U._is_none(c) for c in ast.walk(elt.test)):
                    raise AnalysisError(f"{g.qual}: None-test `{ast.unparse(elt.test)}` of a delay-list entry has an unrecognised form")
                continue
            lit, other = (elt.body, elt.orelse) if when_none else (elt.orelse, elt.body)
            if not (isinstance(other, ast.Name) and other.id == x):
                raise AnalysisError(f"{g.qual}: `{ast.unparse(n)}` does not keep the entries that are not None (unrecognised form)")
            st = U.stmt_of_expr(n)
            if not assigns_holder(st):
                raise AnalysisError(f"{g.qual}: the delay list with its None entries replaced is not stored back into `{d}`: {norm(st)}")
            out.append((st, lit, "None entry of a delay list", "entry of a delay list is None"))
        # (b) whole edge, statement form: if d is None or ...: d = [<c>] * n      (or the De-Morgan'd test with swapped arms)
        if isinstance(n, ast.If):
            when_none = U.truth_when_none(ctx, g, n.test, d)
            if when_none is None:
                if any(isinstance(c, ast.Compare) and U.mentions(c, d) and any(U._is_none(k) for k in c.comparators + [c.left])
                       for c in ast.walk(n.test)):
                    raise AnalysisError(f"{g.qual}: test `{ast.unparse(n.test)}` of the missing delay has an unrecognised form")
                continue
            arm = n.body if when_none else n.orelse
            for st in arm:
                if assigns_holder(st):
                    lit = _list_of_constant(st.value)
                    if lit is None:
                        raise AnalysisError(f"{g.qual}: default delay `{norm(st)}` has an unrecognised form")
                    out.append((st, lit, "edge without delay", "edge declares no delay (None) or delay 0"))
        # (c) whole edge, expression form: d = [<c>] * n if d is None or ... else f(d)
        if isinstance(n, ast.IfExp) and not isinstance(parent(n), (ast.ListComp, ast.GeneratorExp)):
            st = U.stmt_of_expr(n)
            if assigns_holder(st) and st.value is n:
                when_none = U.truth_when_none(ctx, g, n.test, d)
                if when_none is None:
                    continue
                v = n.body if when_none else n.orelse
                lit = _list_of_constant(v)
                if lit is None:
                    raise AnalysisError(f"{g.qual}: default delay `{norm(st)}` has an unrecognised form")
                out.append((st, lit, "edge without delay", "edge declares no delay (None) or delay 0"))
    return g, d, out


def _conversion_anchors(ctx):
    cls = U.graph_class(ctx)
    return [cls.methods[m] for m in ("_process_delays", "_preprocess_delay") if m in cls.methods]


def r4_default_delay_matches_write_slot(ctx, rid):
    # the ring buffers that are indexed by the collected delays: siblings in the function that receives the collector's result
    consumer = U.method(ctx, "_add_edge_buffer")
    rings = [r for r in ring_siblings(ctx) if r.f is consumer]
    ctx.require(rings, f"{rid}: no ring-buffer sibling in _add_edge_buffer, the consumer of the collected delays")
    slots = {}
    for r in rings:
        for e, k in zip(r.ems, r.kinds):
            if k == "write":
                sel = _decode(e.eq, e.eq.lhs, r.f.qual)
                s = e.eq.const_int(sel.slot) if sel.slot is not None else None
                if s is not None:
                    slots[r.label] = s
    if not slots:
        raise AnalysisError(f"{rid}: cannot read the write slot of the ring buffers in _add_edge_buffer; see C09-R1")
    f = U.method(ctx, "_collect_delays_from_edges")
    g, d, lits = _default_delay_literals(ctx, f)
    ctx.require(lits, f"{rid}: no default for missing delays found in {g.qualname} (unrecognised form)")
    seen = {}
    for st, lit, role, when in sorted(lits, key=lambda x: (x[0].lineno, x[0].col_offset)):
        if not (isinstance(lit, ast.Constant) and isinstance(lit.value, int) and not isinstance(lit.value, bool)):
            raise AnalysisError(f"{rid}: default delay in `{norm(st)}` is not an integer literal")
        # the construct is named by its role (which default, which literal) and anchored at the collector, whichever helper the
        # statement lives in and however its locals are called
        label = f"default delay {lit.value}: {role}"
        k = seen.get(label, 0)
        seen[label] = k + 1
        if k:
            label += f" #{k + 1}"
        facts = {"default_delay_steps": lit.value, "slot_holding_current_value": slots, "when": when, "statement": norm(st),
                 "in": g.qualname}
        wrong = sorted({s for s in slots.values() if s != lit.value})
        if not wrong:
            ctx.ok(rid, f, st, f"an edge without delay reads slot {lit.value}, the slot that holds the current value", facts, label=label)
        else:
            wslot = wrong[0]
            ctx.violation(rid, f, st, f"`{norm(st)}` ({g.qualname}): when the {when}, the delay becomes {lit.value} steps, but the ring buffers "
                                      f"store the current value in slot "
                                      f"{wslot}: as soon as another edge from the same source variable has a delay > 1 step (so the buffer is built), "
                                      f"the undelayed edge reads slot {lit.value} and receives the value of {lit.value - wslot} step(s) ago instead of "
                                      f"the current value", facts, label=label)


# ---------------------------------------------------------------------------------------------
# R5
# ---------------------------------------------------------------------------------------------

ROLE_OF_KEY = {"delay": "delays", "spread": "spreads", "source_idx": "nodes"}


def _unzip_of(ctx, f, e: ast.Name):
    """`e` (a returned list) is produced after the per-edge loop by unzipping a list of per-edge tuples:
    L.append((a, b, c)) in the loop, then `e = [x for a, _, _ in L for x in a]` (flattening) or `e = [c for _, _, c in L]`.
    -> dict(stage=L, pos=i, value=<tuple element i at the append>, stmt=<the comprehension's statement>, reordered=bool) or None."""
    defs = [d for d in ctx.rd(f).defs_reaching(e) if isinstance(d, ast.stmt)]
    vals = [(d, assigned_value(d, e.id)) for d in defs]
    vals = [(d, v) for d, v in vals if not (isinstance(v, ast.Constant) and v.value is None)]
    if len(vals) != 1 or vals[0][1] is None:
        return None
    st, v = vals[0]
    if isinstance(v, ast.Call) and call_name(v) == "list" and len(v.args) == 1 and isinstance(v.args[0], ast.GeneratorExp):
        v = v.args[0]
    if not isinstance(v, (ast.ListComp, ast.GeneratorExp)) or not 1 <= len(v.generators) <= 2:
        return None
    g0 = v.generators[0]
    it, reordered = g0.iter, False
    while isinstance(it, ast.Call) and call_name(it) in U.REORDERERS | {"list", "tuple"} and len(it.args) >= 1:
        reordered = reordered or call_name(it) in U.REORDERERS
        it = it.args[0]
    if isinstance(it, ast.Subscript) and isinstance(it.slice, ast.Slice) and isinstance(it.value, ast.Name):
        sl = it.slice
        reordered = reordered or not (sl.lower is None and sl.upper is None and sl.step is None)
        it = it.value
    if not isinstance(it, ast.Name) or U.is_param(ctx, f, it):
        return None
    if any(g.ifs for g in v.generators):
        raise AnalysisError(f"{f.qual}: `{norm(st)}` filters the per-edge entries (unrecognised form)")
    if not isinstance(g0.target, (ast.Tuple, ast.List)) or not all(isinstance(t, ast.Name) for t in g0.target.elts):
        return None
    bound = [t.id for t in g0.target.elts]
    if len(v.generators) == 1:
        used, shape_ok = v.elt, isinstance(v.elt, ast.Name)
    else:
        g1 = v.generators[1]
        used = g1.iter
        shape_ok = isinstance(g1.iter, ast.Name) and isinstance(g1.target, ast.Name) and isinstance(v.elt, ast.Name) and v.elt.id == g1.target.id
    if not shape_ok or used.id not in bound or bound.count(used.id) != 1:
        raise AnalysisError(f"{f.qual}: `{norm(st)}` does not pick one component of the per-edge tuples of `{it.id}` (unrecognised form)")
    pos = bound.index(used.id)
    muts = U.mutations_of(f, it.id)
    if len(muts) != 1 or muts[0].func.attr != "append" or len(muts[0].args) != 1 or not isinstance(muts[0].args[0], ast.Tuple) \
            or len(muts[0].args[0].elts) != len(bound):
        raise AnalysisError(f"{f.qual}: the per-edge list `{it.id}` is not filled by exactly one append of a {len(bound)}-tuple (unrecognised form)")
    return {"stage": it.id, "pos": pos, "value": muts[0].args[0].elts[pos], "stmt": st, "reordered": reordered}


def _collector_roles(ctx, f):
    """Return-tuple position -> role ('delays' / 'spreads' / 'nodes') of _collect_delays_from_edges.  accs: role -> how the
    returned list is accumulated: {'name': the list extended once per edge, 'unzip': _unzip_of(...) or None}."""
    rets = [s for s in walk_shallow(f.node) if isinstance(s, ast.Return)]
    if len(rets) != 1 or not isinstance(rets[0].value, ast.Tuple):
        raise AnalysisError(f"{f.qual}: expected one `return a, b, c, d`")
    roles = {}
    accs = {}
    for i, e in enumerate(rets[0].value.elts):
        if not isinstance(e, ast.Name):
            continue
        accumulated = U.mutations_of(f, e.id) or [s for s in walk_shallow(f.node) if isinstance(s, ast.AugAssign)
                                                  and isinstance(s.target, ast.Name) and s.target.id == e.id]
        unzip = None
        if accumulated:
            roots = U.value_roots(ctx, f, e, follow_calls=True)
        else:
            unzip = _unzip_of(ctx, f, e)
            if unzip is None:
                continue        # e.g. the add_delay flag
            roots = U.value_roots(ctx, f, unzip["value"], follow_calls=True)
        ks = {ROLE_OF_KEY[k] for k in roots["keys"] if k in ROLE_OF_KEY}
        if len(ks) == 1:
            roles[i] = ks.pop()
            accs[roles[i]] = {"name": unzip["stage"] if unzip else e.id, "unzip": unzip, "returned": e.id}
    return roles, accs, rets[0]


def r5_slot_order(ctx, rid):
    coll = U.method(ctx, "_collect_delays_from_edges")
    addb = U.method(ctx, "_add_edge_buffer")
    roles, accs, ret = _collector_roles(ctx, coll)
    if sorted(roles.values()) != ["delays", "nodes", "spreads"]:
        raise AnalysisError(f"{rid}: cannot assign the roles delays/spreads/nodes to the return tuple of {coll.qualname} (found {roles})")
    # ---- (a) accumulation: once per edge, in the order of `edges`
    eparams = [p for p in coll.params if p != coll.self_name]
    ctx.require(len(eparams) == 1, f"{rid}: _collect_delays_from_edges signature changed")
    ep = eparams[0]
    loops = [n for n in coll.node.body if isinstance(n, ast.For)]

    def in_order(it):
        return U.iterates_in_order(ctx, coll, it, ep)

    cands = [(l, in_order(l.iter)) for l in loops]
    main = [l for l, o in cands if o is True]
    if len(main) != 1:
        others = [l for l, o in cands if o is False]
        if others and not main:
            ctx.violation(rid, coll, others[0], f"the per-edge loop iterates `{ast.unparse(others[0].iter)}` instead of `{ep}` itself: slots would be "
                                                f"collected in another order than the one in which _add_edge_buffer hands them back",
                          label="per-edge accumulation")
            main = None
        else:
            raise AnalysisError(f"{rid}: per-edge loop over `{ep}` not found in {coll.qualname} (unrecognised form)")
    if main:
        loop = main[0]
        facts = {"loop": norm(loop), "accumulators": {r: (a["returned"] if not a["unzip"] else
                                                          f"{a['returned']} = component {a['unzip']['pos']} of `{a['name']}`") for r, a in accs.items()}}
        problems = []
        checked = set()
        for role, info in accs.items():
            acc = info["name"]
            uz = info["unzip"]
            if uz is not None:
                if uz["reordered"]:
                    problems.append(f"`{norm(uz['stmt'])}` does not walk the per-edge entries front to back")
                if not (parent(uz["stmt"]) is coll.node and uz["stmt"].lineno > loop.lineno):
                    raise AnalysisError(f"{rid}: {coll.qual}: `{norm(uz['stmt'])}` does not follow the per-edge loop (unrecognised form)")
            if acc in checked:
                continue
            checked.add(acc)
            stmts = []
            for st in loop.body:        # unconditional statements of the loop body only
                if isinstance(st, ast.AugAssign) and isinstance(st.op, ast.Add) and isinstance(st.target, ast.Name) and st.target.id == acc:
                    stmts.append(st)
                if isinstance(st, ast.Expr) and isinstance(st.value, ast.Call) and isinstance(st.value.func, ast.Attribute) \
                        and st.value.func.attr in ("append", "extend") and isinstance(st.value.func.value, ast.Name) and st.value.func.value.id == acc:
                    stmts.append(st)
            anywhere = [c for c in U.mutations_of(coll, acc)] + [s for s in walk_shallow(coll.node) if isinstance(s, ast.AugAssign)
                                                                  and isinstance(s.target, ast.Name) and s.target.id == acc]
            if len(stmts) != 1 or len(anywhere) != 1:
                problems.append(f"`{acc}` ({role}) is not extended exactly once, unconditionally, per edge ({len(stmts)} in the loop body, {len(anywhere)} in all)")
            elif isinstance(stmts[0], ast.Expr) and stmts[0].value.func.attr == "insert":
                problems.append(f"`{acc}` is not extended at its end")
        if problems:
            ctx.violation(rid, coll, loop, "; ".join(problems) + ": slot k of the buffered variable would no longer belong to the k-th collected delay",
                          facts, label="per-edge accumulation")
        else:
            ctx.ok(rid, coll, loop, "delays, spreads and source indices are each extended exactly once per edge, in the order of `edges`", facts,
                   label="per-edge accumulation")
    # ---- (b) call sites of _add_edge_buffer
    sites = [(g, c) for g, c in ctx.cg.call_sites_of(addb)]
    ctx.require(sites, f"{rid}: no call site of _add_edge_buffer resolved")
    for g, call in sorted(sites, key=lambda s: (s[0].qual, s[1].lineno)):
        _check_call_site(ctx, rid, g, call, coll, roles, addb)
    # ---- (c) the re-pointing loop
    _check_repoint(ctx, rid, addb)


def _collect_binding(ctx, g, name_node: ast.Name, coll, _depth=0):
    """If name is bound by `a, b, c, d = self._collect_delays_from_edges(E)`: (position, call)."""
    defs = ctx.rd(g).defs_reaching(name_node)
    if len(defs) != 1 or not isinstance(defs[0], ast.Assign):
        return None
    st = defs[0]
    if _depth < 3 and isinstance(assigned_value(st, name_node.id), ast.Name):        # plain alias `d2 = delays`
        return _collect_binding(ctx, g, assigned_value(st, name_node.id), coll, _depth + 1)
    if not (isinstance(st.value, ast.Call) and len(st.targets) == 1 and isinstance(st.targets[0], ast.Tuple)
            and (U.resolve_single(ctx, g, st.value) is coll or call_name(st.value) == coll.node.name)):
        return None
    for i, t in enumerate(st.targets[0].elts):
        if isinstance(t, ast.Name) and t.id == name_node.id:
            return i, st.value
    return None


def _check_call_site(ctx, rid, g, call: ast.Call, coll, roles, addb=None):
    kw = U.bind_args(addb, call) if addb is not None else {k.arg: k.value for k in call.keywords}
    st = call
    while not isinstance(st, ast.stmt):
        st = parent(st)
    for need in ("edges", "delays", "nodes"):
        if need not in kw:
            raise AnalysisError(f"{rid}: {g.qual}: `{norm(st, 80)}` passes `{need}` positionally / not at all (unrecognised form)")
    wanted = {"delays": "delays", "nodes": "nodes"}
    if "spreads" in kw:
        wanted["spreads"] = "spreads"
    facts = {}
    problems = []
    gran = set()
    coll_calls = set()
    zips = set()

    lifted = {"fn": g}

    def resolve(e, cond=None, pname=None):
        """-> (granularity 'all' | 'each', Name node of the whole list).  `x if c else None` stands for x where None is the
        parameter's default (the argument is then as good as omitted); an element drawn from `xs if c else repeat(None)` inside a
        zip stands for an element of xs when the same condition c guards its use."""
        if isinstance(e, ast.IfExp) and cond is None and addb is not None and pname is not None:
            dv = U._default_of(addb, pname)
            none_default = isinstance(dv, ast.Constant) and dv.value is None
            for val, other, arm in ((e.body, e.orelse, True), (e.orelse, e.body, False)):
                if isinstance(other, ast.Constant) and other.value is None and none_default:
                    return resolve(val, (e.test, arm), pname)
            return None, None, None
        if isinstance(e, ast.Name):
            return "all", e, None
        if isinstance(e, ast.List) and len(e.elts) == 1 and isinstance(e.elts[0], ast.Name):
            h, elt = g, e.elts[0]
            if U.is_param(ctx, g, elt):
                # the call sits in a helper that handles ONE edge and is itself called once per edge: look at the caller's argument
                sites2 = ctx.cg.call_sites_of(g)
                if len(sites2) != 1:
                    return None, None, None
                h, c2 = sites2[0]
                a2 = U.bind_args(g, c2).get(elt.id)
                if not isinstance(a2, ast.Name):
                    return None, None, None
                elt = a2
                lifted["fn"] = h
            src = U.element_source(ctx, h, elt)
            for _ in range(4):
                rel = U.test_relation(ctx, g, src.test, cond[0]) if isinstance(src, ast.IfExp) and cond is not None and h is g else 0
                if isinstance(src, ast.IfExp) and rel:
                    src = src.body if (cond[1] if rel == 1 else not cond[1]) else src.orelse
                elif isinstance(src, ast.IfExp):
                    # a column that is a collected list on one arm and a filler on the other: the list decides whose values these are
                    arms = [a_ for a_ in (src.body, src.orelse) if isinstance(a_, ast.Name)]
                    if len(arms) != 1:
                        break
                    src = arms[0]
                elif isinstance(src, ast.Name) and isinstance(U.single_value(ctx, h, src), (ast.IfExp, ast.Name)):
                    src = U.single_value(ctx, h, src)       # a local that only names the zipped column
                else:
                    break
            if isinstance(src, ast.Name):
                d = ctx.rd(h).defs_reaching(elt)
                return "each", src, (d[0] if d else None)
        return None, None, None

    for kwname, role in wanted.items():
        gr, whole, loop = resolve(kw[kwname], None, kwname)
        if gr is None:
            raise AnalysisError(f"{rid}: {g.qual}: argument {kwname}={ast.unparse(kw[kwname])} has an unrecognised form")
        gran.add(gr)
        if loop is not None:
            zips.add(id(loop))
        fn = lifted["fn"]
        b = _collect_binding(ctx, fn, whole, coll)
        if b is None:
            raise AnalysisError(f"{rid}: {g.qual}: cannot trace {kwname}={ast.unparse(kw[kwname])} back to a component of a "
                                f"_collect_delays_from_edges result (unrecognised form)")
        pos, ccall = b
        coll_calls.add(id(ccall))
        facts[kwname] = f"position {pos} of {ast.unparse(ccall)} ({roles.get(pos)})"
        if roles.get(pos) != role:
            problems.append(f"{kwname}= receives position {pos} of the collector's result, which holds the {roles.get(pos)}")
        facts.setdefault("_collect_arg", ast.unparse(ccall.args[0]) if ccall.args else None)
        # the edges handed over must be the list that was collected from
        gr_e, whole_e, loop_e = resolve(kw["edges"])
        if gr_e is None:
            raise AnalysisError(f"{rid}: {g.qual}: argument edges={ast.unparse(kw['edges'])} has an unrecognised form")
        gran.add(gr_e)
        if loop_e is not None:
            zips.add(id(loop_e))
        carg = ccall.args[0] if ccall.args else None
        same = isinstance(carg, ast.Name) and carg.id == whole_e.id and \
            {id(d) for d in ctx.rd(fn).defs_reaching(carg)} == {id(d) for d in ctx.rd(fn).defs_reaching(whole_e)}
        if not same:
            problems.append(f"edges= derives from `{whole_e.id}` but the delays were collected from `{ast.unparse(carg) if carg is not None else '?'}`")
    if len(gran) > 1:
        problems.append("edges/delays/nodes are handed over at different granularity (whole lists mixed with single elements)")
    if len(zips) > 1:
        problems.append("the single elements are not drawn from one common zip(...)")
    if len(coll_calls) > 1:
        problems.append("the arguments come from different _collect_delays_from_edges calls")
    label = "call _add_edge_buffer(" + ", ".join(f"{k}={ast.unparse(kw[k])}" for k in ("edges", "delays", "nodes", "spreads") if k in kw) + ")"
    if problems:
        ctx.violation(rid, g, st, "; ".join(sorted(set(problems))) + ": an edge would be given another edge's delay / source index", facts, label=label)
    else:
        ctx.ok(rid, g, st, "edges, delays, nodes (and spreads) are the matching components of one _collect_delays_from_edges result over the same "
                           "edge list" + (" (element-wise through one zip)" if "each" in gran else ""), facts, label=label)


def _check_repoint(ctx, rid, f):
    selfn = f.self_name
    stores = []
    for n in walk_shallow(f.node):
        if isinstance(n, ast.Assign) and len(n.targets) == 1 and isinstance(n.targets[0], ast.Subscript) \
                and const_str(n.targets[0].slice) == "source_idx":
            stores.append(n)
    if not stores:
        raise AnalysisError(f"{rid}: {f.qual}: no store to edge['source_idx'] found")
    loops_ = {id(U.loop_of(st)) for st in stores}
    if len(loops_) != 1:
        raise AnalysisError(f"{rid}: {f.qual}: the {len(stores)} stores to edge['source_idx'] are not in one loop (unrecognised form)")
    store = stores[0]
    loop = U.loop_of(store)
    ctx.require(loop is not None, f"{rid}: {f.qual}: the store to edge['source_idx'] is not inside a loop")
    it, has_idx = U.unwrap_enumerate(loop.iter)
    facts = {"loop": norm(loop), "store": [norm(st) for st in stores]}
    problems = []
    # the loop walks the `edges` parameter in order
    order = U.iterates_in_order(ctx, f, loop.iter, "edges")
    if order is None:
        raise AnalysisError(f"{rid}: {f.qual}: cannot tell whether `{norm(loop)}` walks the `edges` parameter front to back (unrecognised form)")
    if not order:
        problems.append(f"the loop iterates `{ast.unparse(it)}`, not the `edges` parameter in its own order")

    # what each store hands to the edge: the positions lo..hi-1 themselves (`range(lo, hi)`), or - when entries share slots - the
    # slots of these positions looked up in a per-entry slot map (`M[lo:hi]`, possibly converted element by element)
    def bounds(st):
        for c in ast.walk(st.value):
            if isinstance(c, ast.Call) and call_name(c) == "range" and len(c.args) == 2:
                return c.args[0], c.args[1], None
        for c in ast.walk(st.value):
            if isinstance(c, ast.Subscript) and isinstance(c.slice, ast.Slice) and isinstance(c.value, ast.Name) \
                    and c.slice.lower is not None and c.slice.upper is not None and c.slice.step is None:
                if U.is_param(ctx, f, c.value):
                    break
                return c.slice.lower, c.slice.upper, c.value.id
        raise AnalysisError(f"{rid}: {f.qual}: `{norm(st)}` assigns neither a range(lo, hi) nor a slice [lo:hi] of a slot map")

    bnds = [bounds(st) for st in stores]
    lo, hi, _ = bnds[0]
    maps = sorted({m for _, _, m in bnds if m})
    if maps:
        facts["slot_map"] = maps
    def inline(e):
        def leaf(n):
            if isinstance(n, ast.Name):
                val = U.single_value(ctx, f, n)
                if val is not None and loop is not None and contains(loop, val):
                    return symx.to_sympy(val, leaf=leaf)
            if isinstance(n, ast.Call) and call_name(n) == "len" and len(n.args) == 1:
                return sp.Function("len")(sp.Symbol(ast.unparse(n.args[0]).replace(" ", "")))
            return None
        return symx.to_sympy(e, leaf=leaf)
    if not isinstance(lo, ast.Name):
        raise AnalysisError(f"{rid}: {f.qual}: lower bound `{ast.unparse(lo)}` of the slot range is not a cursor variable")
    for lo2, hi2, _ in bnds[1:]:
        if not (isinstance(lo2, ast.Name) and lo2.id == lo.id and sp.simplify(inline(hi2) - inline(hi)) == 0):
            raise AnalysisError(f"{rid}: {f.qual}: the stores to edge['source_idx'] do not use one common range of positions (unrecognised form)")
    width = sp.simplify(inline(hi) - inline(lo))
    facts["range_width"] = str(width)
    # expected: len(nodes[<index of this edge>])
    idx_name = None
    if has_idx and isinstance(loop.target, ast.Tuple) and isinstance(loop.target.elts[0], ast.Name):
        idx_name = loop.target.elts[0].id
    elif isinstance(loop.target, ast.Name) and isinstance(loop.iter, ast.Call) and call_name(loop.iter) == "range":
        idx_name = loop.target.id           # index loop `for i in range(len(edges))`
    exp_ok = False
    if idx_name is not None and width == sp.Function("len")(sp.Symbol(f"nodes[{idx_name}]")):
        exp_ok = True
    else:
        # zip(edges, nodes) form: len(<element of nodes>)
        m = [s for s in width.free_symbols]
        if len(m) == 1 and width == sp.Function("len")(m[0]):
            nm = str(m[0])
            tn = [n for n in ast.walk(loop.target) if isinstance(n, ast.Name) and n.id == nm]
            if tn and isinstance(U.iter_source(loop.target, loop.iter, nm), ast.Name) and U.iter_source(loop.target, loop.iter, nm).id == "nodes":
                exp_ok = True
    if not exp_ok:
        problems.append(f"the slot range has width `{width}`, not the length of this edge's own source-index list len(nodes[i])")
    # the cursor: initialised to 0 before the loop, advanced to hi after the store under the same guard
    cur = lo.id
    defs = ctx.rd(f).defs_reaching(lo)
    inits = [d for d in defs if isinstance(d, ast.stmt) and not contains(loop, d)]
    advs = [d for d in defs if isinstance(d, ast.stmt) and contains(loop, d)]
    init_ok = len(inits) == 1 and isinstance(assigned_value(inits[0], cur), ast.Constant) and assigned_value(inits[0], cur).value == 0
    adv_ok = False
    if len(advs) == 1:
        a = advs[0]
        av = assigned_value(a, cur)
        if isinstance(a, ast.AugAssign):
            adv_ok = isinstance(a.op, ast.Add) and sp.simplify(inline(a.value) - width) == 0
        elif av is not None:
            adv_ok = sp.simplify(inline(av) - inline(hi)) == 0
        # executed whenever a store is: in the store's own block behind it, or unconditionally in the loop body behind the statement
        # that contains the store
        def top(st_):
            while parent(st_) is not loop:
                st_ = parent(st_)
            return st_
        adv_ok = adv_ok and all((parent(a) is parent(st_) and a.lineno > st_.lineno) or (parent(a) is loop and a.lineno > top(st_).lineno)
                                for st_ in stores)
    facts["cursor"] = {"name": cur, "init": [norm(d) for d in inits], "advance": [norm(d) for d in advs]}
    if not init_ok:
        problems.append(f"the slot cursor `{cur}` does not start at 0")
    if not adv_ok:
        problems.append(f"the slot cursor `{cur}` is not advanced to the end of the assigned range after each edge (under the same condition as the store)")
    # the flattening of `nodes` into source_idx keeps the order
    if problems:
        ctx.violation(rid, f, loop, "; ".join(problems) + ": edges would read slots that belong to other edges' delays", facts,
                      label="slots handed back to the edges")
    else:
        ctx.ok(rid, f, loop, "edge i receives the slots [sum_{j<i} len(nodes[j]), + len(nodes[i])) in the order of `edges`" +
               (f" (looked up in the per-entry slot map `{maps[0]}` where entries share slots)" if maps else ""), facts,
               label="slots handed back to the edges")
    # flatten order
    _check_flatten(ctx, rid, f)


REORDER_CALLS = {"sorted", "reversed", "set", "frozenset", "unique", "shuffle", "permutation", "flip", "sort"}


def _check_flatten(ctx, rid, f):
    """The per-edge source-index lists (`nodes`) are concatenated front to back: a loop `for n in nodes: acc += n`, a nested
    comprehension `[i for n in nodes for i in n]`, or sum(nodes, []) / chain.from_iterable(nodes) / concatenate(nodes) / hstack(nodes)."""
    label = "source indices flattened in order"

    def is_nodes(e):
        return isinstance(e, ast.Name) and e.id == "nodes" and U.is_param(ctx, f, e)

    def reordered(e):
        """`e` is the nodes parameter under a re-ordering wrapper (sorted(nodes), nodes[::-1], ...)."""
        if isinstance(e, ast.Call) and call_name(e) in REORDER_CALLS and e.args and (is_nodes(e.args[0]) or reordered(e.args[0])):
            return True
        if isinstance(e, ast.Subscript) and isinstance(e.slice, ast.Slice) and is_nodes(e.value):
            sl = e.slice
            return not (sl.lower is None and sl.upper is None and sl.step is None)
        return False

    good, bad, unknown = [], [], []
    for n in walk_shallow(f.node):
        if isinstance(n, ast.For) and (is_nodes(n.iter) or reordered(n.iter)):
            ok_body = isinstance(n.target, ast.Name) and len(n.body) == 1 and (
                (isinstance(n.body[0], ast.AugAssign) and isinstance(n.body[0].op, ast.Add) and isinstance(n.body[0].value, ast.Name)
                 and n.body[0].value.id == n.target.id)
                or (isinstance(n.body[0], ast.Expr) and isinstance(n.body[0].value, ast.Call) and call_name(n.body[0].value) == "extend"
                    and len(n.body[0].value.args) == 1 and isinstance(n.body[0].value.args[0], ast.Name)
                    and n.body[0].value.args[0].id == n.target.id))
            prepend = isinstance(n.target, ast.Name) and len(n.body) == 1 and (
                (isinstance(n.body[0], ast.Assign) and isinstance(n.body[0].value, ast.BinOp) and isinstance(n.body[0].value.op, ast.Add)
                 and isinstance(n.body[0].value.left, ast.Name) and n.body[0].value.left.id == n.target.id)
                or (isinstance(n.body[0], ast.Expr) and isinstance(n.body[0].value, ast.Call) and call_name(n.body[0].value) == "insert"))
            if ok_body and is_nodes(n.iter):
                good.append(n)
            elif ok_body or prepend:
                bad.append(n)
            else:
                unknown.append(n)
        elif isinstance(n, (ast.ListComp, ast.GeneratorExp)) and n.generators and (is_nodes(n.generators[0].iter) or reordered(n.generators[0].iter)):
            gens = n.generators
            if len(gens) == 1:
                continue        # e.g. [len(n) for n in nodes]: not a concatenation
            ok_comp = len(gens) == 2 and isinstance(gens[0].target, ast.Name) and isinstance(gens[1].iter, ast.Name) \
                and gens[1].iter.id == gens[0].target.id and isinstance(gens[1].target, ast.Name) and isinstance(n.elt, ast.Name) \
                and n.elt.id == gens[1].target.id and not gens[0].ifs and not gens[1].ifs
            if ok_comp:
                (good if is_nodes(gens[0].iter) else bad).append(n)
            else:
                unknown.append(n)
        elif isinstance(n, ast.Call) and n.args and (is_nodes(n.args[0]) or reordered(n.args[0])
                                                     or (isinstance(n.args[0], ast.Starred) and is_nodes(n.args[0].value))):
            cn = call_name(n)
            if cn in ("concatenate", "hstack", "from_iterable", "chain") or (cn == "sum" and len(n.args) == 2):
                (good if not reordered(n.args[0]) else bad).append(n)
    if bad:
        st = U.stmt_of_expr(bad[0])
        ctx.violation(rid, f, st, "the per-edge source-index lists are not concatenated in order: slot k of the buffered variable would "
                                  "read another edge's source element", label=label)
    elif len(good) == 1 and not bad:
        st = U.stmt_of_expr(good[0])
        ctx.ok(rid, f, st, "the per-edge source-index lists are concatenated in the order of `nodes`", label=label, nontrivial=False)
    else:
        raise AnalysisError(f"{rid}: {f.qual}: flattening of `nodes` not found or ambiguous (unrecognised form; {len(good)} recognised, "
                            f"{len(unknown)} unrecognised uses)")



def r_perm_identity(ctx, rid):
    """Index-dropping shortcuts must be guarded by an exact identity test of the index list (shared lint, see _identity_lint)."""
    from ._identity_lint import permutation_test_as_identity
    permutation_test_as_identity(ctx, rid)


PAIR_CODE_CONSUMERS = {"unique", "set", "frozenset", "isin", "in1d", "searchsorted", "argsort", "Counter", "bincount", "lexsort", "fromkeys"}
_STRIP = {"asarray", "array", "list", "tuple", "int", "unique", "set", "max", "amax", "nanmax", "len", "flatten", "ravel", "squeeze"}


def _innermost_name(e) -> Optional[ast.Name]:
    """x of max(x), len(unique(x)), int(np.max(x)), x.max(), np.unique(x).size ..."""
    for _ in range(8):
        if isinstance(e, ast.Name):
            return e
        if isinstance(e, ast.Call):
            if e.args and call_name(e) in _STRIP:
                e = e.args[0]
            elif isinstance(e.func, ast.Attribute) and not e.args:
                e = e.func.value
            else:
                return None
        elif isinstance(e, ast.Attribute) and e.attr in ("size", "shape"):
            e = e.value
        elif isinstance(e, ast.Subscript) and isinstance(e.slice, ast.Constant):
            e = e.value
        else:
            return None
    return None


def r8_pair_code_stride(ctx, rid):
    """Where the buffer construction identifies (a, b) pairs - e.g. (delay steps, source element) of the entries of a buffered
    vector that may share a slot - by one integer `a * stride + b` (fed to unique/set/a dict), two different pairs must not get the
    same code: the stride has to exceed every b.  Decided: the stride is `max(b) + c` with c >= 1 (ok), or the extent of the
    indexed variable read from its declared shape (ok), or a count of (distinct) entries of b itself (violation: with gaps in
    the values of b the count is <= max(b)); anything else is not decided (AnalysisError).  Tuples / unique(axis=0) need no stride."""
    funcs, seen = [], set()
    for name in ("_add_edge_buffer", "_add_matrix_delay", "_collect_delays_from_edges"):
        for g in U.helper_scopes(ctx, U.method(ctx, name)):
            if g.qual not in seen:
                seen.add(g.qual)
                funcs.append(g)
    n_sites = 0
    for g in funcs:
        rd = ctx.rd(g)

        def resolved(x, depth=0):
            if isinstance(x, ast.Name) and depth < 4:
                v = U.single_value(ctx, g, x)
                if v is not None and not isinstance(v, ast.Name):
                    return resolved(v, depth + 1)
                if isinstance(v, ast.Name):
                    return resolved(v, depth + 1)
            return x

        def consumed(node) -> bool:
            """the value of `node` (directly or through the local it is bound to) is handed to something that tells values apart"""
            p_ = parent(node)
            if isinstance(p_, ast.Call) and call_name(p_) in PAIR_CODE_CONSUMERS and node in p_.args:
                return True
            if isinstance(p_, ast.Subscript) and p_.slice is node:
                return True
            if isinstance(p_, ast.Compare) and any(isinstance(o, (ast.In, ast.NotIn)) for o in p_.ops) and p_.left is node:
                return True
            if isinstance(p_, ast.Assign) and p_.value is node and len(p_.targets) == 1 and isinstance(p_.targets[0], ast.Name):
                nm = p_.targets[0].id
                return any(consumed(x) for x in walk_shallow(g.node) if isinstance(x, ast.Name) and x.id == nm and isinstance(x.ctx, ast.Load)
                           and p_ in rd.defs_reaching(x))
            return False

        for n in walk_shallow(g.node):
            if not (isinstance(n, ast.BinOp) and isinstance(n.op, ast.Add)):
                continue
            for mul, b in ((n.left, n.right), (n.right, n.left)):
                if not (isinstance(mul, ast.BinOp) and isinstance(mul.op, ast.Mult)) or not consumed(n):
                    continue
                n_sites += 1
                st = U.stmt_of_expr(n)
                b_name = _innermost_name(b)
                label = f"pair code stride: {norm(st, 60)}"
                verdicts = []
                for cand in (mul.left, mul.right):
                    r = resolved(cand)
                    facts = {"code": ast.unparse(n), "stride": ast.unparse(cand), "stride_value": ast.unparse(r), "low_digit": ast.unparse(b)}
                    inner = _innermost_name(r)
                    same_b = inner is not None and b_name is not None and inner.id == b_name.id
                    calls = [call_name(c) for c in ast.walk(r) if isinstance(c, ast.Call)]
                    attrs = [a.attr for a in ast.walk(r) if isinstance(a, ast.Attribute)]
                    # max(b) + c
                    if isinstance(r, ast.BinOp) and isinstance(r.op, ast.Add):
                        for m_, c_ in ((r.left, r.right), (r.right, r.left)):
                            if isinstance(c_, ast.Constant) and isinstance(c_.value, int) and any(
                                    isinstance(x, ast.Call) and call_name(x) in ("max", "amax", "nanmax") for x in ast.walk(m_)):
                                im = _innermost_name(m_)
                                if im is not None and b_name is not None and im.id == b_name.id:
                                    verdicts.append(("ok" if c_.value >= 1 else "low", facts, f"max({b_name.id}) + {c_.value}"))
                    if verdicts:
                        continue
                    core = r.args[0] if isinstance(r, ast.Call) and call_name(r) == "int" and len(r.args) == 1 else r
                    is_max = (isinstance(core, ast.Call) and call_name(core) in ("max", "amax", "nanmax"))
                    is_count = (isinstance(core, ast.Call) and call_name(core) == "len") or (isinstance(core, ast.Attribute) and core.attr == "size")
                    if is_max and same_b:
                        verdicts.append(("low", facts, f"max({b_name.id}) itself (the pair (a, max) collides with (a + 1, 0))"))
                    elif is_count:
                        if same_b:
                            distinct = any(c in ("unique", "set", "frozenset") for c in calls)
                            verdicts.append(("count", facts, ("the number of distinct values" if distinct else "the number of entries") + f" of `{b_name.id}`"))
                        else:
                            verdicts.append(("unknown", facts, f"`{ast.unparse(r)}`"))
                    elif any(k == "shape" for k in U.value_roots(ctx, g, r)["keys"]) or "shape" in attrs:
                        verdicts.append(("extent", facts, f"an extent read from a declared shape (`{ast.unparse(r)}`)"))
                if not verdicts:
                    raise AnalysisError(f"{rid}: {g.qual}: cannot tell the stride of the pair code `{ast.unparse(n)}` / prove that it exceeds every "
                                        f"`{ast.unparse(b)}` (unrecognised form)")
                kind, facts, what = verdicts[0]
                if kind == "ok":
                    ctx.ok(rid, g, st, f"the stride of the pair code is {what}: it exceeds every low digit, different pairs get different codes", facts, label=label)
                elif kind == "extent":
                    ctx.ok(rid, g, st, f"the stride of the pair code is {what} of the variable the low digit indexes", facts, label=label, nontrivial=False)
                elif kind in ("count", "low"):
                    high = mul.left if ast.unparse(mul.right) == facts["stride"] else mul.right
                    ctx.violation(rid, g, st, f"`{ast.unparse(n)}` identifies ({ast.unparse(high)}, "
                                              f"{ast.unparse(b)}) pairs by one integer, but its stride `{facts['stride']}` is {what}, not an upper bound of "
                                              f"`{ast.unparse(b)}`: when the values of `{ast.unparse(b)}` have gaps (only some members of the source project) the stride "
                                              f"is <= max({ast.unparse(b)}), two different pairs get the same code, are taken for one, and an edge is pointed at "
                                              f"the slot of another source element / delay", facts, label=label)
                else:
                    raise AnalysisError(f"{rid}: {g.qual}: the stride {what} of the pair code `{ast.unparse(n)}` is a count of something else than its low "
                                        f"digit; cannot prove that it exceeds every `{ast.unparse(b)}`")
                break
    if n_sites == 0:
        f0 = U.method(ctx, "_add_edge_buffer")
        ctx.ok(rid, f0, f0.node, f"no integer pair code `a * stride + b` is used to identify entries in the buffer construction "
                                 f"({len(funcs)} functions scanned)", label="pair code stride: none used", nontrivial=False)


def _source_path_params(ctx, f) -> List[str]:
    """The parameters that identify the buffered source variable: the holes of the `self[f"{node}/{op}/{var}"]` lookup."""
    for n in walk_shallow(f.node):
        if isinstance(n, ast.Subscript) and isinstance(n.value, ast.Name) and n.value.id == f.self_name \
                and isinstance(n.slice, (ast.JoinedStr, ast.Name, ast.BinOp)):
            t = fstring_template(n.slice) if isinstance(n.slice, ast.JoinedStr) else U.render_expr(ctx, f, n.slice)
            parts = [_single_hole(x) for x in t.split("/")]
            if len(parts) == 3 and all(h in f.params for h in parts):
                return parts
    raise AnalysisError(f"{f.qual}: cannot identify the parameters that name the source variable (no self[f'{{node}}/{{op}}/{{var}}'] lookup)")


def r9_ring_registry_key(ctx, rid):
    """A registry kept on the object that lets a later call re-use the ring buffer an earlier call attached to a source variable
    (`ring = self.R.get(key)` ... `self.R[key] = ring`) may hand the buffer only to a call for the very same source: the key must
    contain every parameter that identifies the buffered source variable (node, operator, variable of the self[node/op/var]
    lookup).  A key without one of them lets another variable re-use a buffer that records a different signal."""
    funcs = []
    for r in ring_siblings(ctx):
        if all(r.f is not g for g in funcs):
            funcs.append(r.f)
    n_reg = 0
    for f in funcs:
        stores = {}
        for n in walk_shallow(f.node):
            if isinstance(n, ast.Assign):
                for t in n.targets:
                    if isinstance(t, ast.Subscript) and isinstance(t.value, ast.Attribute) and isinstance(t.value.value, ast.Name) \
                            and t.value.value.id == f.self_name and t.value.attr != "edges":
                        stores.setdefault(t.value.attr, []).append((n, t.slice))
        for attr, sts in stores.items():
            # a registry only if the same function also looks entries up
            lookups = []
            for n in walk_shallow(f.node):
                if isinstance(n, ast.Call) and call_name(n) in ("get", "pop", "setdefault") and isinstance(n.func, ast.Attribute) \
                        and isinstance(n.func.value, ast.Attribute) and n.func.value.attr == attr and n.args:
                    lookups.append(n.args[0])
                elif isinstance(n, ast.Subscript) and isinstance(n.ctx, ast.Load) and isinstance(n.value, ast.Attribute) and n.value.attr == attr \
                        and isinstance(n.value.value, ast.Name) and n.value.value.id == f.self_name:
                    lookups.append(n.slice)
                elif isinstance(n, ast.Compare) and len(n.ops) == 1 and isinstance(n.ops[0], (ast.In, ast.NotIn)) \
                        and isinstance(n.comparators[0], ast.Attribute) and n.comparators[0].attr == attr:
                    lookups.append(n.left)
            if not lookups:
                continue
            n_reg += 1
            src = _source_path_params(ctx, f)
            for st, key in sts:
                kdef = key
                if isinstance(key, ast.Name):
                    kdef = U.single_value(ctx, f, key)
                    if kdef is None:
                        raise AnalysisError(f"{rid}: {f.qual}: registry key `{key.id}` of self.{attr} has no single definition")
                knames = {x.id for x in ast.walk(kdef) if isinstance(x, ast.Name) and U.is_param(ctx, f, x)}
                if not knames:
                    raise AnalysisError(f"{rid}: {f.qual}: registry key `{ast.unparse(kdef)}` of self.{attr} does not mention a parameter (unrecognised form)")
                missing = [p_ for p_ in src if p_ not in knames]
                facts = {"registry": f"self.{attr}", "key": ast.unparse(kdef), "source_parameters": src}
                label = f"ring registry self.{attr}: key identifies the source"
                if missing:
                    ctx.violation(rid, f, st, f"`self.{attr}` lets a later call re-use the ring buffer filed under `{ast.unparse(kdef)}`, but the key lacks "
                                              f"{missing} of the source path {src}: a call for another {'/'.join(missing)} of the same "
                                              f"{'/'.join(p_ for p_ in src if p_ not in missing)} finds the entry and reads a buffer that records a different "
                                              f"source signal", facts, label=label)
                else:
                    ctx.ok(rid, f, st, f"the registry key `{ast.unparse(kdef)}` contains every parameter that identifies the buffered source {src}", facts,
                           label=label)
    if n_reg == 0:
        f0 = funcs[0] if funcs else U.method(ctx, "_add_edge_buffer")
        ctx.ok(rid, f0, f0.node, "no registry on the object re-uses a ring buffer for later calls", label="ring registry: none", nontrivial=False)


def r7_conversion_memo_key(ctx, rid):
    """The time -> steps conversion depends on the step size of the network being compiled (and on the caller's discretize
    flag).  A result may therefore be remembered across calls only under a key that contains everything it was computed
    from: a container that outlives the NetworkGraph (class / module level) needs the step size in its key; any container
    needs the parameters.  Decided with the shared lint `persistent_memo_key` on exactly the conversion functions
    (_preprocess_delay, _process_delays and the same-module helpers they call); self-test: C09-m60.. / C09-t60.."""
    from ._pitfall_lints import persistent_memo_key
    pre = U.method(ctx, "_preprocess_delay")
    proc = U.method(ctx, "_process_delays")
    # the conversion must read the step size at all, else the statement above is void on this tree
    quot = [n for g in U.helper_scopes(ctx, pre) for n in walk_shallow(g.node)
            if isinstance(n, ast.Attribute) and n.attr == "step_size" and isinstance(n.value, ast.Name) and n.value.id == g.self_name]
    ctx.require(quot, f"{rid}: _preprocess_delay no longer reads self.step_size (re-derive what the conversion depends on)")
    funcs, seen = [], set()
    for anchor in (pre, proc):
        for g in U.helper_scopes(ctx, anchor):
            if g.qual not in seen:
                seen.add(g.qual)
                funcs.append(g)
    hits = persistent_memo_key(ctx, funcs)
    by_func = {}
    for g, node, why in hits:
        by_func.setdefault(g.qual, []).append((g, node, why))
    for g in funcs:
        stores = [st for st in walk_shallow(g.node) if isinstance(st, ast.Assign) and len(st.targets) == 1
                  and isinstance(st.targets[0], ast.Subscript) and not isinstance(st.targets[0].value, ast.Name)]
        if g.qual not in by_func:
            ctx.ok(rid, g, g.node, "no step count is remembered under a key that lacks the step size / the caller's flag" +
                   (f" ({len(stores)} store(s) into attribute containers checked)" if stores else " (nothing is cached: recomputed on every call)"),
                   {"attribute_stores": [norm(st) for st in stores]}, label="delay conversion: cached results are keyed by all inputs",
                   nontrivial=bool(stores))
            continue
        for k, (g_, node, why) in enumerate(by_func[g.qual]):
            tgt = node.targets[0].value if isinstance(node, ast.Assign) and isinstance(node.targets[0], ast.Subscript) else None
            cname = ast.unparse(tgt) if tgt is not None else "?"
            ctx.violation(rid, g, node, f"{why}.  Here: the number of ring-buffer steps of a delay is round(delay / step_size) of the network being "
                                        f"compiled; a network compiled later in the same process with another step size (or a call with another "
                                        f"discretize flag) would reuse the stale step count, so its edges read the source the wrong number of steps back",
                          {"container": cname}, label=f"delay conversion: memo `{cname}` keyed without all inputs" + ("" if k == 0 else f" #{k + 1}"))


RULES = [
    ("C09-R1", r1_ring_protocol, 11),      # 3 siblings x (order, roll, write, read) + slot agreement + Fortran hook = 14 today
    ("C09-R2", r2_capacity, 2),            # 3 today; a sibling whose list R1 rejects is skipped here
    ("C09-R3", r3_rounding, 3),            # the conversion + its call sites (5 today; at least one per caller: _process_delays, _add_matrix_delay)
    ("C09-R4", r4_default_delay_matches_write_slot, 2),
    ("C09-R5", r5_slot_order, 4),          # accumulation, >= 1 call site, re-pointing loop, flattening (6 today: 3 call sites)
    ("C09-R6", r_perm_identity, 1),
    ("C09-R8", r8_pair_code_stride, 1),
    ("C09-R9", r9_ring_registry_key, 1),
    ("C09-R7", r7_conversion_memo_key, 2),   # one obligation per conversion function (_preprocess_delay, _process_delays)
]
