"""C08 — extrinsic inputs are applied at the right time to the right unit (DESIGN §4 C08)."""
from __future__ import annotations

import ast
import re
from typing import Dict, List, Optional

from engine import AnalysisError
from engine.srcmodel import walk_shallow, norm, parent, ancestors
from engine.util import call_name, contains, fstring_template, alias_is_stable, inline_helper_call
from engine.cfg import stmt_of
from engine.inline import inlined
from engine.dataflow import assigned_value, target_names
from . import helpers as H
from .c02 import r1_interp
from .c06 import same_value, resolve_local, binding_loop, comp_generator_of, position_in_target, ordered, hosts_of, peel_node_list as _peel_node_list, \
    r8_column_index_by_presence

PROPERTY = "C08"
REL = "pyrates/frontend/template/circuit.py"
CLS = "CircuitTemplate"
CALLERS = ("run", "get_run_func", "get_jacobian_func")

EXPLANATION = (
    "That a trajectory is driven by the right sample at the right time is not decidable statically.  Decided (structural necessary "
    "conditions): R1 (= C02-R1) every source-defined `interp` helper normalises to the linear interpolant between adjacent samples.  "
    "R2 in CircuitTemplate._add_input every edge record targets `<t>/<op>/<var>` with t an element of the get_nodes result for the "
    "(op, var) of the addressed path, its source is the output variable of the freshly created input node, and a `source_idx` is the "
    "enumerate counter of that same node list, used only under a guard that compares the input's column count with the length of "
    "that list; the node list reaches the enumerate in the order get_nodes resolved it (copies are fine; sorted / set / reversed / "
    "unique / dict.fromkeys / [::-1] between look-up and wiring are reported).  R3 time grid: in create_input_node the adaptive branch builds linspace(0, T, inp.shape[0]) (T, inp = unmodified "
    "parameters, end point included), the emitted equation is `<lhs> = interp|interp_rows(t, <grid var>, <array var>)` with the grid "
    "variable declared with that linspace and the array variable declared with the array as value (interp_rows exactly on the 2-D "
    "branch; names held in locals are inlined), the fixed-step branch emits `<lhs> = index(<array var>, t)`, and the returned names are those of the node/operator/output variable built; _add_input "
    "forwards its adaptive flag, its time span and the canonicalised array to the matching parameters; each caller (run, "
    "get_run_func, get_jacobian_func - or the helper method it delegates the compilation to, followed through the call graph) passes the simulation time it integrates over (run) resp. inp.shape[0]*step_size, passes the "
    "same adaptive flag to _add_input and to apply(), takes target and array from one inputs.items() pair and compiles the template "
    "that _add_input returned.  R4 (= C15-R3 instance) CircuitTemplate.update_template forwards every constructor parameter to the "
    "new instance and _add_input returns update_template(edges=<the records>) of the template that holds the input node.  "
    "R5 (from C20-R4) _add_input warns or raises when the addressed path selects no node.  R6 every python-syntax `interp_rows` "
    "helper (and its numpy twin) interpolates column k for element k on the grid it was given - written column by column around interp(), or as ONE vectorised "
    "bracket interpolation of whole rows (searchsorted form / uniform-grid form: the two rows are neighbours, their weights add up to "
    "1, weight or query/position are clamped to the grid, the uniform position uses n - 1 intervals for n rows; decided with sympy on "
    "the inlined return expression).  R7 names of input operators are released (the module-level registry handed to get_unique_label emptied, shrunk or "
    "re-bound, directly or through an alias - effect origins over the whole package) only where the operator cache keyed by those "
    "names (class-level container of the operator template class) is emptied on the same path, in the function itself or in every "
    "caller.  R8 (= C06-R8) the per-edge column index written by _add_input is looked up by presence, never by truthiness.  NOT decided: alignment by execution "
    "(which step reads which sample inside the solvers: C03), summation of converging inputs (C01-R2), hierarchy nesting of the "
    "input node, Julia/Matlab helpers."
)
RULE_TEXT = ("instances = edge records of _add_input, branches/equations of create_input_node, the three callers, constructor "
             "parameters of CircuitTemplate, interp/interp_rows registry entries; non-trivial = decided by def-use identity, template "
             "parsing, dominance or algebra")
ASSUMPTIONS = [
    "numpy.linspace(0, T, N) places N samples uniformly on [0, T] including both ends (library semantics).",
    "Inside operator equations `t` is the solver's time argument (step counter on fixed-step paths, time on adaptive paths; C03/C10).",
]


# --------------------------------------------------------------------------------------------
# helpers
# --------------------------------------------------------------------------------------------

def _unmodified_param(ctx, f, e, pname: Optional[str] = None) -> bool:
    """e is a Name whose only reaching definition is a parameter of f (optionally: that parameter)."""
    if not isinstance(e, ast.Name) or comp_generator_of(e) is not None:
        return False
    if pname is not None and e.id != pname:
        return False
    defs = ctx.rd(f).defs_reaching(e)
    return len(defs) == 1 and isinstance(defs[0], ast.arguments) and e.id in f.params


def _bind_args(call: ast.Call, params: List[str]) -> Dict[str, ast.AST]:
    out = {}
    if any(isinstance(a, ast.Starred) for a in call.args) or any(k.arg is None for k in call.keywords):
        raise AnalysisError(f"call `{norm(call)}` uses */** arguments (unrecognised form)")
    for p, a in zip(params, call.args):
        out[p] = a
    for k in call.keywords:
        out[k.arg] = k.value
    return out


def _calls(f, name):
    return ordered([c for c in walk_shallow(f.node) if isinstance(c, ast.Call) and call_name(c) == name])


def _unpacked_from(ctx, f, name: ast.Name):
    """If `name` is bound by `a, b, ... = callee(...)`: (callee name, position, call) else None."""
    defs = ctx.rd(f).defs_reaching(name)
    if len(defs) != 1 or not isinstance(defs[0], ast.Assign) or not isinstance(defs[0].value, ast.Call):
        return None
    d = defs[0]
    for t in d.targets:
        pos = position_in_target(t, name.id)
        if pos is not None and not any(isinstance(x, ast.Starred) for x in t.elts):
            return call_name(d.value), pos, d.value
    return None


def _holes(js: ast.JoinedStr):
    return [v.value for v in js.values if isinstance(v, ast.FormattedValue)]


def _flatten_fstring(ctx, f, e: ast.AST, depth: int = 4) -> ast.AST:
    """The string expression `e` (f-string, str constant, or a local bound once to one) with every plain hole `{name}` replaced by
    the parts of the string that `name` is bound to, when that binding is a single stable `name = <f-string / str constant>`.
    The holes of the result are the *original* hole nodes, so that def-use queries on them still work."""
    if isinstance(e, ast.Name):
        v = _stable_string_def(ctx, f, e)
        if v is None:
            return e
        e = v
    if isinstance(e, ast.Constant) and isinstance(e.value, str):
        return ast.JoinedStr(values=[e])
    if not isinstance(e, ast.JoinedStr):
        return e
    values = []
    for part in e.values:
        if isinstance(part, ast.FormattedValue) and part.conversion == -1 and part.format_spec is None and isinstance(part.value, ast.Name) \
                and depth > 0:
            v = _stable_string_def(ctx, f, part.value)
            if v is not None:
                inner = _flatten_fstring(ctx, f, v, depth - 1)
                if isinstance(inner, ast.JoinedStr):
                    values.extend(inner.values)
                    continue
        values.append(part)
    new = ast.JoinedStr(values=values)
    ast.copy_location(new, e)
    new._parent = getattr(e, "_parent", None)
    return new


def _stable_string_def(ctx, f, name: ast.Name):
    if comp_generator_of(name) is not None:
        return None
    defs = ctx.rd(f).defs_reaching(name)
    if len(defs) != 1 or isinstance(defs[0], ast.arguments):
        return None
    v = assigned_value(defs[0], name.id)
    if isinstance(v, ast.JoinedStr) or (isinstance(v, ast.Constant) and isinstance(v.value, str)):
        if alias_is_stable(ctx, f, defs[0], name, v):
            return v
    return None


def _cmp_parts(test: ast.AST):
    """(`left-text`, op class, constant) of a comparison between an expression and a numeric constant, operands normalised so that
    the constant is on the right; None otherwise."""
    if not (isinstance(test, ast.Compare) and len(test.ops) == 1):
        return None
    l, r, op = test.left, test.comparators[0], type(test.ops[0])
    flip = {ast.Lt: ast.Gt, ast.Gt: ast.Lt, ast.LtE: ast.GtE, ast.GtE: ast.LtE, ast.Eq: ast.Eq, ast.NotEq: ast.NotEq}
    if isinstance(l, ast.Constant) and not isinstance(r, ast.Constant):
        if op not in flip:
            return None
        l, r, op = r, l, flip[op]
    if not (isinstance(r, ast.Constant) and isinstance(r.value, (int, float)) and not isinstance(r.value, bool)):
        return None
    return ast.unparse(l), op, r.value


def _expand_flag(ctx, f, test: ast.AST, depth: int = 3) -> ast.AST:
    """A test in which flags (locals bound once, stably, to a test) are replaced by the test they hold; `not` is looked through."""
    if isinstance(test, ast.UnaryOp) and isinstance(test.op, ast.Not):
        return ast.UnaryOp(op=ast.Not(), operand=_expand_flag(ctx, f, test.operand, depth))
    if isinstance(test, ast.Name) and depth > 0 and comp_generator_of(test) is None:
        dfs = ctx.rd(f).defs_reaching(test)
        tv = assigned_value(dfs[0], test.id) if len(dfs) == 1 and not isinstance(dfs[0], ast.arguments) else None
        if tv is not None and isinstance(tv, (ast.Compare, ast.UnaryOp, ast.Name, ast.BoolOp)) and alias_is_stable(ctx, f, dfs[0], test, tv):
            return _expand_flag(ctx, f, tv, depth - 1)
    return test


def _ndim_test(test: ast.AST, arr: str) -> Optional[bool]:
    """True if the test holds exactly for arrays with more than one dimension, False if exactly for at most one dimension,
    None when it is neither (tests of `<arr>.ndim` / `len(<arr>.shape)` against a constant; `not` is looked through)."""
    if isinstance(test, ast.UnaryOp) and isinstance(test.op, ast.Not):
        r = _ndim_test(test.operand, arr)
        return None if r is None else not r
    p = _cmp_parts(test)
    if p is None or p[0] not in (f"{arr}.ndim", f"len({arr}.shape)", f"np.ndim({arr})", f"ndim({arr})"):
        return None
    _, op, c = p
    if (op is ast.Gt and c == 1) or (op is ast.GtE and c == 2) or (op is ast.NotEq and c == 1) or (op is ast.Eq and c == 2):
        return True
    if (op is ast.LtE and c == 1) or (op is ast.Lt and c == 2) or (op is ast.Eq and c == 1) or (op is ast.NotEq and c == 2):
        return False
    return None


def _counts_samples(ctx, f, e, arr: str) -> bool:
    """The expression is (or chooses) the length of the FIRST axis of the input array: `arr.shape[0]`, `len(arr)`."""
    e = resolve_local(ctx, f, e)
    if isinstance(e, ast.Call):
        body = inline_helper_call(ctx, f, e)
        if body is not None:
            e = body
    for n in ast.walk(e):
        if isinstance(n, ast.Subscript) and isinstance(n.value, ast.Attribute) and n.value.attr == "shape" and isinstance(n.value.value, ast.Name) \
                and n.value.value.id == arr and ast.unparse(n.slice) == "0":
            return True
        if isinstance(n, ast.Call) and isinstance(n.func, ast.Name) and n.func.id == "len" and len(n.args) == 1 \
                and isinstance(n.args[0], ast.Name) and n.args[0].id == arr:
            return True
    return False


def _is_col_count(ctx, f, e, arr: str) -> bool:
    """`inp.shape[-1] if inp.ndim > 1 else 1` (or inp.shape[-1] / inp.shape[1])."""
    e = resolve_local(ctx, f, e)
    if isinstance(e, ast.Call):
        # the count may be computed by a one-expression helper (`n = _columns(inp)`): look at the expression it returns
        body = inline_helper_call(ctx, f, e)
        if body is not None:
            e = body

    def last_dim(x):
        return isinstance(x, ast.Subscript) and isinstance(x.value, ast.Attribute) and x.value.attr == "shape" \
            and isinstance(x.value.value, ast.Name) and x.value.value.id == arr and ast.unparse(x.slice) in ("-1", "1")
    def one(x):
        return isinstance(x, ast.Constant) and x.value == 1 and not isinstance(x.value, bool)
    if last_dim(e):
        return True
    if not isinstance(e, ast.IfExp):
        return False
    multi = _ndim_test(e.test, arr)
    if multi is True:
        return last_dim(e.body) and one(e.orelse)
    if multi is False:
        return one(e.body) and last_dim(e.orelse)
    return False


_FUNC_NODES = (ast.FunctionDef, ast.AsyncFunctionDef, ast.Lambda)


def _implied_atoms(ctx, f, test: ast.AST, positive: bool, depth: int = 4):
    """Equality comparisons that necessarily hold when `test` evaluates to `positive`: conjuncts of an `and` (disjuncts of an `or`
    when the test is known to be false), through `not`, through locals bound once to a test; `a != b` known false counts as a == b."""
    if isinstance(test, ast.UnaryOp) and isinstance(test.op, ast.Not):
        return _implied_atoms(ctx, f, test.operand, not positive, depth)
    if isinstance(test, ast.BoolOp):
        if isinstance(test.op, ast.And) == positive:
            out = []
            for v in test.values:
                out += _implied_atoms(ctx, f, v, positive, depth)
            return out
        return []
    if isinstance(test, ast.Name) and depth > 0 and comp_generator_of(test) is None:
        defs = ctx.rd(f).defs_reaching(test)
        if len(defs) == 1 and not isinstance(defs[0], ast.arguments):
            v = assigned_value(defs[0], test.id)
            if isinstance(v, (ast.BoolOp, ast.Compare, ast.UnaryOp, ast.Name)) and alias_is_stable(ctx, f, defs[0], test, v):
                return _implied_atoms(ctx, f, v, positive, depth - 1)
        return []
    if isinstance(test, ast.Compare) and len(test.ops) == 1:
        if (isinstance(test.ops[0], ast.Eq) and positive) or (isinstance(test.ops[0], ast.NotEq) and not positive):
            return [test]
    return []


def _node_lookup(ctx, f, rid):
    """The statement `<nodes> = <get_nodes(...) possibly wrapped>` of _add_input: (statement, the get_nodes call, wrappers that
    change the order / drop duplicates).  AnalysisError when the look-up is wrapped in something that cannot be classified."""
    cands = [st for st in walk_shallow(f.node) if isinstance(st, ast.Assign) and len(st.targets) == 1 and isinstance(st.targets[0], ast.Name)
             and any(isinstance(c, ast.Call) and call_name(c) == "get_nodes" for c in ast.walk(st.value))]
    ctx.require(len(cands) == 1, f"{rid}: expected one `<nodes> = self.get_nodes(...)` in _add_input, found {len(cands)}")
    st = cands[0]
    inner, changes = _peel_node_list(st.value)
    if not (isinstance(inner, ast.Call) and call_name(inner) == "get_nodes"):
        raise AnalysisError(f"{rid}: the node look-up `{norm(st)}` is wrapped in an operation that cannot be classified as order-keeping "
                            f"or order-changing (unrecognised form)")
    return st, inner, changes


# --------------------------------------------------------------------------------------------
# R2 — column i goes to target node i
# --------------------------------------------------------------------------------------------

def r2_column_to_node(ctx, rid):
    f = ctx.repo.get_func(REL, f"{CLS}._add_input")
    tn_assign, gn, reordered = _node_lookup(ctx, f, rid)
    vid = {k.arg: k.value for k in gn.keywords}.get("var_identifier") or (gn.args[1] if len(gn.args) > 1 else None)
    ctx.require(isinstance(vid, ast.Tuple) and len(vid.elts) == 2, f"{rid}: `{norm(gn)}` has no (op, var) var_identifier (unrecognised form)")
    inp_param = f.params[2] if len(f.params) > 2 else None
    ctx.require(inp_param is not None, f"{rid}: _add_input lost its array parameter")

    reorders = [(tn_assign, nm, eff_) for nm, eff_ in reordered]       # (where, wrapper, what it does to the node list)

    def is_target_list(e, depth=4, note=True) -> bool:
        """e is the list the look-up produced: the local itself, a copy (list/tuple/[:]) or a local re-bound to one; wrappers that
        change the order or drop entries are accepted as 'the list' too but recorded - they are reported as such below."""
        inner, changes = _peel_node_list(e)
        if not isinstance(inner, ast.Name) or comp_generator_of(inner) is not None or depth <= 0:
            return False
        defs = ctx.rd(f).defs_reaching(inner)
        if len(defs) != 1:
            return False
        if defs[0] is tn_assign:
            good = True
        else:
            v = assigned_value(defs[0], inner.id)
            good = v is not None and is_target_list(v, depth - 1, note)
        if good and note:
            for nm, eff_ in changes:
                if not any(w is e and n_ == nm for w, n_, _ in reorders):
                    reorders.append((e, nm, eff_))
        return good

    def weight_dict(e):
        return isinstance(e, ast.Dict) and any(isinstance(k, ast.Constant) and k.value == "weight" for k in e.keys)

    # an edge record is a 4-tuple whose last element is the attribute dict {'weight': ...}: written in place, or a local that is bound
    # to such a dict and possibly completed by `<local>['source_idx'] = ...` before the tuple is built
    records = []          # (tuple node, attrs: key -> value expr, sites: key -> node whose guards decide whether the key is present)
    for t in ordered([t for t in walk_shallow(f.node) if isinstance(t, ast.Tuple) and len(t.elts) == 4]):
        d = t.elts[3]
        if weight_dict(d):
            attrs = {k.value: v for k, v in zip(d.keys, d.values) if isinstance(k, ast.Constant)}
            ctx.require(all(k is not None for k in d.keys), f"{rid}: edge attributes `{norm(d)}` use ** unpacking (unrecognised form)")
            records.append((t, attrs, {k: t for k in attrs}))
        elif isinstance(d, ast.Name) and comp_generator_of(d) is None:
            defs = ctx.rd(f).defs_reaching(d)
            if len(defs) != 1:
                continue
            dv = assigned_value(defs[0], d.id)
            if not weight_dict(dv):
                continue
            ctx.require(all(k is not None for k in dv.keys), f"{rid}: edge attributes `{norm(dv)}` use ** unpacking (unrecognised form)")
            attrs = {k.value: v for k, v in zip(dv.keys, dv.values) if isinstance(k, ast.Constant)}
            sites = {k: t for k in attrs}
            for n in walk_shallow(f.node):
                if isinstance(n, ast.Name) and n.id == d.id and n is not d and isinstance(n.ctx, ast.Load) \
                        and any(x is defs[0] for x in ctx.rd(f).defs_reaching(n)):
                    par = parent(n)
                    st = stmt_of(ctx.cfg(f), n)
                    if isinstance(par, ast.Subscript) and par.value is n and isinstance(par.ctx, ast.Store) and isinstance(st, ast.Assign) \
                            and len(st.targets) == 1 and st.targets[0] is par and isinstance(par.slice, ast.Constant) \
                            and isinstance(par.slice.value, str) and par.slice.value not in attrs:
                        attrs[par.slice.value] = st.value
                        sites[par.slice.value] = st
                    else:
                        raise AnalysisError(f"{rid}: the edge attribute dict `{d.id}` is also used in `{norm(st)}` (unrecognised form)")
            records.append((t, attrs, sites))
    ctx.require(records, f"{rid}: no edge record (source, target, template, {{'weight': ...}}) found in _add_input")
    n_idx = 0
    for no, (rec, attrs, sites) in enumerate(records, 1):
        tag = f"edge record {no} ({'per-column' if 'source_idx' in attrs else 'broadcast'})"
        # ---- target path
        tgt = _flatten_fstring(ctx, f, rec.elts[1])
        if not (isinstance(tgt, ast.JoinedStr) and re.fullmatch(r"⟨[^⟩]*⟩/⟨[^⟩]*⟩/⟨[^⟩]*⟩", fstring_template(tgt) or "")):
            raise AnalysisError(f"{rid}: edge target `{norm(tgt)}` is not an f-string `<node>/<op>/<var>` (unrecognised form)")
        th, oh, vh = _holes(tgt)
        b = binding_loop(ctx, f, th) if isinstance(th, ast.Name) else None
        lst = counter_gen = None
        counter_pos = 0
        if b is not None:
            target, it, node = b
            if isinstance(it, ast.Call) and call_name(it) == "enumerate" and isinstance(it.func, ast.Name) and len(it.args) == 1 \
                    and isinstance(target, ast.Tuple) and len(target.elts) == 2 and position_in_target(target, th.id) == 1:
                lst, counter_gen = it.args[0], node
            elif isinstance(target, ast.Name):
                lst = it
        else:
            # index loop: `<list>[i]` (directly or through a local) with i bound by `for i in range(len(<list>))`
            th_r = resolve_local(ctx, f, th)
            if isinstance(th_r, ast.Subscript) and isinstance(th_r.slice, ast.Name) and isinstance(th_r.value, ast.Name):
                ib = binding_loop(ctx, f, th_r.slice)
                if ib is not None and isinstance(ib[0], ast.Name) and isinstance(ib[1], ast.Call) and isinstance(ib[1].func, ast.Name) \
                        and ib[1].func.id == "range" and len(ib[1].args) == 1 and not ib[1].keywords \
                        and isinstance(ib[1].args[0], ast.Call) and call_name(ib[1].args[0]) == "len" and len(ib[1].args[0].args) == 1 \
                        and same_value(ctx, f, ib[1].args[0].args[0], th_r.value):
                    b, lst, counter_gen, counter_pos = ib, th_r.value, ib[2], None
        why = None
        if b is None:
            why = f"the node part `{norm(th)}` is not a loop variable over the resolved node list"
        elif lst is None or not is_target_list(lst):
            why = (f"the node part iterates `{norm(b[1])}`, not the list returned by `{norm(gn)}` (a different order or selection "
                   f"sends the input to other nodes than the path addresses)")
        elif not (same_value(ctx, f, oh, vid.elts[0]) and same_value(ctx, f, vh, vid.elts[1])):
            why = (f"the edge targets `{norm(oh)}/{norm(vh)}` but the nodes were resolved for `{norm(vid.elts[0])}/{norm(vid.elts[1])}`")
        if why is None:
            ctx.ok(rid, f, rec, "the edge targets <t>/<op>/<var> for every t of the node list resolved for that (op, var)",
                   {"target": norm(tgt), "resolved_by": norm(gn)}, label=f"{tag}: target path")
        else:
            ctx.violation(rid, f, rec, f"the input edge does not address the variable the input path names: {why}", {"target": norm(tgt)},
                          label=f"{tag}: target path")
        # ---- source path = output variable of the new input node
        src = _flatten_fstring(ctx, f, rec.elts[0])
        if not (isinstance(src, ast.JoinedStr) and re.fullmatch(r"⟨[^⟩]*⟩/⟨[^⟩]*⟩/⟨[^⟩]*⟩", fstring_template(src) or "")):
            raise AnalysisError(f"{rid}: edge source `{norm(src)}` is not an f-string `<node>/<op>/<var>` (unrecognised form)")
        nh, sh_op, sh_var = _holes(src)
        got = [(_unpacked_from(ctx, f, h) if isinstance(h, ast.Name) else None) for h in (nh, sh_op, sh_var)]
        good = got[0] is not None and got[0][:2] == ("_add_input_node", 0) and got[1] is not None and got[1][:2] == ("create_input_node", 1) \
            and got[2] is not None and got[2][:2] == ("create_input_node", 2)
        if good:
            # the node key handed to _add_input_node is element 0 and the node element 3 of create_input_node's result
            an = got[0][2]
            a0 = an.args[0] if an.args else None
            a1 = an.args[1] if len(an.args) > 1 else None
            u0 = _unpacked_from(ctx, f, a0) if isinstance(a0, ast.Name) else None
            u1 = _unpacked_from(ctx, f, a1) if isinstance(a1, ast.Name) else None
            good = u0 is not None and u0[:2] == ("create_input_node", 0) and u1 is not None and u1[:2] == ("create_input_node", 3) \
                and u0[2] is got[1][2] and u1[2] is got[1][2] and got[2][2] is got[1][2]
        if good:
            ctx.ok(rid, f, rec, "the edge source is <input node>/<input operator>/<output variable> of the input node created for this array",
                   {"source": norm(src)}, label=f"{tag}: source path")
        else:
            ctx.violation(rid, f, rec, f"the edge source `{norm(src)}` is not (node key from _add_input_node, operator key, output variable) of "
                                       f"the create_input_node call: the target would be driven by another variable", {"source": norm(src)},
                          label=f"{tag}: source path")
        # ---- per-column wiring
        if "source_idx" not in attrs:
            continue
        n_idx += 1
        sidx = attrs["source_idx"]
        cb = binding_loop(ctx, f, sidx) if isinstance(sidx, ast.Name) else None
        is_counter = cb is not None and counter_gen is not None and cb[2] is counter_gen \
            and (position_in_target(cb[0], sidx.id) == 0 if counter_pos == 0 else isinstance(cb[0], ast.Name))
        if is_counter and why is None:
            ctx.ok(rid, f, rec, "source_idx is the enumerate counter of the node list the edge target is taken from (column i -> node i)",
                   {"source_idx": norm(sidx), "iteration": f"for {ast.unparse(cb[0])} in {ast.unparse(cb[1])}"}, label=f"{tag}: source_idx")
        else:
            ctx.violation(rid, f, rec, f"source_idx is `{norm(sidx)}`, not the position of the target node in the resolved node list: node i "
                                       f"does not receive column i of the input array", {"source_idx": norm(sidx)}, label=f"{tag}: source_idx")
        # guard: the conditions under which the record carries a source_idx (tests of the enclosing if-statements, with their
        # polarity, looked through `not`, and/or and locals that hold a test)
        site = sites["source_idx"]
        found = None
        other_len = None
        undecided = None
        for anc in ancestors(site):
            if isinstance(anc, ast.If):
                if any(contains(x, site) for x in anc.body):
                    pol = True
                elif any(contains(x, site) for x in anc.orelse):
                    pol = False
                else:
                    continue
            elif isinstance(anc, ast.IfExp):
                if contains(anc.body, site):
                    pol = True
                elif contains(anc.orelse, site):
                    pol = False
                else:
                    continue
            elif isinstance(anc, _FUNC_NODES):
                break
            else:
                continue
            for c in _implied_atoms(ctx, f, anc.test, pol):
                if isinstance(c, ast.Compare) and len(c.ops) == 1:
                    for a_, b_ in ((c.left, c.comparators[0]), (c.comparators[0], c.left)):
                        if isinstance(a_, ast.Call) and call_name(a_) == "len" and len(a_.args) == 1:
                            if is_target_list(a_.args[0], note=False):
                                if _is_col_count(ctx, f, b_, inp_param):
                                    found = c
                                elif _counts_samples(ctx, f, b_, inp_param):
                                    other_len = c          # number of time samples (first axis), not of columns
                                else:
                                    undecided = c
                            else:
                                other_len = c
        if found is None and undecided is not None:
            raise AnalysisError(f"{rid}: cannot tell whether `{norm(undecided)}` compares the node list with the number of input columns "
                                f"(unrecognised form of the column count)")
        if found is not None:
            ctx.ok(rid, f, rec, "per-column wiring only happens when the column count equals the length of the same node list",
                   {"guard": norm(found)}, label=f"{tag}: guard")
        else:
            ctx.violation(rid, f, rec, "per-column wiring is not guarded by `number of columns == len(resolved node list)`"
                                       + (f" (the guard compares `{norm(other_len)}`)" if other_len is not None else "")
                                       + ": columns would be attached to a node list of another length", label=f"{tag}: guard")
    ctx.require(n_idx >= 1, f"{rid}: no edge record with a per-column 'source_idx' found in _add_input")
    # ---- column i belongs to the i-th node in the order get_nodes resolved the path (definition order of the circuit)
    if reorders:
        where, nm, eff_ = reorders[0]
        ctx.violation(rid, f, where if isinstance(where, ast.stmt) else stmt_of(ctx.cfg(f), where),
                      f"the node list the input columns are distributed over is passed through `{nm}`, which {eff_}: column i of an (N, n) "
                      f"input is wired to entry i of that list, i.e. no longer to the i-th node in the order the circuit defines them (and "
                      f"get_nodes resolves the path), so units are driven by each other's input", {"operations": [n_ for _, n_, _ in reorders]},
                      label="node list keeps the resolution order")
    else:
        ctx.ok(rid, f, tn_assign, "the node list the columns are distributed over is the get_nodes result in its own order (at most copied)",
               label="node list keeps the resolution order")


# --------------------------------------------------------------------------------------------
# R3 — time grid, equations, forwarding
# --------------------------------------------------------------------------------------------

_EQ = re.compile(r"^⟨(?P<lhs>[^⟩]+)⟩\s*=\s*(?P<fn>\w+)\((?P<args>.*)\)\s*$")


def _dict_entries(d: ast.Dict):
    return list(zip(d.keys, d.values))


def _entry_value(entry: ast.AST, field: str):
    if isinstance(entry, ast.Dict):
        for k, v in zip(entry.keys, entry.values):
            if isinstance(k, ast.Constant) and k.value == field:
                return v
    return None


def _items_iteration(it: ast.AST):
    """The dictionary expression whose (key, value) pairs the loop runs over: `d.items()`, `(d or {}).items()`,
    `d.items() if <cond> else ()` / `() if <cond> else d.items()` (empty alternative), `list(d.items())`; None otherwise."""
    def empty(e):
        return (isinstance(e, (ast.Tuple, ast.List, ast.Dict)) and not (e.elts if not isinstance(e, ast.Dict) else e.keys)) \
            or (isinstance(e, ast.Call) and _items_iteration(e) is not None and isinstance(e.func.value, ast.Dict) and not e.func.value.keys)
    if isinstance(it, ast.Call) and isinstance(it.func, ast.Attribute) and it.func.attr == "items" and not it.args and not it.keywords:
        return it.func.value
    if isinstance(it, ast.Call) and isinstance(it.func, ast.Name) and it.func.id in ("list", "tuple", "iter") and len(it.args) == 1 \
            and not it.keywords:
        return _items_iteration(it.args[0])
    if isinstance(it, ast.IfExp):
        for x, y in ((it.body, it.orelse), (it.orelse, it.body)):
            if _items_iteration(x) is not None and empty(y):
                return _items_iteration(x)
    return None


def _beta_reduce(ctx, f, e: ast.AST) -> ast.AST:
    """`fn(args)` where the local `fn` is bound once to a lambda: the lambda's body with its parameters replaced by the ORIGINAL
    argument nodes (all other nodes of the body stay the original ones, so def-use queries keep working)."""
    import copy
    if not (isinstance(e, ast.Call) and isinstance(e.func, ast.Name) and not e.keywords
            and not any(isinstance(a, ast.Starred) for a in e.args)):
        return e
    lam = resolve_local(ctx, f, e.func)
    if not isinstance(lam, ast.Lambda):
        return e
    a = lam.args
    params = [x.arg for x in a.posonlyargs + a.args]
    if a.vararg or a.kwarg or a.kwonlyargs or len(params) != len(e.args):
        return e
    binding = dict(zip(params, e.args))

    def S(n):
        if isinstance(n, ast.Name) and isinstance(n.ctx, ast.Load) and n.id in binding:
            return binding[n.id]
        if isinstance(n, ast.Lambda) or not isinstance(n, ast.AST):
            return n
        kids = [(fld, val) for fld, val in ast.iter_fields(n) if isinstance(val, (ast.AST, list))]
        new_vals = {}
        changed = False
        for fld, val in kids:
            nv = [S(x) if isinstance(x, ast.AST) else x for x in val] if isinstance(val, list) else S(val)
            if (isinstance(val, list) and any(x is not y for x, y in zip(nv, val))) or (not isinstance(val, list) and nv is not val):
                changed = True
            new_vals[fld] = nv
        if not changed:
            return n
        new = copy.copy(n)
        for fld, nv in new_vals.items():
            setattr(new, fld, nv)
        return new
    return S(lam.body)


def _flows_from(ctx, f, name: ast.Name, stmt, depth: int = 5) -> bool:
    """Some definition that reaches this use of a local is `stmt`, directly or through plain re-bindings `a = b`."""
    if depth <= 0 or comp_generator_of(name) is not None:
        return False
    for d in ctx.rd(f).defs_reaching(name):
        if d is stmt:
            return True
        v = assigned_value(d, name.id)
        if isinstance(v, ast.Name) and _flows_from(ctx, f, v, stmt, depth - 1):
            return True
    return False


def _input_array(ctx, g, e, p_inp: str):
    """Is `e` the array parameter of create_input_node, unchanged - or reduced to fewer samples in a licensed way?
    (True, None) / (False, reason | None).  A licensed reduction keeps the first and the last sample (`inp = inp[[0, -1]]`) under a
    condition that establishes that the input does not change over TIME (axis 0): diff / ptp along axis=0, all rows equal to the
    first row.  The same test along the default (last) axis compares the columns of one sample with each other, not the samples."""
    if not (isinstance(e, ast.Name) and e.id == p_inp and comp_generator_of(e) is None):
        return False, None
    for d in ctx.rd(g).defs_reaching(e):
        if isinstance(d, ast.arguments):
            continue
        v = assigned_value(d, e.id)
        ends = isinstance(v, ast.Subscript) and isinstance(v.value, ast.Name) and v.value.id == p_inp \
            and isinstance(v.slice, (ast.List, ast.Tuple)) and [ast.unparse(x) for x in v.slice.elts] == ["0", "-1"]
        if not ends:
            return False, None
        ok_inner, why_inner = _input_array(ctx, g, v.value, p_inp)
        if not ok_inner:
            return False, why_inner
        evidence_time, evidence_other = None, None
        for anc in ancestors(d):
            if not (isinstance(anc, ast.If) and any(contains(b, d) for b in anc.body)):
                continue
            conj = list(anc.test.values) if isinstance(anc.test, ast.BoolOp) and isinstance(anc.test.op, ast.And) else [anc.test]
            for c in conj:
                exprs = [c]
                if isinstance(c, ast.Call):
                    body = inline_helper_call(ctx, g, c)
                    if body is not None:
                        exprs.append(body)
                for x in exprs:
                    for n in ast.walk(x):
                        if isinstance(n, ast.Call) and call_name(n) in ("diff", "ptp", "std", "var") and n.args \
                                and isinstance(n.args[0], ast.Name) and n.args[0].id == p_inp:
                            ax = {k.arg: k.value for k in n.keywords}.get("axis")
                            if ax is None and call_name(n) == "diff" and len(n.args) >= 3:
                                ax = n.args[2]
                            if isinstance(ax, ast.Constant) and ax.value == 0:
                                evidence_time = n
                            else:
                                evidence_other = n
                        elif isinstance(n, ast.Compare) and len(n.ops) == 1 and isinstance(n.ops[0], (ast.Eq, ast.NotEq)):
                            sides = [ast.unparse(n.left), ast.unparse(n.comparators[0])]
                            if p_inp in sides and (f"{p_inp}[0]" in sides or f"{p_inp}[0, :]" in sides or f"{p_inp}[:1]" in sides):
                                evidence_time = n
        if evidence_time is not None:
            continue
        if evidence_other is not None:
            return False, (f"`{norm(d)}` keeps only the first and the last sample when `{ast.unparse(evidence_other)}` finds no change - "
                           f"but without `axis=0` that looks along the LAST axis: for an (N, n) input it compares the columns of one "
                           f"sample with each other, so a time-varying input whose columns are equal is taken for constant and the "
                           f"model is driven by a straight line between its end points")
        return False, (f"`{norm(d)}` drops samples of the input without a test that it does not change over time (axis 0)")
    return True, None


def r3_time_grid(ctx, rid):
    g = ctx.repo.get_func(REL, "create_input_node")
    ctx.require(len(g.params) >= 4, f"{rid}: create_input_node signature changed: {g.params}")
    p_var, p_inp, p_cont, p_T = g.params[:4]
    # the function distinguishes the two cases by testing its flag parameter - once, or several times when the parts that differ
    # are set up in separate if-statements; `adaptive` / `fixed` collect the statements executed only for flag true / false
    tops = [st for st in g.node.body if isinstance(st, ast.If) and isinstance(st.test, (ast.Name, ast.UnaryOp))
            and p_cont in {n.id for n in ast.walk(st.test) if isinstance(n, ast.Name)}]
    ctx.require(tops, f"{rid}: create_input_node no longer branches on `{p_cont}` (unrecognised form)")
    adaptive, fixed = [], []
    for top in tops:
        if not all(_unmodified_param(ctx, g, n, p_cont) for n in ast.walk(top.test) if isinstance(n, ast.Name)):
            raise AnalysisError(f"{rid}: `{p_cont}` is re-bound before `{norm(top)}` (unrecognised form)")
        if isinstance(top.test, ast.Name):
            adaptive, fixed = adaptive + top.body, fixed + top.orelse
        elif isinstance(top.test.op, ast.Not) and isinstance(top.test.operand, ast.Name):
            adaptive, fixed = adaptive + top.orelse, fixed + top.body
        else:
            raise AnalysisError(f"{rid}: unrecognised branch test `{norm(top)}`")
    ctx.require(adaptive and fixed, f"{rid}: create_input_node lost one of its two branches")

    def in_block(block, n):
        return any(contains(b, n) for b in block)

    # ---- the grid
    lins = [c for c in walk_shallow(g.node) if isinstance(c, ast.Call) and call_name(c) == "linspace" and in_block(adaptive, c)]
    ctx.require(len(lins) == 1, f"{rid}: expected one linspace(...) in the interpolating branch of create_input_node, found {len(lins)} "
                                f"(unrecognised form of the time grid)")
    lin = lins[0]
    lin_st = stmt_of(ctx.cfg(g), lin)
    ctx.require(isinstance(lin_st, ast.Assign) and lin_st.value is lin and len(lin_st.targets) == 1 and isinstance(lin_st.targets[0], ast.Name),
                f"{rid}: the grid is not bound by `<name> = linspace(...)` (unrecognised form)")
    kw = {k.arg: k.value for k in lin.keywords}
    a = list(lin.args)
    start = a[0] if len(a) > 0 else kw.get("start")
    stop = a[1] if len(a) > 1 else kw.get("stop")
    num = a[2] if len(a) > 2 else kw.get("num")
    ctx.require(start is not None and stop is not None and num is not None, f"{rid}: `{norm(lin)}` lacks start/stop/num (unrecognised form)")
    start_ok = isinstance(start, ast.Constant) and not isinstance(start.value, (str, bool)) and float(start.value) == 0.0
    stop_ok = _unmodified_param(ctx, g, stop, p_T)
    num_r = resolve_local(ctx, g, num)
    num_ok = (isinstance(num_r, ast.Subscript) and isinstance(num_r.value, ast.Attribute) and num_r.value.attr == "shape"
              and _input_array(ctx, g, num_r.value.value, p_inp)[0] and isinstance(num_r.slice, ast.Constant) and num_r.slice.value == 0) \
        or (isinstance(num_r, ast.Call) and call_name(num_r) == "len" and len(num_r.args) == 1 and _input_array(ctx, g, num_r.args[0], p_inp)[0])
    ep = kw.get("endpoint")
    ep_ok = ep is None or (isinstance(ep, ast.Constant) and ep.value is True)
    facts = {"grid": norm(lin), "start_ok": start_ok, "stop_is_T": stop_ok, "num_is_len_inp": num_ok, "endpoint_included": ep_ok}
    if start_ok and stop_ok and num_ok and ep_ok:
        ctx.ok(rid, g, lin_st, f"the interpolation grid is linspace(0, {p_T}, {p_inp}.shape[0]): the samples are placed uniformly on [0, T]",
               facts, label="adaptive: time grid")
    elif start_ok and stop_ok and ep_ok and any(_input_array(ctx, g, n_, p_inp)[1] for n_ in ast.walk(num_r)
                                                if isinstance(n_, ast.Name) and n_.id == p_inp):
        why_ = [w_ for w_ in (_input_array(ctx, g, n_, p_inp)[1] for n_ in ast.walk(num_r) if isinstance(n_, ast.Name) and n_.id == p_inp) if w_][0]
        ctx.violation(rid, g, lin_st, f"the interpolation grid is built for an array whose samples were reduced without licence: {why_}",
                      facts, label="adaptive: time grid")
    else:
        ctx.violation(rid, g, lin_st, f"the interpolation grid `{norm(lin)}` is not linspace(0, {p_T}, {p_inp}.shape[0]) with the end point "
                                      f"included: sample k would be placed at another time than k*T/(N-1), i.e. the input is stretched or "
                                      f"shifted in time on every adaptive solver", facts, label="adaptive: time grid")
    grid_name = lin_st.targets[0].id

    # ---- equations and variable tables per branch
    def entry_field(entry, field):
        """Field of a variable specification that is a dict literal, in place or bound once to a local."""
        if isinstance(entry, ast.Name):
            entry = resolve_local(ctx, g, entry)
        return _entry_value(entry, field)

    def is_table(st):
        return isinstance(st, ast.Assign) and isinstance(st.value, ast.Dict) and len(st.targets) == 1 and isinstance(st.targets[0], ast.Name) \
            and any(_entry_value(v, "vtype") is not None for v in st.value.values)

    def conditional(n):
        return in_block(adaptive, n) or in_block(fixed, n)

    def table_of(block, bname):
        """[(key, specification)] of the variable table the operator gets in this case: the dict literal written in the branch, or
        one shared literal plus the entries stored into it (`table[k] = spec`, `table.update({...})`) unconditionally or in the branch."""
        all_tabs = [st for st in walk_shallow(g.node) if is_table(st)]
        cands = [st for st in all_tabs if in_block(block, st)] or [st for st in all_tabs if not conditional(st)]
        ctx.require(len(cands) == 1, f"{rid}: expected one variable table for the {bname} case, found {len(cands)}")
        tst = cands[0]
        ctx.require(all(k is not None for k in tst.value.keys), f"{rid}: `{norm(tst)}` uses ** unpacking (unrecognised form)")
        pairs = list(zip(tst.value.keys, tst.value.values))
        name = tst.targets[0].id
        for n in ordered(walk_shallow(g.node)):
            if not (isinstance(n, ast.Name) and n.id == name and isinstance(n.ctx, ast.Load) and comp_generator_of(n) is None
                    and any(d is tst for d in ctx.rd(g).defs_reaching(n))):
                continue
            par, st = parent(n), stmt_of(ctx.cfg(g), n)
            mine = in_block(block, st) or not conditional(st)
            if isinstance(par, ast.Subscript) and par.value is n and isinstance(par.ctx, ast.Store) and isinstance(st, ast.Assign) \
                    and len(st.targets) == 1 and st.targets[0] is par:
                if mine:
                    pairs.append((par.slice, st.value))
            elif isinstance(par, ast.Attribute) and par.value is n and isinstance(parent(par), ast.Call) and parent(par).func is par \
                    and par.attr in ("update", "pop", "setdefault", "clear", "popitem", "__setitem__", "__delitem__"):
                call = parent(par)
                if par.attr == "update" and len(call.args) == 1 and not call.keywords and isinstance(call.args[0], ast.Dict) \
                        and all(k is not None for k in call.args[0].keys):
                    if mine:
                        pairs += list(zip(call.args[0].keys, call.args[0].values))
                else:
                    raise AnalysisError(f"{rid}: the variable table is modified by `{norm(call)}` (unrecognised form)")
            elif isinstance(par, ast.Subscript) and isinstance(par.ctx, (ast.Store, ast.Del)):
                raise AnalysisError(f"{rid}: the variable table is modified by `{norm(st)}` (unrecognised form)")
        return pairs

    def equations(block):
        out = []
        for st in ordered(walk_shallow(g.node)):
            if isinstance(st, ast.Assign) and in_block(block, st) and isinstance(st.value, ast.List) and len(st.value.elts) == 1:
                js = _flatten_fstring(ctx, g, st.value.elts[0])
                if isinstance(js, ast.JoinedStr):
                    out.append((st, js))
        return out

    def table_lookup(table, pred):
        for k, v in table:
            if k is not None and pred(k):
                return v
        return None

    def key_text(k, eq_js):
        """Template text of a table key that is a string / f-string (directly or through a local); its holes must denote the same
        values as the equally spelt holes of the equation it is compared with."""
        kf = _flatten_fstring(ctx, g, k) if isinstance(k, (ast.JoinedStr, ast.Name, ast.Constant)) else None
        if not isinstance(kf, ast.JoinedStr):
            return None
        eq_holes = {ast.unparse(h): h for h in _holes(eq_js)}
        for h in _holes(kf):
            other = eq_holes.get(ast.unparse(h))
            if other is not None and not same_value(ctx, g, h, other):
                return None
        return fstring_template(kf)

    array_reasons: List[str] = []

    def check_array_binding(table, eq_js, arg_text):
        """The variable named by the equation's array argument is declared with the unmodified array parameter as its value."""
        ent = table_lookup(table, lambda k: key_text(k, eq_js) == arg_text)
        val = entry_field(ent, "value") if ent is not None else None
        if val is None:
            return False
        ok_, why_ = _input_array(ctx, g, val, p_inp)
        if why_:
            array_reasons.append(why_)
        return ok_

    lhs_names = set()
    for block, bname in ((adaptive, "adaptive"), (fixed, "fixed-step")):
        table = table_of(block, bname)
        eqs = equations(block)
        ctx.require(eqs, f"{rid}: no equation list found in the {bname} branch")
        for st, js in eqs:
            tpl = fstring_template(js)
            m = _EQ.match(tpl or "")
            if not m:
                raise AnalysisError(f"{rid}: input equation `{tpl}` is not of the form `<lhs> = f(args)` (unrecognised form)")
            args = [x.strip() for x in m.group("args").split(",")]
            fn = m.group("fn")
            lhs_hole = [h for h in _holes(js) if ast.unparse(h) == m.group("lhs")][0]
            lhs_r = resolve_local(ctx, g, lhs_hole)
            lhs_names.add(ast.dump(lhs_r))
            out_ent = table_lookup(table, lambda k: not isinstance(k, (ast.Constant, ast.JoinedStr)) and same_value(ctx, g, resolve_local(ctx, g, k), lhs_r))
            lhs_ok = out_ent is not None and isinstance(entry_field(out_ent, "vtype"), ast.Constant) and entry_field(out_ent, "vtype").value == "output"
            arr_pos = 2 if bname == "adaptive" else 0
            arr_ok = len(args) > arr_pos and check_array_binding(table, js, args[arr_pos])
            facts = {"equation": tpl, "lhs_is_output_variable": lhs_ok, "array_bound_to_parameter": arr_ok}
            label = f"{bname}: equation {tpl}"
            if bname == "adaptive":
                if fn not in ("interp", "interp_rows"):
                    ctx.violation(rid, g, st, f"the adaptive-step input equation `{tpl}` does not interpolate (expected interp / interp_rows): "
                                              f"fractional times would not be interpolated linearly", facts, label=label)
                    continue
                grid_ent = table_lookup(table, lambda k: len(args) == 3 and key_text(k, js) == args[1])
                gval = entry_field(grid_ent, "value") if grid_ent is not None else None
                grid_ok = isinstance(gval, ast.Name) and gval.id == grid_name and \
                    [d for d in ctx.rd(g).defs_reaching(gval)] == [lin_st]
                form_ok = len(args) == 3 and args[0] == "t"
                # interp_rows exactly on the 2-D branch
                nd = [a_ for a_ in ancestors(st) if isinstance(a_, ast.If) and not any(a_ is t_ for t_ in tops)]
                two_d = None
                for a_ in nd:
                    multi = _ndim_test(_expand_flag(ctx, g, a_.test), p_inp)
                    if multi is not None:
                        two_d = multi == any(contains(x, st) for x in a_.body)
                if two_d is None:
                    raise AnalysisError(f"{rid}: cannot tell whether `{tpl}` is emitted for 1-D or 2-D input (unrecognised branch form)")
                fn_ok = (fn == "interp_rows") == two_d
                facts.update({"grid_variable_bound_to_linspace": grid_ok, "argument_form": form_ok, "two_dimensional_branch": two_d})
                if grid_ok and form_ok and fn_ok and lhs_ok and arr_ok:
                    ctx.ok(rid, g, st, f"{fn}(t, <grid>, <array>) on the grid built above; the result is the node's output variable", facts, label=label)
                else:
                    why = []
                    if not form_ok:
                        why.append(f"arguments are ({', '.join(args)}), expected (t, <grid>, <array variable>)")
                    if not grid_ok:
                        why.append(f"the grid variable `{args[1] if len(args) > 1 else '?'}` is not bound to the linspace grid")
                    if not fn_ok:
                        why.append(f"`{fn}` is emitted for {'2-D' if two_d else '1-D'} input")
                    if not lhs_ok:
                        why.append("the assigned name is not the declared output variable")
                    if not arr_ok and array_reasons:
                        why.append(array_reasons[-1])
                    elif not arr_ok:
                        why.append(f"`{args[2] if len(args) > 2 else '?'}` is not declared with the array that was passed in as its value")
                    ctx.violation(rid, g, st, "adaptive-step input equation is wrong: " + "; ".join(why), facts, label=label)
            else:
                form_ok = fn == "index" and len(args) == 2 and args[1] == "t"
                facts["argument_form"] = form_ok
                if form_ok and lhs_ok and arr_ok:
                    ctx.ok(rid, g, st, "fixed-step input reads sample number t (the step counter) of the array", facts, label=label)
                else:
                    ctx.violation(rid, g, st, f"fixed-step input equation `{tpl}` is not `<output> = index(<array variable>, t)` on the array that "
                                              f"was passed in: step k would not use sample k", facts, label=label)
    # ---- returned names are the names of what was built
    rets = [n for n in walk_shallow(g.node) if isinstance(n, ast.Return)]
    ctx.require(len(rets) == 1 and isinstance(rets[0].value, ast.Tuple) and len(rets[0].value.elts) == 4,
                f"{rid}: create_input_node no longer returns (node key, operator key, variable name, node)")
    r_node, r_op, r_var, r_obj = rets[0].value.elts
    obj = resolve_local(ctx, g, r_obj)
    ok_ret = False
    if isinstance(obj, ast.Call) and call_name(obj) == "NodeTemplate":
        okw = {k.arg: k.value for k in obj.keywords}
        ops = okw.get("operators")
        if "name" in okw and same_value(ctx, g, okw["name"], r_node) and isinstance(ops, ast.List) and len(ops.elts) == 1:
            opc = resolve_local(ctx, g, ops.elts[0])
            if isinstance(opc, ast.Call) and call_name(opc) == "OperatorTemplate":
                pkw = {k.arg: k.value for k in opc.keywords}
                ok_ret = "name" in pkw and same_value(ctx, g, pkw["name"], r_op) and len(lhs_names) == 1 \
                    and ast.dump(resolve_local(ctx, g, r_var)) in lhs_names and "equations" in pkw and "variables" in pkw
    if ok_ret:
        ctx.ok(rid, g, rets[0], "returned (node key, operator key, variable) name the node, its operator and the equation's left-hand side",
               label="returned names")
    else:
        ctx.violation(rid, g, rets[0], "the names returned by create_input_node are not those of the node / operator / output variable it "
                                       "built: _add_input would wire the edge to another variable", label="returned names")

    # ---- _add_input forwards flag, time span and array to the matching parameters
    f = ctx.repo.get_func(REL, f"{CLS}._add_input")
    # helpers of _add_input (shape canonicalisation, ...) are spliced in for the analysis; obligations are reported on f
    fa = inlined(ctx, f, keep=("create_input_node", "_add_input_node", "get_nodes", "update_template"))
    cc = _calls(fa, "create_input_node")
    ctx.require(len(cc) == 1, f"{rid}: expected one create_input_node call in _add_input")
    bound = _bind_args(cc[0], g.params)
    fp = f.params            # self, target, inp, adaptive, sim_time, vectorized_net
    ctx.require(len(fp) >= 5, f"{rid}: _add_input signature changed: {fp}")
    f_inp, f_flag, f_T = fp[2], fp[3], fp[4]
    _CANON = ("asarray", "array", "squeeze", "ascontiguousarray", "asanyarray", "atleast_1d")

    array_why: List[str] = []

    def fixed_step_path(st) -> bool:
        """the statement is only reached when _add_input's adaptive flag is false (else-branch of a test of the flag, body of `not flag`)"""
        for anc in ancestors(st):
            if not isinstance(anc, ast.If):
                continue
            t = anc.test
            neg = isinstance(t, ast.UnaryOp) and isinstance(t.op, ast.Not)
            core = t.operand if neg else t
            conj = list(core.values) if isinstance(core, ast.BoolOp) and isinstance(core.op, ast.And) and not neg else [core]
            flag_here = [x for x in conj if isinstance(x, ast.Name) and _unmodified_param(ctx, fa, x, f_flag)]
            if not flag_here:
                # `if not adaptive and ...` as a conjunct
                if not neg and any(isinstance(x, ast.UnaryOp) and isinstance(x.op, ast.Not) and isinstance(x.operand, ast.Name)
                                   and _unmodified_param(ctx, fa, x.operand, f_flag) for x in conj) and any(contains(b_, st) for b_ in anc.body):
                    return True
                continue
            in_body, in_else = any(contains(b_, st) for b_ in anc.body), any(contains(b_, st) for b_ in anc.orelse)
            if (in_else and not neg and len(conj) == 1) or (in_body and neg):
                return True
        return False

    def length_change(v, d):
        """None: the expression does not change the number of samples.  Otherwise (ok, reason, inner array expression): cutting at
        the END (`x[:n]`) and continuing at the END with the last sample (`concatenate([x, pad])`) keep sample k at step k and are
        licensed on the fixed-step path only - with an adaptive solver the samples are spread over [0, T] by their number."""
        kind = inner = None
        if isinstance(v, ast.Subscript) and isinstance(v.slice, ast.Slice) and not (v.slice.lower is None and v.slice.upper is None):
            inner = v.value
            front_ok = (v.slice.lower is None or (isinstance(v.slice.lower, ast.Constant) and v.slice.lower.value == 0)) and v.slice.step is None
            if not front_ok:
                return False, (f"`{norm(d)}` cuts samples away at the front / with a stride: sample k is no longer the value of "
                               f"integration step k"), inner
            kind = "trimmed at the end"
        elif isinstance(v, ast.Call) and call_name(v) in ("concatenate", "append", "hstack", "vstack", "pad", "resize"):
            parts = None
            if call_name(v) == "concatenate" and v.args and isinstance(v.args[0], (ast.List, ast.Tuple)) and len(v.args[0].elts) == 2:
                parts = v.args[0].elts
            elif call_name(v) == "append" and len(v.args) >= 2:
                parts = v.args[:2]
            if parts is None:
                return None if call_name(v) not in ("pad", "resize") else (False, f"`{norm(d)}` changes the number of samples in an unrecognised way", v)
            first, second = parts
            if canon_array(first, set(), 12) is False:
                return False, (f"`{norm(d)}` puts other values in front of the samples: sample k is no longer the value of step k"), first
            tail = resolve_local(ctx, fa, second)
            last_value = any(isinstance(n_, ast.Subscript) and ast.unparse(n_.slice) in ("-1", "-1:") for n_ in ast.walk(tail))
            if not last_value:
                return False, (f"`{norm(d)}` continues the input with `{norm(tail)[:60]}`, not with its last sample"), first
            inner, kind = first, "continued at the end with its last sample"
        else:
            return None
        if not fixed_step_path(d):
            return False, (f"`{norm(d)}` ({kind}) changes the number of samples also when `{f_flag}` is true: with an adaptive solver "
                           f"create_input_node spreads the samples over [0, T] by their number, so the input is re-timed (stretched or "
                           f"compressed); a change of length is only harmless on the fixed-step path, where sample k is read at step k"), inner
        return True, None, inner

    def canon_array(e, seen=None, depth=16):
        """True: e is _add_input's array parameter, at most passed through shape/typing canonicalisations (asarray, squeeze) on
        every path; False: something else provably (another parameter, arithmetic, slicing); None: cannot tell."""
        seen = set() if seen is None else seen
        if depth <= 0:
            return None
        if isinstance(e, ast.Name):
            if comp_generator_of(e) is not None:
                return None
            defs = ctx.rd(fa).defs_reaching(e)
            if not defs:
                return None
            verdict = True
            for d in defs:
                if isinstance(d, ast.arguments):
                    if e.id != f_inp:
                        return False
                    continue
                if (id(d), e.id) in seen:
                    continue
                seen.add((id(d), e.id))
                v = assigned_value(d, e.id)
                lc = length_change(v, d) if v is not None else None
                if lc is not None:
                    ok_lc, why_lc, base_lc = lc
                    if not ok_lc:
                        array_why.append(why_lc)
                        return False
                    v = base_lc
                r = canon_array(v, seen, depth - 1) if v is not None else None
                if r is False:
                    return False
                if r is None:
                    verdict = None
            return verdict
        if isinstance(e, ast.IfExp):
            a_, b_ = canon_array(e.body, seen, depth - 1), canon_array(e.orelse, seen, depth - 1)
            return False if (a_ is False or b_ is False) else (True if (a_ and b_) else None)
        if isinstance(e, ast.Call) and call_name(e) in _CANON and isinstance(e.func, ast.Attribute):
            recv = e.func.value
            if isinstance(recv, ast.Name) and recv.id in ("np", "numpy"):
                return canon_array(e.args[0], seen, depth - 1) if e.args else None
            return canon_array(recv, seen, depth - 1)
        if isinstance(e, ast.Call) and call_name(e) in ("full", "full_like", "repeat", "tile", "ones") and len(e.args) >= 2:
            # a scalar expanded to a constant input: the fill value must be the caller's value
            fill = e.args[1] if call_name(e) in ("full", "full_like") else e.args[0]
            base = fill
            while isinstance(base, (ast.Subscript, ast.Call)):
                base = base.value if isinstance(base, ast.Subscript) else (base.func.value if isinstance(base.func, ast.Attribute) else
                                                                          (base.args[0] if base.args else None))
                if base is None:
                    return None
            return canon_array(base, seen, depth - 1) if isinstance(base, ast.Name) else None
        if isinstance(e, ast.Call):
            return None
        if isinstance(e, (ast.BinOp, ast.Subscript, ast.UnaryOp, ast.Constant, ast.List, ast.Tuple)):
            return False
        return None
    var_arg = bound.get(p_var)
    var_ok = False
    if isinstance(var_arg, ast.Name):
        ds = ctx.rd(fa).defs_reaching(var_arg)
        if len(ds) == 1 and isinstance(ds[0], ast.Assign) and isinstance(ds[0].targets[0], ast.Tuple) and isinstance(ds[0].value, ast.Call) \
                and call_name(ds[0].value) == "split" and isinstance(ds[0].value.func.value, ast.Name) \
                and _unmodified_param(ctx, fa, ds[0].value.func.value, fp[1]):
            var_ok = position_in_target(ds[0].targets[0], var_arg.id) == len(ds[0].targets[0].elts) - 1
    array_ok = canon_array(bound[p_inp]) if p_inp in bound else False
    if array_ok is None:
        raise AnalysisError(f"{rid}: cannot tell whether `{norm(bound[p_inp])}` handed to create_input_node is _add_input's array "
                            f"(unrecognised form of the shape canonicalisation)")
    checks = {
        "time span": (p_T in bound and _unmodified_param(ctx, fa, bound[p_T], f_T),
                      f"`{p_T}` must receive _add_input's `{f_T}`: the grid would span another interval than the simulation"),
        "adaptive flag": (p_cont in bound and _unmodified_param(ctx, fa, bound[p_cont], f_flag),
                          f"`{p_cont}` must receive _add_input's `{f_flag}`: interpolation would be chosen independently of the solver"),
        "array": (array_ok is True,
                  (array_why[0] if array_why else f"`{p_inp}` must receive the (shape-canonicalised) input array")),
        "variable name": (var_ok, f"`{p_var}` must receive the last component of the addressed path"),
    }
    for what, (good, msg) in checks.items():
        if good:
            ctx.ok(rid, f, cc[0], f"_add_input forwards its {what} to create_input_node unchanged", label=f"_add_input forwards {what}")
        else:
            ctx.violation(rid, f, cc[0], f"_add_input does not forward the {what}: {msg}", {"call": norm(cc[0])}, label=f"_add_input forwards {what}")

    # ---- the callers (the calls may live in a private helper that the public method delegates to)
    cls = ctx.repo.get_class(REL, CLS)
    entry_points = {cls.methods.get(n) for n in CALLERS}
    results: Dict[tuple, list] = {}

    def record(host, label, node, good, ok_msg, bad_msg, facts=None):
        results.setdefault((host, label), []).append((node, good, ok_msg, bad_msg, facts))

    for name in CALLERS:
        h0 = cls.methods.get(name)
        ctx.require(h0 is not None, f"{rid}: anchor vanished: {CLS}.{name}")
        # private helpers the public method delegates to (input loop, validation + apply, ...) are spliced in statement by
        # statement, so that _add_input, apply() and run() are seen in one body wherever they were moved to; helpers that cannot be
        # spliced (unstructured returns) are still followed through the call chain below
        h = inlined(ctx, h0, keep=("_add_input", "_add_input_node", "_validate_backend_args"))
        sites = hosts_of(ctx, h, lambda fn: _calls(fn, "_add_input"), skip=(entry_points - {h0}) | {f})
        ctx.require(len(sites) == 1, f"{rid}: expected one function with an _add_input call in or below {name}, found "
                                     f"{sorted(x[0].qualname for x in sites)}")
        host, chain = sites[0]
        calls = _calls(host, "_add_input")
        ctx.require(len(calls) == 1, f"{rid}: expected one _add_input call in {host.qualname}, found {len(calls)}")
        call = calls[0]
        b = _bind_args(call, fp[1:])
        ctx.require(all(p in b for p in fp[1:5]), f"{rid}: `{norm(call)}` does not pass target, array, flag and time span")

        def find(callee, kwarg):
            """The one call `<x>.callee(kwarg=...)` in the host or, failing that, in the public method: (function, call)."""
            for fn in ([host] if host is h else [host, h]):
                cs = [c for c in _calls(fn, callee) if any(k.arg == kwarg for k in c.keywords)]
                if cs:
                    ctx.require(len(cs) == 1, f"{rid}: expected one {callee}({kwarg}=...) call in {fn.qualname}, found {len(cs)}")
                    return fn, cs[0]
            return None, None

        def lift(e):
            """An expression of the host that is an unmodified parameter, expressed in the public method (through the call chain)."""
            fn = host
            for caller, cnode, callee in reversed(chain):
                if not _unmodified_param(ctx, fn, e):
                    return None
                ps = list(callee.params)
                if callee.cls is not None and not callee.is_static and ps:
                    ps = ps[1:]
                bound_ = _bind_args(cnode, ps)
                if e.id not in bound_:
                    return None
                e, fn = bound_[e.id], caller
            return e

        def same(a, where, other):
            """`a` (in the host) and `other` (in function `where`) denote the same value."""
            if where is host:
                return same_value(ctx, host, a, other)
            la = lift(a)
            if la is None:
                raise AnalysisError(f"{rid}: cannot relate `{norm(a)}` in {host.qualname} to `{norm(other)}` in {where.qualname} "
                                    f"(unrecognised form)")
            return same_value(ctx, where, la, other)

        def entry_param(e):
            """`e` (in the host) is, unchanged, a parameter of the public method."""
            le = lift(e)
            return le is not None and _unmodified_param(ctx, h, le)

        ap_fn, ap = find("apply", "adaptive_steps")
        ctx.require(ap is not None, f"{rid}: expected one apply(adaptive_steps=...) call in {name}")
        akw = {k.arg: k.value for k in ap.keywords}
        # T
        run_fn, irun = find("run", "simulation_time")
        T = b[f_T]
        Tr = _beta_reduce(ctx, host, resolve_local(ctx, host, T))
        if irun is not None:
            want = {k.arg: k.value for k in irun.keywords}["simulation_time"]
            good = same(Tr, run_fn, want) and entry_param(Tr)
            exp = f"`{norm(want)}`, the time span handed to the solver"
        else:
            good = False
            exp = f"`<array>.shape[0] * {norm(akw.get('step_size')) if 'step_size' in akw else 'step_size'}`"
            if isinstance(Tr, ast.BinOp) and isinstance(Tr.op, ast.Mult) and "step_size" in akw:
                for x, y in ((Tr.left, Tr.right), (Tr.right, Tr.left)):
                    x, y = resolve_local(ctx, host, x), resolve_local(ctx, host, y)
                    n_rows = (isinstance(x, ast.Subscript) and isinstance(x.value, ast.Attribute) and x.value.attr == "shape"
                              and isinstance(x.slice, ast.Constant) and x.slice.value == 0 and same_value(ctx, host, x.value.value, b[f_inp])) \
                        or (isinstance(x, ast.Call) and call_name(x) == "len" and len(x.args) == 1 and same_value(ctx, host, x.args[0], b[f_inp]))
                    if n_rows and isinstance(y, ast.Name) and same(y, ap_fn, akw["step_size"]) and entry_param(y):
                        good = True
        record(host, "caller: time span", call, good, f"the time span of the input grid is {exp}",
               f"{name} passes `{norm(Tr)}` as the time span of the input, expected {exp}: the samples would be placed on another interval "
               f"than the one that is integrated", {"T": norm(Tr)})
        # flag
        record(host, "caller: adaptive flag", call, same(b[f_flag], ap_fn, akw["adaptive_steps"]),
               "the flag that selects interpolation is the flag that tells the compiler that t is continuous",
               f"_add_input receives `{norm(b[f_flag])}` but apply() receives adaptive_steps=`{norm(akw['adaptive_steps'])}`: "
               f"the input node would index with a continuous time or interpolate on a step counter", {"flag": norm(b[f_flag])})
        # target / array from one items() pair
        tb = binding_loop(ctx, host, b[fp[1]]) if isinstance(b[fp[1]], ast.Name) else None
        ib = binding_loop(ctx, host, b[f_inp]) if isinstance(b[f_inp], ast.Name) else None
        if tb is None or ib is None:
            raise AnalysisError(f"{rid}: target `{norm(b[fp[1]])}` / array `{norm(b[f_inp])}` of `{norm(call)}` are not bound by a loop "
                                f"(unrecognised form)")
        if tb[2] is ib[2]:
            kind = _items_iteration(tb[1])
            if kind is None:
                raise AnalysisError(f"{rid}: `{norm(call)}` sits in a loop over `{norm(tb[1])}`, not over the items of the input "
                                    f"dictionary (unrecognised form)")
            pair = position_in_target(tb[0], b[fp[1]].id) == 0 and position_in_target(ib[0], b[f_inp].id) == 1
        else:
            pair = False
        record(host, "caller: path/array pairing", call, pair, "target path and array come from the same inputs.items() pair",
               "the target path and the array handed to _add_input are not key and value of one inputs.items() pair: "
               "an array would drive another variable than the one it was given for")
        # the template that is compiled is the one _add_input returned
        call_st = stmt_of(ctx.cfg(host), call)
        recv = ap.func.value if isinstance(ap.func, ast.Attribute) else None
        rebinds = isinstance(call_st, ast.Assign) and call_st.value is call and len(call_st.targets) == 1 \
            and isinstance(call_st.targets[0], ast.Name) and isinstance(call.func, ast.Attribute) and isinstance(call.func.value, ast.Name) \
            and call.func.value.id == call_st.targets[0].id
        if ap_fn is host:
            chain_ok = rebinds and isinstance(recv, ast.Name) and _flows_from(ctx, host, recv, call_st)
        else:
            # apply() is called by the public method on what the helper returned
            ctx.require(len(chain) == 1, f"{rid}: _add_input and apply() are {len(chain)} call levels apart (unrecognised form)")
            rets_h = [n for n in walk_shallow(host.node) if isinstance(n, ast.Return) and n.value is not None]
            returned = rebinds and bool(rets_h) and all(isinstance(r_.value, ast.Name) and r_.value.id == call_st.targets[0].id
                                                        and any(d is call_st for d in ctx.rd(host).defs_reaching(r_.value)) for r_ in rets_h)
            helper_st = stmt_of(ctx.cfg(h), chain[0][1])
            if isinstance(helper_st, ast.Assign) and helper_st.value is chain[0][1] and len(helper_st.targets) == 1 \
                    and isinstance(helper_st.targets[0], ast.Name):
                chain_ok = returned and isinstance(recv, ast.Name) and any(d is helper_st for d in ctx.rd(h).defs_reaching(recv))
            elif isinstance(helper_st, ast.Expr):
                chain_ok = False
            else:
                raise AnalysisError(f"{rid}: cannot follow the template from `{norm(helper_st)}` to `{norm(ap)}` (unrecognised form)")
        record(host, "caller: result is compiled", call, chain_ok,
               "the template returned by _add_input (which has the input node and edges) is the one that is compiled",
               "the template returned by _add_input is not the one apply() is called on: _add_input returns a new "
               "template, so the input would be dropped silently")
    for (host, label), items in results.items():
        bad = [it for it in items if not it[1]]
        node, _, ok_msg, bad_msg, facts = (bad or items)[0]
        if bad:
            ctx.violation(rid, host, node, bad_msg, facts, label=label)
        else:
            ctx.ok(rid, host, node, ok_msg, facts, label=label)


# --------------------------------------------------------------------------------------------
# R4 — deriving a template keeps every constructor field
# --------------------------------------------------------------------------------------------

def _value_origins(ctx, f, name: ast.Name):
    """For every definition that reaches this use of a local: (parameter name, 'param') when it is a parameter of f,
    (defining statement, (parameters read, self attributes read)) when it is a plain assignment - followed transitively through
    the locals the right-hand side reads -, (defining statement, 'opaque') for any other binding."""
    rd = ctx.rd(f)
    selfn = f.self_name

    class Opaque(Exception):
        pass

    def collect(e, seen, params, attrs):
        for n in ast.walk(e):
            if isinstance(n, ast.Attribute) and isinstance(n.value, ast.Name) and n.value.id == selfn:
                attrs.add(n.attr)
            elif isinstance(n, ast.Name) and isinstance(n.ctx, ast.Load) and n.id != selfn and comp_generator_of(n) is None:
                for d in rd.defs_reaching(n):
                    if isinstance(d, ast.arguments):
                        params.add(n.id)
                        continue
                    if (id(d), n.id) in seen:
                        continue
                    seen.add((id(d), n.id))
                    val = assigned_value(d, n.id)
                    if val is None:
                        raise Opaque()
                    collect(val, seen, params, attrs)

    out = []
    for d in rd.defs_reaching(name):
        if isinstance(d, ast.arguments):
            out.append((name.id, "param"))
            continue
        val = assigned_value(d, name.id)
        if val is None:
            out.append((d, "opaque"))
            continue
        params, attrs = set(), set()
        try:
            collect(val, {(id(d), name.id)}, params, attrs)
        except Opaque:
            out.append((d, "opaque"))
            continue
        out.append((d, (params, attrs)))
    return out


def r4_update_template_forwards(ctx, rid):
    cls = ctx.repo.get_class(REL, CLS)
    init = cls.methods.get("__init__")
    upd = cls.methods.get("update_template")
    ctx.require(init is not None and upd is not None, f"{rid}: anchor vanished: {CLS}.__init__ / update_template")
    selfn = upd.self_name
    cparams = [p for p in init.params if p != init.self_name]
    a = init.node.args
    ctx.require(a.vararg is None and a.kwarg is None, f"{rid}: {CLS}.__init__ takes */** parameters (unrecognised form)")
    ctors = []
    for c in walk_shallow(upd.node):
        if isinstance(c, ast.Call):
            fn = c.func
            if (isinstance(fn, ast.Attribute) and fn.attr == "__class__" and isinstance(fn.value, ast.Name) and fn.value.id == selfn) \
                    or (isinstance(fn, ast.Call) and isinstance(fn.func, ast.Name) and fn.func.id == "type" and len(fn.args) == 1
                        and isinstance(fn.args[0], ast.Name) and fn.args[0].id == selfn) \
                    or (isinstance(fn, ast.Name) and fn.id == CLS):
                ctors.append(c)
    ctx.require(len(ctors) == 1, f"{rid}: expected one `self.__class__(...)` call in update_template, found {len(ctors)}")
    ctor = ctors[0]
    bound = _bind_args(ctor, cparams)
    rd = ctx.rd(upd)
    for p in cparams:
        label = f"constructor parameter {p}"
        if p not in bound:
            ctx.violation(rid, upd, ctor, f"update_template does not forward `{p}` to the new {CLS}: every template derived from this one "
                                          f"(e.g. by _add_input, which returns update_template(edges=...)) silently loses its {p}", label=label)
            continue
        v = bound[p]
        good, why = False, ""
        if isinstance(v, ast.Attribute) and isinstance(v.value, ast.Name) and v.value.id == selfn:
            good = v.attr == p
            why = f"`{p}` receives `{norm(v)}`"
        elif isinstance(v, ast.Name):
            # the value handed over may live in any local: what counts is where it comes from - on every definition that reaches
            # the constructor call it is either the update_template parameter `p` itself (the update the caller asked for) or
            # computed from this template's own `p` (and possibly that parameter), never from another constructor field
            good = True
            origins = _value_origins(ctx, upd, v)
            if origins and all(o == "param" for _, o in origins):
                good = False
                why = (f"`{p}` receives only what the caller of update_template passed (`{norm(v)}` is never completed from this "
                       f"template's own {p})")
            for d, origin in origins:
                if origin == "param":
                    if d != p:
                        good = False
                        why = f"`{p}` receives update_template's parameter `{d}`"
                    continue
                if origin == "opaque":
                    raise AnalysisError(f"{rid}: `{p}` of the derived template is bound by `{norm(d)}` (unrecognised form)")
                reads_params, attrs = origin
                if not attrs or (attrs & set(cparams)) - {p} or (reads_params & set(cparams)) - {p}:
                    good = False
                    why = f"`{p}` is bound by `{norm(d)}`, which does not derive it from this template's own {p}"
        else:
            why = f"`{p}` receives `{norm(v)}`"
        if good:
            ctx.ok(rid, upd, ctor, f"`{p}` is forwarded to the derived template (own value or the update of it)", {"value": norm(v)}, label=label)
        else:
            ctx.violation(rid, upd, ctor, f"update_template forwards the wrong value for `{p}`: {why}", {"value": norm(v)}, label=label)
    # _add_input returns update_template(edges=<records>) of the template that holds the input node
    f = ctx.repo.get_func(REL, f"{CLS}._add_input")
    rets = [n for n in walk_shallow(f.node) if isinstance(n, ast.Return)]
    ctx.require(len(rets) == 1 and isinstance(rets[0].value, ast.Call) and call_name(rets[0].value) == "update_template",
                f"{rid}: _add_input no longer returns `<net>.update_template(...)` (unrecognised form)")
    rc = rets[0].value
    kw = {k.arg: k.value for k in rc.keywords}
    recv = rc.func.value if isinstance(rc.func, ast.Attribute) else None
    u = _unpacked_from(ctx, f, recv) if isinstance(recv, ast.Name) else None
    ev = kw.get("edges")
    edges_ok = False
    if isinstance(ev, ast.Name):
        vals = [assigned_value(d, ev.id) for d in ctx.rd(f).defs_reaching(ev)]
        edges_ok = bool(vals) and all(isinstance(v, (ast.ListComp, ast.List)) for v in vals)
    ip = kw.get("in_place")
    if u is not None and u[:2] == ("_add_input_node", 1) and edges_ok and not rc.args and set(kw) <= {"edges", "in_place"} \
            and (ip is None or (isinstance(ip, ast.Constant) and ip.value is False)):
        ctx.ok(rid, f, rets[0], "_add_input derives the result from the template that holds the input node, adding only the input edges",
               label="_add_input derives via update_template")
    else:
        ctx.violation(rid, f, rets[0], "_add_input does not return update_template(edges=<input edges>) of the template returned by "
                                       "_add_input_node: the input node or its edges are missing from the compiled template",
                      label="_add_input derives via update_template")


# --------------------------------------------------------------------------------------------
# R5 — an input that selects nothing is reported
# --------------------------------------------------------------------------------------------

def _emptiness_test(test, is_list):
    """'empty-true' if the test is true exactly when the list is empty, 'empty-false' for the negation, else None.
    Spellings: `not x`, `x`, `len(x)` / `not len(x)`, `len(x) <op> 0|1` (either operand order), `x == []` / `x != []` (also `list()`,
    `()`), `bool(x)`."""
    flip = {"empty-true": "empty-false", "empty-false": "empty-true", None: None}

    def is_len(e):
        return isinstance(e, ast.Call) and call_name(e) == "len" and isinstance(e.func, ast.Name) and len(e.args) == 1 \
            and not e.keywords and is_list(e.args[0])

    def empty_literal(e):
        return (isinstance(e, (ast.List, ast.Tuple)) and not e.elts) \
            or (isinstance(e, ast.Call) and isinstance(e.func, ast.Name) and e.func.id in ("list", "tuple") and not e.args and not e.keywords)
    if isinstance(test, ast.UnaryOp) and isinstance(test.op, ast.Not):
        return flip[_emptiness_test(test.operand, is_list)]
    if is_list(test) or is_len(test):
        return "empty-false"
    if isinstance(test, ast.Call) and isinstance(test.func, ast.Name) and test.func.id == "bool" and len(test.args) == 1 and not test.keywords:
        return _emptiness_test(test.args[0], is_list)
    if isinstance(test, ast.Compare) and len(test.ops) == 1:
        l, r, op = test.left, test.comparators[0], test.ops[0]
        if isinstance(op, (ast.Eq, ast.NotEq)) and ((is_list(l) and empty_literal(r)) or (is_list(r) and empty_literal(l))):
            return "empty-true" if isinstance(op, ast.Eq) else "empty-false"
        swap = {ast.Lt: ast.Gt, ast.Gt: ast.Lt, ast.LtE: ast.GtE, ast.GtE: ast.LtE, ast.Eq: ast.Eq, ast.NotEq: ast.NotEq}
        opc = type(op)
        if is_len(r) and isinstance(l, ast.Constant) and opc in swap:
            l, r, opc = r, l, swap[opc]
        if is_len(l) and isinstance(r, ast.Constant) and isinstance(r.value, int) and not isinstance(r.value, bool):
            c = r.value
            if (c == 0 and opc in (ast.Eq, ast.LtE)) or (c == 1 and opc is ast.Lt):
                return "empty-true"
            if (c == 0 and opc in (ast.Gt, ast.NotEq)) or (c == 1 and opc is ast.GtE):
                return "empty-false"
    return None


def r5_empty_selection_reported(ctx, rid):
    f = ctx.repo.get_func(REL, f"{CLS}._add_input")
    cfg = ctx.cfg(f)
    tn, _, _ = _node_lookup(ctx, f, rid)       # wrappers (sorted, set, list, ...) do not change whether the selection is empty

    def is_list(e, depth=4):
        """The looked-up node list, a copy / re-ordering of it (same emptiness) or a local bound to one."""
        e, _ = _peel_node_list(e)
        if not isinstance(e, ast.Name) or comp_generator_of(e) is not None or depth <= 0:
            return False
        d = ctx.rd(f).defs_reaching(e)
        if len(d) != 1:
            return False
        if d[0] is tn:
            return True
        v = assigned_value(d[0], e.id)
        return v is not None and is_list(v, depth - 1)

    def reports(block):
        for b in block:
            for n in ast.walk(b):
                if isinstance(n, ast.Raise):
                    return True
                if isinstance(n, ast.Call) and call_name(n) in ("warn", "warning", "error"):
                    return True
        return False
    def when_empty(test, depth=3):
        """Value of the test when the node list is empty: True / False when that is certain, 'partial' when the test also depends
        on something else, None when it does not look at the list, 'unknown' when it looks at it in an unrecognised way."""
        kind = _emptiness_test(test, is_list)
        if kind is not None:
            return kind == "empty-true"
        if isinstance(test, ast.UnaryOp) and isinstance(test.op, ast.Not):
            r = when_empty(test.operand, depth)
            return (not r) if isinstance(r, bool) else r
        if isinstance(test, ast.Name) and depth > 0 and comp_generator_of(test) is None:
            defs = ctx.rd(f).defs_reaching(test)
            if len(defs) == 1 and not isinstance(defs[0], ast.arguments):
                v = assigned_value(defs[0], test.id)
                if v is not None and isinstance(v, (ast.BoolOp, ast.Compare, ast.UnaryOp, ast.Name, ast.Call)) \
                        and alias_is_stable(ctx, f, defs[0], test, v):
                    return when_empty(v, depth - 1)
            return None
        if isinstance(test, ast.BoolOp):
            parts = [when_empty(v, depth) for v in test.values]
            if "unknown" in parts:
                return "unknown"
            decisive = isinstance(test.op, ast.Or)          # `or`: one True part decides; `and`: one False part decides
            if any(p_ is decisive for p_ in parts):
                return decisive
            if all(p_ is (not decisive) for p_ in parts):
                return not decisive
            return "partial" if any(p_ is not None for p_ in parts) else None
        if any(isinstance(n, ast.Name) and is_list(n) for n in ast.walk(test)):
            return "unknown"
        return None
    good, unknown = [], []
    for st in cfg.stmts():
        if isinstance(st, ast.If):
            w = when_empty(st.test)
            if w is True and reports(st.body):
                good.append(st)
            elif w is False and st.orelse and reports(st.orelse):
                good.append(st)
            elif w == "unknown" and (reports(st.body) or reports(st.orelse)):
                unknown.append(st)
    if not good and unknown:
        raise AnalysisError(f"{rid}: cannot tell whether `{norm(unknown[0])}` is taken when `{norm(tn)}` selected nothing (unrecognised form)")
    if not good:
        ctx.violation(rid, f, tn, f"`{norm(tn)}` may return an empty list and no branch warns or raises for that case: an input addressed to "
                                  f"a misspelt or non-existent variable creates no edge and is dropped without a word",
                      label="empty target selection is reported")
        return
    witness = cfg.must_pass(tn, lambda n: any(n is g_ for g_ in good))
    if witness is None:
        ctx.ok(rid, f, good[0], "every path from the node look-up to the return passes the test that warns/raises when nothing was selected",
               {"guard": norm(good[0])}, label="empty target selection is reported")
    else:
        ctx.violation(rid, f, good[0], "the empty-selection warning is not on every path from the node look-up to the return",
                      {"witness": cfg.path_str(witness)}, label="empty target selection is reported")


# --------------------------------------------------------------------------------------------
# R6 — interp_rows interpolates column k for element k
# --------------------------------------------------------------------------------------------

def _check_interp_rows(fn: ast.FunctionDef):
    """(verdict, why): verdict True/False, or raises AnalysisError for an unrecognised form."""
    ps = [a.arg for a in fn.args.args]
    if len(ps) != 3:
        raise AnalysisError(f"interp_rows helper has parameters {ps} (unrecognised form)")
    if not any(isinstance(n, (ast.For, ast.While, ast.ListComp, ast.GeneratorExp)) for n in ast.walk(fn)):
        # no iteration over the columns: ONE vectorised bracket interpolation of whole rows
        return _check_vectorised_rows(fn, ps)
    k, it, elt = _rows_iteration(fn)
    if not (isinstance(elt, ast.Call) and call_name(elt) == "interp" and len(elt.args) + len(elt.keywords) == 3
            and all(kw.arg in ("x", "xp", "fp") for kw in elt.keywords)):
        raise AnalysisError("interp_rows helper element is not an interp(q, x, y) call (unrecognised form)")
    bound = dict(zip(("x", "xp", "fp"), elt.args))
    bound.update({kw.arg: kw.value for kw in elt.keywords})
    if set(bound) != {"x", "xp", "fp"}:
        raise AnalysisError("interp_rows helper element is not an interp(q, x, y) call (unrecognised form)")
    q, x, y = bound["x"], bound["xp"], bound["fp"]
    arr = ps[2]
    why = []
    if not (isinstance(q, ast.Name) and q.id == ps[0]):
        why.append(f"the query point is `{ast.unparse(q)}`, not `{ps[0]}`")
    if not (isinstance(x, ast.Name) and x.id == ps[1]):
        why.append(f"the grid is `{ast.unparse(x)}`, not `{ps[1]}`")
    its = ast.unparse(it)
    if its in (f"{arr}.T", f"{arr}.transpose()", f"transpose({arr})", f"np.transpose({arr})"):
        # iteration over the columns themselves
        if not (isinstance(y, ast.Name) and y.id == k):
            why.append(f"each element interpolates `{ast.unparse(y)}`, not the column `{k}` the loop runs over")
    else:
        if ast.unparse(y) not in (f"{arr}[:, {k}]", f"{arr}[..., {k}]", f"{arr}.T[{k}]"):
            why.append(f"element {k} interpolates `{ast.unparse(y)}`, not column `{arr}[:, {k}]`")
        if its not in (f"range({arr}.shape[1])", f"range({arr}.shape[-1])", f"range(0, {arr}.shape[1])", f"range(0, {arr}.shape[-1])",
                       f"range(len({arr}[0]))", f"range(len({arr}.T))"):
            why.append(f"the iteration runs over `{its}`, not over the columns range({arr}.shape[1])")
    return (not why), "; ".join(why)


def _check_vectorised_rows(fn: ast.FunctionDef, ps):
    """interp_rows written as one bracket interpolation of whole rows: straight-line assignments and a return whose value is
    Y[i] + w * (Y[j] - Y[i]) in any algebraically equal spelling.  Decided (sympy on the inlined return expression):
    * j is i + 1 (or min(i + 1, n - 1)) and the bracket index is clipped so that both rows exist;
    * CLAMP: the weight is clipped to [0, 1], or the query / position is clipped to the grid before the weight is formed -
      otherwise queries outside the grid are extrapolated (the interp helpers and numpy.interp clamp);
    * searchsorted form: w = (q - X[i]) / (X[i + 1] - X[i]);
    * uniform-grid form: position = (q - X[0]) * (n - 1) / (X[-1] - X[0]) with n the number of rows (n samples span n - 1
      intervals), i = floor(position), w = position - i.
    Returns (verdict, why); AnalysisError for anything else."""
    import sympy as sp
    from engine.symx import to_sympy
    q, X, Y = ps
    body = [st for st in fn.body if not (isinstance(st, ast.Expr) and isinstance(st.value, ast.Constant))]
    if not body or not isinstance(body[-1], ast.Return) or body[-1].value is None:
        raise AnalysisError("interp_rows helper does not end in a `return` (unrecognised form)")
    env: Dict[str, sp.Expr] = {}
    n_rows, n_cols = sp.Symbol("n", positive=True, integer=True), sp.Symbol("ncols", positive=True, integer=True)
    Yrow, Xat = sp.Function("Yrow"), sp.Function("Xat")
    fclip, ffloor, fmin, fmax, fss = sp.Function("clip"), sp.Function("floor_"), sp.Function("minimum"), sp.Function("maximum"), sp.Function("ss")

    def conv(e):
        def leaf(n):
            if isinstance(n, ast.Name) and n.id in env:
                return env[n.id]
            if isinstance(n, ast.Call) and isinstance(n.func, ast.Attribute) and n.func.attr == "astype" and len(n.args) == 1:
                return ffloor(conv(n.func.value)) if not _is_floor(n.func.value) else conv(n.func.value)
            if isinstance(n, ast.Call):
                nm = call_name(n)
                args = [a for a in n.args]
                if nm == "len" and len(args) == 1 and isinstance(args[0], ast.Name) and args[0].id in (X, Y):
                    return n_rows
                if nm in ("clip", "clamp") and len(args) == 3 and not n.keywords:
                    return fclip(conv(args[0]), conv(args[1]), conv(args[2]))
                if nm in ("clip", "clamp") and len(args) == 1 and {k.arg for k in n.keywords} <= {"min", "max", "a_min", "a_max"} \
                        and len(n.keywords) == 2:
                    kw = {k.arg.replace("a_", ""): k.value for k in n.keywords}
                    return fclip(conv(args[0]), conv(kw["min"]), conv(kw["max"]))
                if nm in ("floor", "int", "trunc") and len(args) == 1:
                    return ffloor(conv(args[0]))
                if nm in ("minimum", "min") and len(args) == 2:
                    return fmin(conv(args[0]), conv(args[1]))
                if nm in ("maximum", "max") and len(args) == 2:
                    return fmax(conv(args[0]), conv(args[1]))
                if nm == "searchsorted" and len(args) == 2 and isinstance(args[0], ast.Name) and args[0].id == X \
                        and all(k.arg in ("side", "right") for k in n.keywords):
                    return fss(conv(args[1]))
                raise AnalysisError(f"interp_rows helper calls `{ast.unparse(n)[:60]}` (unrecognised form)")
            if isinstance(n, ast.Subscript):
                if isinstance(n.value, ast.Attribute) and n.value.attr == "shape" and isinstance(n.value.value, ast.Name) \
                        and n.value.value.id in (X, Y) and isinstance(n.slice, (ast.Constant, ast.UnaryOp)):
                    which = ast.unparse(n.slice)
                    if which == "0":
                        return n_rows
                    if n.value.value.id == Y and which in ("1", "-1"):
                        return n_cols
                if isinstance(n.value, ast.Name) and n.value.id in (X, Y) and not isinstance(n.slice, (ast.Slice, ast.Tuple)):
                    idx = n.slice
                    if isinstance(idx, ast.UnaryOp) and isinstance(idx.op, ast.USub) and isinstance(idx.operand, ast.Constant) \
                            and isinstance(idx.operand.value, int):
                        i = n_rows - idx.operand.value
                    else:
                        i = conv(idx)
                    return (Yrow if n.value.id == Y else Xat)(i)
                raise AnalysisError(f"interp_rows helper indexes `{ast.unparse(n)[:60]}` (unrecognised form)")
            return None
        return to_sympy(e, leaf=leaf)

    def _is_floor(e):
        return isinstance(e, ast.Call) and call_name(e) in ("floor", "trunc")
    for st in body[:-1]:
        if not (isinstance(st, ast.Assign) and len(st.targets) == 1 and isinstance(st.targets[0], ast.Name)) \
                or st.targets[0].id in ps or st.targets[0].id in env:
            raise AnalysisError(f"interp_rows helper contains `{ast.unparse(st).splitlines()[0][:70]}` (unrecognised form)")
        env[st.targets[0].id] = conv(st.value)
    E = conv(body[-1].value)
    rows = sorted({a.args[0] for a in E.atoms(sp.Function) if a.func == Yrow}, key=str)
    if len(rows) != 2:
        raise AnalysisError(f"interp_rows helper combines {len(rows)} rows of the array, expected the two bracketing rows (unrecognised form)")
    A, B = sp.Symbol("A_"), sp.Symbol("B_")
    a, b = rows
    lin = sp.expand(E.subs({Yrow(a): A, Yrow(b): B}))
    cA, cB = sp.diff(lin, A), sp.diff(lin, B)
    if cA.has(A, B) or cB.has(A, B) or sp.simplify(lin - cA * A - cB * B) != 0:
        raise AnalysisError("interp_rows helper is not a linear combination of two rows (unrecognised form)")

    def upper_of(lo, hi):
        return hi == lo + 1 or hi == fmin(lo + 1, n_rows - 1) or hi == fmin(n_rows - 1, lo + 1) or hi == fclip(lo + 1, 0, n_rows - 1)
    if upper_of(a, b):
        lo, hi, w = a, b, cB
    elif upper_of(b, a):
        lo, hi, w = b, a, cA
    else:
        raise AnalysisError(f"interp_rows helper: rows `{a}` and `{b}` are not a row and its successor (unrecognised form)")
    if sp.simplify(cA + cB - 1) != 0:
        return False, (f"the weights of the two bracketing rows add up to `{sp.simplify(cA + cB)}`, not to 1: the result is not an "
                       f"interpolation between the samples")
    grid_lo, grid_hi = Xat(0), Xat(n_rows - 1)

    def clipped_query(e):
        return e == fclip(sp.Symbol(q), grid_lo, grid_hi) or e == fmin(fmax(sp.Symbol(q), grid_lo), grid_hi) \
            or e == fmax(fmin(sp.Symbol(q), grid_hi), grid_lo)
    qs = sp.Symbol(q)
    # ---- searchsorted form
    if lo.func == fclip and len(lo.args) == 3 and lo.args[1] == 0 and lo.args[2] == n_rows - 2 and lo.args[0].has(fss):
        s_ = lo.args[0]
        ss_atoms = [x for x in s_.atoms(sp.Function) if x.func == fss]
        if len(ss_atoms) != 1 or sp.simplify(s_ - (ss_atoms[0] - 1)) != 0:
            raise AnalysisError(f"interp_rows helper: bracket index `{lo}` is not searchsorted(grid, t) - 1 (unrecognised form)")
        qq = ss_atoms[0].args[0]
        if not (qq == qs or clipped_query(qq)):
            raise AnalysisError(f"interp_rows helper searches the grid for `{qq}`, not for the query time (unrecognised form)")
        for cand_q in (qs, fclip(qs, grid_lo, grid_hi)):
            r = (cand_q - Xat(lo)) / (Xat(lo + 1) - Xat(lo))
            if sp.simplify(w - fclip(r, 0, 1)) == 0:
                return True, ""
            if sp.simplify(w - r) == 0:
                if cand_q != qs:
                    return True, ""          # the weight is formed from a query that was clipped to the grid
                return False, (f"the weight `{str(sp.factor(w))[:90]}` of the upper row is neither clipped to [0, 1] nor formed from a query that was clipped "
                               f"to the grid: for t before the first / after the last grid point the result is EXTRAPOLATED along the "
                               f"first / last interval, while interp (and numpy.interp / jax.numpy.interp) hold the boundary sample - "
                               f"the backends disagree outside the grid")
        raise AnalysisError(f"interp_rows helper: weight `{w}` is not (t - X[i]) / (X[i+1] - X[i]) (unrecognised form)")
    # ---- uniform-grid form
    pos = None
    if lo.func == ffloor and len(lo.args) == 1:
        pos = lo.args[0]
    if pos is not None:
        if sp.simplify(w - (pos - lo)) != 0:
            raise AnalysisError(f"interp_rows helper: weight `{w}` is not position - floor(position) (unrecognised form)")
        if pos.func == fclip and len(pos.args) == 3 and pos.args[1] == 0 and pos.args[2] == n_rows - 1:
            p_ = pos.args[0]
            clamped = True
        else:
            p_, clamped = pos, False
        span = grid_hi - grid_lo
        if sp.simplify(p_ - (qs - grid_lo) * (n_rows - 1) / span) == 0:
            if clamped:
                return True, ""
            return False, ("the fractional position is not clipped to [0, n - 1] before the bracket index and the weight are formed: "
                           "queries outside the grid index rows that do not exist / are extrapolated")
        for wrong, what in ((n_rows, "n"), (n_rows + 1, "n + 1"), (n_cols, "the number of COLUMNS"), (n_cols - 1, "the number of columns - 1")):
            if sp.simplify(p_ - (qs - grid_lo) * wrong / span) == 0:
                return False, (f"the fractional position scales (t - X[0]) / (X[-1] - X[0]) by {what} instead of n - 1: n samples span "
                               f"n - 1 intervals, so sample k would be placed at k * T / {what} and the input is compressed in time")
        raise AnalysisError(f"interp_rows helper: position `{p_}` is not (t - X[0]) * (n - 1) / (X[-1] - X[0]) (unrecognised form)")
    raise AnalysisError(f"interp_rows helper: bracket index `{lo}` is neither a clipped searchsorted(grid, t) - 1 nor floor(position) "
                        f"(unrecognised form)")


def _rows_iteration(fn: ast.FunctionDef):
    """(loop variable, iterable, element expression) of a helper that builds one value per column, written either as
    `return wrap([elt for k in it])` or as `acc = []; for k in it: acc.append(elt); return wrap(acc)`.  Locals that are assigned
    once by a plain top-level `name = expr` are inlined.  Raises AnalysisError for any other form."""
    import copy
    body = [s for s in fn.body if not (isinstance(s, ast.Expr) and isinstance(s.value, ast.Constant))]
    if not body or not isinstance(body[-1], ast.Return) or body[-1].value is None:
        raise AnalysisError("interp_rows helper does not end in a `return` of the collected values (unrecognised form)")
    stores: Dict[str, int] = {}
    for n in ast.walk(fn):
        if isinstance(n, ast.Name) and isinstance(n.ctx, (ast.Store, ast.Del)):
            stores[n.id] = stores.get(n.id, 0) + 1
    params = {a.arg for a in fn.args.args}
    env: Dict[str, ast.AST] = {}
    loops, inits = [], {}
    for s in body[:-1]:
        if isinstance(s, ast.Assign) and len(s.targets) == 1 and isinstance(s.targets[0], ast.Name) and s.targets[0].id not in params \
                and s.targets[0].id not in inits and s.targets[0].id not in env:
            nm = s.targets[0].id
            if (isinstance(s.value, ast.List) and not s.value.elts) or (isinstance(s.value, ast.Call) and call_name(s.value) == "list"
                                                                       and not s.value.args and not s.value.keywords):
                if loops:
                    raise AnalysisError("interp_rows helper creates a list after its loop (unrecognised form)")
                inits[nm] = s
            elif stores.get(nm) == 1 and not loops:
                env[nm] = s.value
            else:
                raise AnalysisError(f"interp_rows helper re-binds `{nm}` (unrecognised form)")
        elif isinstance(s, ast.For) and not s.orelse:
            loops.append(s)
        else:
            raise AnalysisError(f"interp_rows helper contains `{ast.unparse(s).splitlines()[0]}` (unrecognised form)")

    def subst(e, depth=4):
        if isinstance(e, ast.Name) and isinstance(e.ctx, ast.Load) and e.id in env and depth > 0:
            return subst(env[e.id], depth - 1)
        if not isinstance(e, ast.AST):
            return e
        new = copy.copy(e)
        for field, val in ast.iter_fields(e):
            if isinstance(val, list):
                setattr(new, field, [subst(x, depth) if isinstance(x, ast.AST) else x for x in val])
            elif isinstance(val, ast.AST):
                setattr(new, field, subst(val, depth))
        return new
    ret = subst(body[-1].value)
    seq = ret
    if isinstance(ret, ast.Call) and ret.args:
        seq = ret.args[0]
        extra = list(ret.args[1:]) + [kw for kw in ret.keywords if kw.arg != "dtype"]
        if extra:
            raise AnalysisError(f"interp_rows helper wraps its values with extra arguments `{ast.unparse(ret)}` (unrecognised form)")
    if isinstance(seq, (ast.ListComp, ast.GeneratorExp)):
        if loops or inits:
            raise AnalysisError("interp_rows helper mixes a loop with a comprehension (unrecognised form)")
        if len(seq.generators) != 1 or seq.generators[0].ifs or not isinstance(seq.generators[0].target, ast.Name):
            raise AnalysisError("interp_rows helper does not build its result from one comprehension (unrecognised form)")
        gen = seq.generators[0]
        return gen.target.id, gen.iter, seq.elt
    if isinstance(seq, ast.Name) and seq.id in inits and len(loops) == 1 and len(inits) == 1:
        loop = loops[0]
        if not isinstance(loop.target, ast.Name) or len(loop.body) != 1:
            raise AnalysisError("interp_rows helper: the collecting loop is not `for k in ...: acc.append(value)` (unrecognised form)")
        st = loop.body[0]
        elt = None
        if isinstance(st, ast.Expr) and isinstance(st.value, ast.Call) and isinstance(st.value.func, ast.Attribute) \
                and st.value.func.attr == "append" and isinstance(st.value.func.value, ast.Name) and st.value.func.value.id == seq.id \
                and len(st.value.args) == 1 and not st.value.keywords:
            elt = st.value.args[0]
        elif isinstance(st, ast.AugAssign) and isinstance(st.op, ast.Add) and isinstance(st.target, ast.Name) and st.target.id == seq.id \
                and isinstance(st.value, ast.List) and len(st.value.elts) == 1:
            elt = st.value.elts[0]
        if elt is None:
            raise AnalysisError("interp_rows helper: the collecting loop is not `for k in ...: acc.append(value)` (unrecognised form)")
        return loop.target.id, subst(loop.iter), subst(elt)
    raise AnalysisError("interp_rows helper is neither `return array([... for k in ...])` nor a loop that appends one value per column "
                        "(unrecognised form)")


def _imported_def_string(ctx, module, d):
    """(text, statement, kind) like Registry.def_source for a helper definition string that the registry module imports
    (`from <other module> import <name>`), following the import chain to the assignment of the string constant."""
    if not isinstance(d, ast.Name):
        return None
    m, name = module, d.id
    for _ in range(5):
        sts = m.assigns.get(name)
        if sts and isinstance(sts[-1], ast.Assign) and isinstance(sts[-1].value, ast.Constant) and isinstance(sts[-1].value.value, str):
            text = sts[-1].value.value
            try:
                ast.parse(text)
                return text, sts[-1], "pydef"
            except SyntaxError:
                return text, sts[-1], "foreign"
        if sts and isinstance(sts[-1], ast.Assign) and isinstance(sts[-1].value, ast.Name):
            name = sts[-1].value.id          # module-level alias of another (possibly imported) name
            continue
        imp = m.imports.get(name)
        if imp is None or imp[1] in (None, "*"):
            return None
        m, name = ctx.repo.modules.get(imp[0]), imp[1]
        if m is None:
            return None
    return None


def r6_interp_rows(ctx, rid):
    n = 0
    for be in ("base", "torch", "jax"):
        reg = H.Registry(ctx, be)
        if "interp_rows" not in reg.entries:
            if be == "base":
                raise AnalysisError(f"{rid}: registry {reg.name} has no `interp_rows` entry")
            continue
        items = []
        src = reg.def_source("interp_rows")
        if src is None:
            # the definition string may be shared: imported from the module that defines it
            src = _imported_def_string(ctx, reg.module, reg.entries["interp_rows"].get("def"))
        if src is not None and src[2] == "pydef":
            items.append((H.parse_pydef(src[0]), src[1], "def string"))
        fnode = reg.entries["interp_rows"].get("func")
        if isinstance(fnode, ast.Name):
            tw = reg.module.functions.get(fnode.id) or ctx.repo.resolve_name(reg.module, fnode.id)
            if tw is not None and isinstance(getattr(tw, "node", None), ast.FunctionDef):
                items.append((tw.node, tw.node, f"numpy twin {fnode.id}"))
        for fn, st, what in items:
            n += 1
            try:
                good, why = _check_interp_rows(fn)
            except AnalysisError as e:
                raise AnalysisError(f"{rid}: {reg.module.rel} {what}: {e}")
            construct = f"{reg.module.rel}::{reg.name}['interp_rows'] {what}"
            if good:
                ob = ctx.ok(rid, None, None, f"{be} {what}: element k is interp(t, time, inp[:, k]) for every column k")
            else:
                ob = ctx.violation(rid, None, None, f"{be} {what} of interp_rows is wrong: {why}: unit k of a vector input would not follow "
                                                    f"column k of the array", {"helper": ast.unparse(fn)})
            ob.construct, ob.loc = construct, f"{reg.module.rel}:{st.lineno}"
    if n < 2:
        raise AnalysisError(f"{rid}: only {n} python-syntax interp_rows helpers found")


# --------------------------------------------------------------------------------------------
# R7 — the name registry of the input operators and the operator cache keyed by those names are emptied together
# --------------------------------------------------------------------------------------------

_SHRINKERS = {"clear", "pop", "popitem", "__delitem__"}


def _input_name_registries(ctx, rid):
    """Module-level containers of circuit.py that create_input_node (its private helpers spliced in) hands to get_unique_label as
    the registry of names already taken - i.e. the registry behind the names of input operators, not any other label registry."""
    m = ctx.repo.get_module(REL)
    g = ctx.repo.get_func(REL, "create_input_node")
    gi = inlined(ctx, g, keep=("get_unique_label",))
    out = set()
    for c in walk_shallow(gi.node):
        if isinstance(c, ast.Call) and call_name(c) == "get_unique_label":
            args = list(c.args) + [k.value for k in c.keywords]
            for a in args[1:]:
                if isinstance(a, ast.Name) and a.id in m.assigns and a.id not in gi.params \
                        and not any(isinstance(n, ast.Name) and n.id == a.id and isinstance(n.ctx, ast.Store) for n in walk_shallow(gi.node)):
                    out.add(a.id)
    ctx.require(out, f"{rid}: create_input_node hands no module-level name registry to get_unique_label (anchor vanished)")
    return out


def _name_keyed_operator_caches(ctx, rid):
    """(class, attribute names): class-level containers of the operator template class that its methods subscript through
    self / the class (the memo of applied operators, keyed by operator name)."""
    g = ctx.repo.get_func(REL, "create_input_node")
    cls = None
    for c in walk_shallow(g.node):
        if isinstance(c, ast.Call) and any(k.arg == "equations" for k in c.keywords):
            r = ctx.repo.resolve_expr(g.module, c.func)
            if r is not None and hasattr(r, "methods"):
                cls = r
    ctx.require(cls is not None, f"{rid}: the operator template class instantiated by create_input_node cannot be resolved")
    attrs = set()
    for k in cls.mro:
        for name, val in getattr(k, "attrs", {}).items():
            if isinstance(val, ast.Dict) or (isinstance(val, ast.Call) and call_name(val) in ("dict", "OrderedDict")):
                for meth in k.methods.values():
                    for n in walk_shallow(meth.node):
                        if isinstance(n, ast.Subscript) and isinstance(n.value, ast.Attribute) and n.value.attr == name:
                            attrs.add(name)
    ctx.require(attrs, f"{rid}: {cls.name} has no class-level cache that its methods subscript (anchor vanished)")
    return cls, attrs


def r7_registry_and_cache_emptied_together(ctx, rid):
    """create_input_node makes the name of every input operator unique for the life of the process through a module-level registry
    of names already handed out; OperatorTemplate.apply memoises applied operators - including their default values, i.e. the input
    array and its time grid - under the operator's name.  Names may therefore be released (the registry emptied, shrunk or
    re-bound) only where that cache is emptied as well: otherwise a later compilation re-creates an already used name, hits the
    stale entry and integrates the array of an earlier call."""
    from engine import effects as _effects
    eff = ctx.effects
    registries = _input_name_registries(ctx, rid)
    cache_cls, cache_attrs = _name_keyed_operator_caches(ctx, rid)
    cache_classes = {c.name for c in ctx.repo.subclasses(cache_cls)} | {cache_cls.name}

    def is_cache_expr(f, e) -> bool:
        if not (isinstance(e, ast.Attribute) and e.attr in cache_attrs):
            return False
        r = ctx.repo.resolve_expr(f.module, e.value)
        if r is not None and getattr(r, "name", None) in cache_classes and hasattr(r, "methods"):
            return True
        try:
            return any(c.name in cache_classes for c in ctx.cg.expr_classes(f, e.value))
        except Exception:
            return False

    def direct_cache_clears(f):
        out = []
        for n in walk_shallow(f.node):
            if isinstance(n, ast.Call) and isinstance(n.func, ast.Attribute) and n.func.attr == "clear" and is_cache_expr(f, n.func.value):
                out.append(n)
            elif isinstance(n, ast.Assign) and any(is_cache_expr(f, t) for t in n.targets) \
                    and ((isinstance(n.value, ast.Dict) and not n.value.keys) or (isinstance(n.value, ast.Call) and call_name(n.value) == "dict"
                                                                                  and not n.value.args and not n.value.keywords)):
                out.append(n)
        return out
    funcs = ctx.repo.all_functions()
    always_clears = set()          # functions that empty the cache on every path
    for f in funcs:
        cs = direct_cache_clears(f)
        if cs:
            cfg = ctx.cfg(f)
            sts = [stmt_of(cfg, c) if not isinstance(c, ast.stmt) else c for c in cs]
            if cfg.must_pass(cfg.ENTRY, lambda n: any(n is x for x in sts)) is None:
                always_clears.add(f)

    def cache_clear_stmts(f):
        cfg = ctx.cfg(f)
        out = [stmt_of(cfg, c) if not isinstance(c, ast.stmt) else c for c in direct_cache_clears(f)]
        for c in walk_shallow(f.node):
            if isinstance(c, ast.Call):
                ts, how = ctx.cg.resolve_call(f, c)
                if ts and how not in ("by-name",) and all(t in always_clears for t in ts):
                    out.append(stmt_of(cfg, c))
        return [x for x in out if x is not None]

    def covered(f, st) -> bool:
        cfg = ctx.cfg(f)
        cl = cache_clear_stmts(f)
        if not cl or st is None:
            return False
        if any(x is st or cfg.dominates(x, st) for x in cl):
            return True
        return cfg.must_pass(st, lambda n: any(n is x for x in cl)) is None

    n_sites = 0
    for f in funcs:
        # cheap pre-filter: the registry can only be reached by its name (own module / import) or through the module object
        if not any((isinstance(n, ast.Name) and n.id in registries) or (isinstance(n, ast.Attribute) and n.attr in registries)
                   for n in walk_shallow(f.node)):
            continue
        an = _effects.analyse(eff, f)
        shrinks = []          # (statement, description)
        declared_global = {nm for n in walk_shallow(f.node) if isinstance(n, ast.Global) for nm in n.names}
        for n in walk_shallow(f.node):
            recv = None
            if isinstance(n, ast.Call) and isinstance(n.func, ast.Attribute) and n.func.attr in _SHRINKERS:
                recv, what = n.func.value, f"`{norm(n)}`"
            elif isinstance(n, ast.Delete):
                for t in n.targets:
                    if isinstance(t, ast.Subscript):
                        recv, what = t.value, f"`{norm(n)}`"
            elif isinstance(n, (ast.Assign, ast.AnnAssign)) and f.module.rel == REL:
                tg = n.targets if isinstance(n, ast.Assign) else [n.target]
                for t in tg:
                    if isinstance(t, ast.Name) and t.id in registries and t.id in declared_global:
                        shrinks.append((n, f"`{norm(n)}` re-binds the registry"))
            elif isinstance(n, ast.Assign):
                for t in n.targets:
                    if isinstance(t, ast.Attribute) and t.attr in registries:
                        r = ctx.repo.resolve_expr(f.module, t.value)
                        if r is not None and getattr(r, "rel", None) == REL:
                            shrinks.append((n, f"`{norm(n)}` re-binds the registry"))
            if recv is not None:
                try:
                    origins = an.origins(recv)
                except Exception:
                    origins = ()
                if any(o[0] == "G" and o[1] == REL and o[2] in registries and o[3] == () for o in origins):
                    shrinks.append((n, what + " releases names of the registry"))
        for n, what in shrinks:
            n_sites += 1
            st = n if isinstance(n, ast.stmt) else stmt_of(ctx.cfg(f), n)
            label = f"names released: {norm(n)}"
            if covered(f, st):
                ctx.ok(rid, f, n, f"{what}; the name-keyed operator cache {cache_cls.name}.{'/'.join(sorted(cache_attrs))} is emptied on the same path",
                       label=label)
                continue
            sites = ctx.cg.call_sites_of(f)
            if sites and all(covered(cf, stmt_of(ctx.cfg(cf), cc)) for cf, cc in sites):
                ctx.ok(rid, f, n, f"{what}; every caller of {f.qualname} empties the operator cache on the same path", label=label)
                continue
            ctx.violation(rid, f, n, f"{what}, but {cache_cls.name}.{'/'.join(sorted(cache_attrs))} - which memoises applied operators and "
                                     f"their default values (input array, time grid) under the operator NAME - is not emptied on this path: "
                                     f"the next input operator gets a name that was used before, OperatorTemplate.apply returns the stale "
                                     f"entry and the model is driven by the array of an earlier call", {"registry": sorted(registries)},
                          label=label)
    ctx.require(n_sites >= 1, f"{rid}: no place found where names of {sorted(registries)} are released (clear() no longer empties it?)")


RULES = [
    ("C08-R1", r1_interp, 3),
    ("C08-R2", r2_column_to_node, 4),      # one merged record: target, source, source_idx, guard (6 with two records, as today)
    ("C08-R3", r3_time_grid, 13),          # 9 + 4 per function that hosts an _add_input call (three today: 21); all three public
                                           # callers must be covered, see the require in the rule
    ("C08-R4", r4_update_template_forwards, 9),
    ("C08-R5", r5_empty_selection_reported, 1),
    ("C08-R6", r6_interp_rows, 3),
    ("C08-R7", r7_registry_and_cache_emptied_together, 1),
    ("C08-R8", r8_column_index_by_presence, 1),        # = C06-R8: the per-edge column index is how input columns reach their unit
]
