"""`CNN-RP`: the shared pitfall lints (rules/_pitfall_lints.py) over the files a property is anchored in.

A property's anchor files are the code that implements it; a shared-mutable fill that is written through, a per-iteration value that
leaks into the next iteration, a mutated mutable default argument or a stored late-binding closure in that code is a defect of the
mechanism the property rests on (each lint reports only with a positive reason read off the code, and each was validated silent on
/repo and on every saved behaviour-preserving tree before it was armed).  What the rule decides is the absence of these four defect
shapes in the anchored files - not the property's behaviour.  A synthetic positive control runs on every call.
"""
from __future__ import annotations

import ast
import json
import os
import shutil
import tempfile

from engine import AnalysisError
from engine.report import Ctx
from engine.srcmodel import Repo
from . import _pitfall_lints as L

LINTS = (("shared mutable fill", L.shared_mutable_fill), ("stale loop carry", L.stale_loop_carry),
         ("mutable default argument", L.mutable_default_argument), ("late-binding closure", L.late_binding_closure),
         ("loop-scoped value read in a later loop", L.loop_scoped_value_in_later_loop), ("per-call memo keyed too narrowly", L.local_memo_key),
         ("ordered result from set iteration order", L.set_order_dependence),
         ("deepcopy with a memo shared between loop iterations", L.deepcopy_shared_memo),
         ("float quotient truncated to an integer", L.truncated_quotient),
         ("absolute tolerance with an implicit relative one", L.implicit_relative_tolerance))

_CONTROL = '''
def a(keys):
    t = dict.fromkeys(keys, {})
    for k in keys:
        t[k]["x"] = 1
    return t

def b(items):
    cur = None
    out = []
    for it in items:
        if it.flag:
            cur = it.make()
        out.append(cur)
    return out

def c(x, acc=[]):
    acc.append(x)
    return acc

def d(n):
    fs = []
    for i in range(n):
        fs.append(lambda t: t + i)
    return fs

def e(pairs, groups):
    for key, val in pairs:
        val.touch()
    out = []
    for g in groups:
        out.append((key, g))
    return out

def h(names):
    uniq = set(names)
    out = []
    for nm in uniq:
        out.append(nm)
    return out

def k2(items):
    from copy import deepcopy
    memo, out = {}, []
    for it in items:
        out.append(deepcopy(it, memo))
    return out

def q(T, dt):
    return int(T / dt), int(round(T / dt)), int(T // dt)

def w(ws, tol):
    import numpy as np
    return np.allclose(ws, 1.0, atol=tol), np.allclose(ws, 1.0, rtol=0.0, atol=tol)

def g(nodes):
    seen = {}
    for node in nodes:
        if node.name not in seen:
            seen[node.name] = node.probe()
    return seen
'''
_control_ok = None


def _self_check():
    global _control_ok
    if _control_ok is None:
        tmp = tempfile.mkdtemp(prefix="pyr_verif_pitfall_control_")
        try:
            os.makedirs(os.path.join(tmp, "pyrates"))
            with open(os.path.join(tmp, "pyrates", "__init__.py"), "w") as fh:
                fh.write(_CONTROL)
            cctx = Ctx(Repo(tmp), "control")
            funcs = list(cctx.repo.functions.values())
            hits = [len(fn(cctx, funcs)) for _, fn in LINTS]
            _control_ok = all(h == 1 for h in hits)
            if not _control_ok:
                raise AnalysisError(f"pitfall lints: positive control failed (hits per lint = {hits}, expected 1 each)")
        finally:
            shutil.rmtree(tmp, ignore_errors=True)
    return _control_ok


def anchor_files(prop: str):
    path = os.path.join(os.path.dirname(os.path.dirname(os.path.abspath(__file__))), "properties.jsonl")
    for line in open(path, encoding="utf-8"):
        line = line.strip()
        if not line:
            continue
        d = json.loads(line)
        if d.get("id") == prop:
            return [f for f in d.get("anchors", {}).get("files", []) if f.endswith(".py")]
    raise AnalysisError(f"property {prop} not found in properties.jsonl")


def rule(ctx, rid):
    _self_check()
    files = anchor_files(ctx.prop)
    present = [f for f in files if f in ctx.repo.by_rel]
    if not present:
        raise AnalysisError(f"{rid}: none of the anchored files {files} exists in the tree")
    funcs = [f for f in ctx.repo.functions.values() if f.module.rel in present]
    if len(funcs) < 5:
        raise AnalysisError(f"{rid}: only {len(funcs)} functions found in the anchored files")
    for name, fn in LINTS:
        hits = fn(ctx, funcs)
        if not hits:
            ctx.ok(rid, None, None, f"no `{name}` defect in the {len(funcs)} functions of the anchored files", {"files": present},
                   construct=f"anchored files::{name}", loc=f"{present[0]}:1", nontrivial=True)
        for f, node, why in hits:
            ctx.violation(rid, f, node, f"{name}: {why}", label=f"{name}: {ast.unparse(node)[:60] if isinstance(node, ast.AST) else name}")
